"""C12 — --clean never deletes a PEL whose decoded output was not completely written."""
import builtins
import errno
import io
import json
import os
import shutil
import subprocess
import sys
import tempfile

import apel
import clirun
import toprun
import common
import mainrun
import pelbuild
from common import Check, lean_batch

TRUSTED = ['harness/toprun.py (worlds materialised as real trees, the real peltool.main() run end to end in-process with nothing replaced, recursive snapshots, comparison with the driver op runmain = Pel.runMain of PelModel/Top.lean)',
           'Lean 4.33.0 kernel (+ leanchecker in the thorough tier)',
           'axioms: propext, Classical.choice, Quot.sound only (audited per theorem)',
           'harness/c12.py (fault-injecting proxies for open / stdout / os.remove, comparison), Drv.lean protocol parsing',
           'harness/mainrun.py (the -f branch of the real main() with parseAndPrintPELFile replaced by a recorder returning a chosen Boolean)',
           'compiled driver peldrv agrees with the kernel reading of the same definitions']
ASSUME = ['whole-command model: -o names the -p directory iff absent/empty or the same string; the -f file is not a top-level file of the -p directory; --json is composed in batch form (an output name equal to another input file name is outside the composition)',
          '"completely written" means written and closed (--json) / printed and flushed (--file): the code does no fsync; durability '
          'across a kernel crash is outside any executable model of this code',
          'faults are injected at the Python I/O layer (open, write, flush, close raising OSError); /dev/full and a closed pipe confirm on the real OS',
          'a process death is a prefix of the event trace']
RULE = ('cases = (procedure --json -c | --file --clean, decode result doc / filtered / failed / bad header, fault plan: no fault, fault at open, '
        'at the first / a middle / the last write, at close, at print, at flush, at remove; errno ENOSPC / EIO / EPIPE); the recorded event '
        'trace is compared with the model and the final state is checked directly; non-trivial = a fault or a non-doc decode result; '
        'distinct by (procedure, input, fault plan).  main() cases = command lines with -f and other mode options, with and without '
        '--clean, parseAndPrintPELFile made to return True / False: main() must call os.remove(the -f file) iff --clean and True '
        '(compared with Pel.Action.afterPrint)')


class Injected(Exception):
    pass


class Recorder:
    def __init__(self, fault_step, err):
        self.events = []
        self.fault_step = fault_step
        self.err = err
        self.step = 0

    def do(self, name, action=None):
        k = self.step
        self.step += 1
        if k == self.fault_step:
            self.events.append((name, False))
            raise OSError(self.err, os.strerror(self.err))
        self.events.append((name, True))
        return action() if action else None


class FaultFile:
    def __init__(self, rec, real):
        self.rec, self.real, self.closed = rec, real, False

    def __enter__(self):
        return self

    def write(self, s):
        return self.rec.do('write', lambda: self.real.write(s))

    def writelines(self, it):
        for x in it:
            self.write(x)

    def flush(self):
        self.real.flush()

    def close(self):
        if not self.closed:
            self.closed = True
            try:
                self.rec.do('close', self.real.close)
            finally:
                if not self.real.closed:
                    self.real.close()

    def __exit__(self, *a):
        self.close()
        return False


class FaultStdout:
    def __init__(self, rec):
        self.rec, self.buf, self.printing = rec, io.StringIO(), False

    def write(self, s):
        if not self.printing:
            self.printing = True
            self.rec.do('print')
        return self.buf.write(s)

    def flush(self):
        self.rec.do('flush')

    def fileno(self):
        # code that manipulates the descriptor behind sys.stdout (dup2 of /dev/null over it, isatty …) gets a real,
        # harmless descriptor of its own
        if not hasattr(self, '_scratch'):
            self._scratch = tempfile.TemporaryFile()
        return self._scratch.fileno()

    def isatty(self):
        return False


def trunc(events):
    out = []
    for e in events:
        out.append(e)
        if not e[1]:
            break
    return out


def run_json(path, outdir, fault_step, err, every):
    rec = Recorder(fault_step, err)
    real_open, real_remove = builtins.open, os.remove

    def fopen(file, mode='r', *a, **k):
        if isinstance(file, str) and os.path.dirname(os.path.abspath(file)) == os.path.abspath(outdir) and 'w' in mode:
            return rec.do('open', lambda: FaultFile(rec, real_open(file, mode, *a, **k)))
        return real_open(file, mode, *a, **k)

    def fremove(p):
        return rec.do('remove', lambda: real_remove(p))
    builtins.open, os.remove = fopen, fremove
    try:
        so, se, sx = clirun.run_main(['-p', path, '-j', '-c', '-o', outdir] + (['-E'] if every else []))
    finally:
        builtins.open, os.remove = real_open, real_remove
    return rec.events, so, se, sx


def run_file(file, fault_step, err, every, hex_=False):
    rec = Recorder(fault_step, err)
    real_remove = os.remove
    fs = FaultStdout(rec)
    from pel.peltool import peltool
    old_argv, old_out, old_err = sys.argv, sys.stdout, sys.stderr
    sys.argv = ['peltool.py', '-f', file, '--clean'] + (['-E'] if every else []) + (['-x'] if hex_ else [])
    sys.stdout, sys.stderr = fs, io.StringIO()
    os.remove = lambda p: rec.do('remove', lambda: real_remove(p))
    code = None
    try:
        try:
            peltool.main()
        except SystemExit as e:
            code = e.code
        except OSError as e:          # a failing os.remove propagates out of main()
            code = 'oserror'
        except Exception as e:        # anything else escaping main(): the interpreter would print a traceback, status 1
            code = 'crash:' + type(e).__name__
    finally:
        sys.argv, sys.stdout, os.remove = old_argv, old_out, real_remove
        errtxt = sys.stderr.getvalue()
        sys.stderr = old_err
    return rec.events, fs.buf.getvalue(), errtxt, code


def run(tier, seed):
    ck = Check('C12', tier, seed)
    ck.proof = common.build_and_audit('C12', thorough=(tier == 'thorough'))
    if not ck.proof['driver_ok']:
        return ck.finish(RULE, TRUSTED, ASSUME)
    rng = ck.rng
    thorough = tier == 'thorough'
    env = apel.PluginEnv(allow=True, ud={'x2222': ('raises', 'boom'), 'x3333': ('none',), 'x1111': ('echo',)}).install()
    tmp = tempfile.mkdtemp(prefix='c12_')
    try:
        good = pelbuild.pel([pelbuild.UH(), pelbuild.SRC(), pelbuild.UD(b'hello\nworld')], eid=0x50000abc)
        hidden = pelbuild.pel([pelbuild.UH(af=0x4000), pelbuild.UD(b'x')], eid=0x50000abd)
        # a log whose sections go to parser modules that raise / answer nothing / echo: decodes to a document all the same
        plugged = pelbuild.pel([pelbuild.UH(), pelbuild.UD(b'abc', sub=7, comp=0x2222), pelbuild.UD(b'def', sub=7, comp=0x3333), pelbuild.UD(b'ghi', sub=7, comp=0x1111)], creator=b'x', eid=0x50000abe)
        inputs = [('doc', good, True), ('doc', plugged, True), ('filtered', hidden, False), ('failed', good[:100], True), ('failed', b'XX' + good[2:], True)]
        if thorough:
            d = clirun.keep_decodable(env, clirun.gen_wf_dir(rng, 6))
            inputs += [('doc', apel.enc_pel(p), True) for _, p in d]
        reqs, meta = [], []
        for (dres, data, every) in inputs:
            # how many writes will the document take?  (writelines over a str writes one character at a time)
            n = 0
            if dres == 'doc':
                real = apel.real_decode(data)
                n = len(real[4]) if real[0] == 'doc' and len(real) > 4 else 0      # (a log the code under test no longer decodes: the traces below will differ from the model's)
            steps = [None, 0, 1, max(1, n // 2), n, n + 1, n + 2] if dres == 'doc' else [None, 0]
            if thorough and dres == 'doc' and n < 3000:
                steps += list(range(2, n, max(1, n // 40)))
            for fs in steps:
                for err in ([errno.ENOSPC, errno.EIO, errno.EPIPE] if fs is not None and (thorough or fs in (0, 1, n + 1)) else [errno.ENOSPC]):
                    reqs.append('clean 0 %d %d 1 %d' % ({'doc': 0, 'filtered': 1, 'failed': 2}[dres], n, 999999 if fs is None else fs))
                    meta.append(('json', dres, data, every, n, fs, err))
            fsteps = [None, 0, 1, 2] if dres == 'doc' else [None]
            for fs in fsteps:
                for err in ([errno.ENOSPC, errno.EIO, errno.EPIPE] if fs is not None else [errno.ENOSPC]):
                    reqs.append('clean 1 %d 0 1 %d' % ({'doc': 0, 'filtered': 1, 'failed': 2}[dres], 999999 if fs is None else fs))
                    meta.append(('file', dres, data, every, 0, fs, err))
                    # the same procedure with --hex: the document is the delimited hex dump, written line by line
                    reqs.append(reqs[-1])
                    meta.append(('filehex', dres, data, every, 0, fs, err))
        replies = lean_batch(reqs)
        for (proc, dres, data, every, n, fs, err), r in zip(meta, replies):
            work = tempfile.mkdtemp(dir=tmp)
            indir = os.path.join(work, 'in')
            outdir = os.path.join(work, 'out')
            os.makedirs(indir)
            os.makedirs(outdir)
            infile = os.path.join(indir, 'pel_0001')
            with open(infile, 'wb') as f:
                f.write(data)
            if proc == 'json':
                events, so, se, sx = run_json(indir, outdir, -1 if fs is None else fs, err, every)
            else:
                events, so, se, sx = run_file(infile, -1 if fs is None else fs, err, every, hex_=(proc == 'filehex'))
            events = trunc(events)
            model = [r.word() for _ in range(r.num())]
            m_removed = bool(r.num())
            real_tr = ['%s%s' % (e, '+' if ok else '!') for e, ok in events]
            present = os.path.exists(infile)
            unchanged = present and open(infile, 'rb').read() == data
            ck.case(key=(proc, data, fs, err) if (fs is not None or dres != 'doc') else None,
                    sample={'procedure': proc, 'decode': dres, 'writes': n, 'fault_step': fs, 'errno': errno.errorcode[err], 'trace_tail': real_tr[-3:], 'input_present': present})
            ck.count('%s %s fault=%s' % (proc, dres, 'none' if fs is None else ('remove' if real_tr and real_tr[-1] == 'remove!' else real_tr[-1] if real_tr else '?')))
            rp = {'op': 'clean', 'procedure': proc, 'decode': dres, 'data_hex': data.hex(), 'writes': n, 'fault_step': fs, 'errno': errno.errorcode[err],
                  'trace': real_tr[:3] + ['…'] + real_tr[-4:] if len(real_tr) > 8 else real_tr, 'input_present': present}
            # ---- the property on the real code
            removed_ok = ('remove', True) in events
            complete = dres == 'doc' and all(ok for _, ok in events if _ != 'remove') and \
                (('close', True) in events if proc == 'json' else ('flush', True) in events)
            if not present and not complete:
                ck.fail('the input was deleted although its output was not completely written', rp, 'removed_incomplete')
            if present and not unchanged:
                ck.fail('the input file was modified', rp, 'modified')
            if not present and proc == 'json':
                outs = os.listdir(outdir)
                try:
                    ok = len(outs) == 1 and json.load(open(os.path.join(outdir, outs[0])))
                except Exception:
                    ok = False
                if not ok:
                    ck.fail('the input was deleted but the output file is missing or not valid JSON', rp | {'out': outs}, 'removed_bad_output')
            # ---- correspondence
            if (real_tr if proc == 'json' else [t for t in real_tr]) != model or (not present) != m_removed:
                ck.disagree('event trace differs from the model', rp | {'model': model[:3] + ['…'] + model[-4:] if len(model) > 8 else model, 'model_removed': m_removed})
            shutil.rmtree(work, ignore_errors=True)
        # ---- the real OS: /dev/full and a closed pipe for --file --clean; an unwritable output directory for --json -c
        for name, redir in (('devfull', '/dev/full'),):
            infile = os.path.join(tmp, 'os_' + name)
            open(infile, 'wb').write(good)
            with open(redir, 'w') as out:
                so, se, sx = clirun.run_sub(['-f', infile, '--clean'], stdout=out)
            ck.case(key=('os', name), sample={'real_os': '-f x --clean > ' + redir, 'exit': sx, 'input_present': os.path.exists(infile)})
            ck.count('real-OS ' + name)
            if not os.path.exists(infile):
                ck.fail('input deleted although stdout could not be written (%s)' % redir, {'op': 'clean-os', 'case': name, 'stderr': se[-300:]}, 'os_' + name)
        infile = os.path.join(tmp, 'os_pipe')
        open(infile, 'wb').write(good)
        # a pipe whose reader is gone before the tool starts: every write fails with EPIPE, nothing is delivered
        for opt in (False, True):
            open(infile, 'wb').write(good)
            rd, wr = os.pipe()
            os.close(rd)
            try:
                p = subprocess.Popen([common.PY] + (['-O'] if opt else []) + ['-W', 'ignore', clirun.PELTOOL, '-f', infile, '--clean'], stdout=wr, stderr=subprocess.PIPE, env=common.child_env())
            finally:
                os.close(wr)
            try:
                _, se = p.communicate(timeout=60)
            except subprocess.TimeoutExpired:
                p.kill()
                se = b'HANG'
            ck.case(key=('os', 'pipe', opt), sample={'real_os': '-f x --clean  with stdout = a pipe without reader', 'exit': p.returncode, 'input_present': os.path.exists(infile)})
            ck.count('real-OS pipe without reader')
            if not os.path.exists(infile):
                ck.fail('input deleted although nothing could be written to stdout (pipe without reader, EPIPE)',
                        {'op': 'clean-os', 'case': 'closed-pipe', 'optimise': opt, 'exit': p.returncode, 'stderr': se.decode(errors='replace')[-300:]}, 'os_pipe')
        # a PEL cut short inside its last section: decoding fails, also when assertions are disabled, so --clean must leave it alone
        for opt in (False, True):
            for cut in (len(good) - 1, len(good) - 5, 60):
                open(infile, 'wb').write(good[:cut])
                so, se, sx = clirun.run_sub(['-f', infile, '--clean'], optimise=opt)
                cutdir = clirun.make_dir([('cut.pel', good[:cut])], base=tmp)
                cutout = clirun.make_dir([], base=tmp)
                clirun.run_sub(['-p', cutdir, '-j', '-c', '-o', cutout, '-E'], optimise=opt)
                ck.case(key=('os', 'cut', opt, cut))
                ck.count('real-OS truncated PEL with --clean%s' % (' under python -O' if opt else ''))
                if not os.path.exists(infile) or not os.path.exists(os.path.join(cutdir, 'cut.pel')):
                    ck.fail('a PEL that is cut short (its decoding fails) was deleted by --clean%s' % (' when assertions are disabled (python -O)' if opt else ''),
                            {'op': 'clean-os', 'case': 'truncated %d of %d bytes' % (cut, len(good)), 'optimise': opt, 'data_hex': good[:cut].hex(), 'stdout': so[:200]}, 'os_truncated')
        # stdout CLOSED before the tool starts (`peltool -f x --clean >&-`): sys.stdout is None, print() delivers nothing to anybody
        for opt in (False, True):
            for hexopt in ([], ['-x']):
                open(infile, 'wb').write(good)
                p = subprocess.Popen([common.PY] + (['-O'] if opt else []) + ['-W', 'ignore', clirun.PELTOOL, '-f', infile, '--clean'] + hexopt,
                                     stderr=subprocess.PIPE, env=common.child_env(), preexec_fn=lambda: os.close(1))
                try:
                    _, se = p.communicate(timeout=60)
                except subprocess.TimeoutExpired:
                    p.kill()
                    se = b'HANG'
                ck.case(key=('os', 'closed', opt, bool(hexopt)), sample={'real_os': '-f x --clean %s with stdout closed' % ' '.join(hexopt), 'exit': p.returncode, 'input_present': os.path.exists(infile)})
                ck.count('real-OS stdout closed')
                if not os.path.exists(infile):
                    ck.fail('input deleted although nothing could be written: stdout was closed',
                            {'op': 'clean-os', 'case': 'stdout-closed' + (' -x' if hexopt else ''), 'optimise': opt, 'exit': p.returncode, 'stderr': se.decode(errors='replace')[-300:]}, 'os_closed')
        # --json --clean over several files: the output of the SECOND file cannot be opened (its name exists as a directory);
        # the first file's success must not carry over
        for order in ('good-first', 'bad-first'):
            two = os.path.join(tmp, 'two_' + order)
            out2 = os.path.join(tmp, 'two_out_' + order)
            os.makedirs(two)
            os.makedirs(out2)
            other = pelbuild.pel([pelbuild.UH(), pelbuild.SRC(), pelbuild.UD(b'second')], eid=0x50000abe)
            names = ('a_first', 'b_second') if order == 'good-first' else ('b_second', 'a_first')
            open(os.path.join(two, names[0]), 'wb').write(good)
            open(os.path.join(two, names[1]), 'wb').write(other)
            blocked = 'b_second'
            beid = '50000abc' if names[0] == blocked else '50000abe'
            for cand in ('%s.0x%s.json' % (blocked, beid.upper()), '%s.%s.json' % (blocked, beid.upper()), '%s.0x%s.json' % (blocked, beid), '%s.%s.json' % (blocked, beid)):
                os.makedirs(os.path.join(out2, cand), exist_ok=True)
            so, se, sx = clirun.run_sub(['-p', two, '-j', '-c', '-o', out2, '-E'])
            ck.case(key=('os', 'two', order), sample={'real_os': '-j -c over two files, the output name of one is a directory', 'left': sorted(os.listdir(two))})
            ck.count('real-OS two files')
            wrote = [f for f in os.listdir(out2) if f.startswith(blocked) and os.path.isfile(os.path.join(out2, f))]
            if not os.path.exists(os.path.join(two, blocked)) and not wrote:
                ck.fail('--json --clean deleted an input whose output file could not be opened', {'op': 'clean-os', 'case': 'two-files ' + order, 'stderr': se[-300:],
                        'inputs_left': sorted(os.listdir(two)), 'outputs': sorted(os.listdir(out2))}, 'os_two')
        ro = os.path.join(tmp, 'in_ro')
        os.makedirs(ro)
        open(os.path.join(ro, 'p1'), 'wb').write(good)
        so, se, sx = clirun.run_sub(['-p', ro, '-j', '-c', '-o', '/proc/self/nonexistent_dir_for_c12'])
        ck.case(key=('os', 'baddir'))
        ck.count('real-OS bad output dir')
        if not os.path.exists(os.path.join(ro, 'p1')):
            ck.fail('input deleted although the output directory does not exist', {'op': 'clean-os', 'case': 'baddir'}, 'os_baddir')
    finally:
        env.uninstall()
        shutil.rmtree(tmp, ignore_errors=True)
    # the -f branch of main(): os.remove(args.file) iff --clean and parseAndPrintPELFile returned True (PelModel/Main.lean: Action.afterPrint)
    mainrun.check_main(ck, tier, 'file')
    # the WHOLE command end to end on real trees vs Pel.runMain (PelModel/Top.lean), and the command-level properties on the real runs
    toprun.check_top(ck, tier, 'fileclean')
    return ck.finish(RULE, TRUSTED, ASSUME)


def replay(path):
    rp = json.load(open(path))
    print(json.dumps(rp, indent=1)[:3000])
    return 0
