"""
Shared machinery of the checks: paths, the Lean driver, the token protocol,
proof build + axiom audit, verdict logic, evidence writing.
"""
import fcntl
import hashlib
import json
import os
import random
import re
import subprocess
import sys
import time
import warnings

warnings.filterwarnings('ignore', category=SyntaxWarning)
sys.dont_write_bytecode = True

VERIF = os.path.dirname(os.path.dirname(os.path.abspath(__file__)))
REPO = os.environ.get('VERIF_REPO', '/repo')
LEAN = os.path.join(VERIF, 'lean')
DRV = os.path.join(LEAN, '.lake', 'build', 'bin', 'peldrv')
PY = os.environ.get('VERIF_PYTHON', '/venv/bin/python')
MODULES = os.path.join(REPO, 'modules')
ALLOWED_AXIOMS = {'propext', 'Classical.choice', 'Quot.sound'}
FORBIDDEN = re.compile(r'\b(sorry|admit|native_decide|bv_decide|implemented_by|unsafe)\b|^\s*axiom\s|maxHeartbeats\s+0\b')

if MODULES not in sys.path:
    sys.path.insert(0, MODULES)
os.environ['PYTHONDONTWRITEBYTECODE'] = '1'


class Hang(BaseException):
    """raised inside the real code by the watchdog: the call did not return within its time limit"""


class deadline:
    """watchdog for in-process calls of the real code (main thread only): `with deadline(5): real_call()` raises Hang
    after 5 s of wall-clock time, so that a non-terminating decode is reported instead of stalling the check"""

    def __init__(self, seconds):
        self.seconds = seconds

    def _fire(self, signum, frame):
        HANGS[0] += 1
        raise Hang('no result after %.0f s' % self.seconds)

    def __enter__(self):
        import signal
        self.old = signal.signal(signal.SIGALRM, self._fire)
        signal.setitimer(signal.ITIMER_REAL, self.seconds)
        return self

    def __exit__(self, *a):
        import signal
        signal.setitimer(signal.ITIMER_REAL, 0)
        signal.signal(signal.SIGALRM, self.old)
        return False


REAL_CALL_LIMIT = float(os.environ.get('VERIF_REAL_CALL_LIMIT', '10'))
HANGS = [0]


def call_limit():
    """the first non-returning call gets the full limit; once one has been seen the limit drops to 1 s (real decodes
    take milliseconds) so that a tree which hangs on many inputs is still reported in minutes"""
    return REAL_CALL_LIMIT if HANGS[0] == 0 else 1.0


def child_env(extra=None):
    env = dict(os.environ)
    env['PYTHONPATH'] = MODULES + (os.pathsep + extra if extra else '')
    env['PYTHONDONTWRITEBYTECODE'] = '1'
    return env


# ----------------------------------------------------------------------------
# token protocol

def tb(b) -> str:
    return 'x' + bytes(b).hex()


def tt(s: str) -> str:
    return 't' + '.'.join(str(ord(c)) for c in s)


def tlist(items, f=str) -> str:
    items = list(items)
    return ' '.join([str(len(items))] + [f(i) for i in items])


class Reply:
    def __init__(self, line: str):
        self.raw = line
        toks = line.split()
        self.status = toks[0] if toks else 'err'
        self.toks = toks[1:]
        self.i = 0

    @property
    def ok(self):
        return self.status == 'ok'

    def _next(self):
        t = self.toks[self.i]
        self.i += 1
        return t

    def num(self) -> int:
        return int(self._next())

    def word(self) -> str:
        return self._next()

    def bytes(self) -> bytes:
        t = self._next()
        assert t[0] == 'x', t
        return bytes.fromhex(t[1:])

    def text(self) -> str:
        t = self._next()
        assert t[0] == 't', t
        return ''.join(chr(int(x)) for x in t[1:].split('.')) if len(t) > 1 else ''

    def lines(self) -> list:
        return [self.text() for _ in range(self.num())]

    def done(self) -> bool:
        return self.i >= len(self.toks)


def lean_batch(requests, timeout=3600):
    """Run the compiled model on a list of request lines; returns a list of Reply."""
    if not requests:
        return []
    data = ('\n'.join(requests) + '\n').encode()
    p = subprocess.run([DRV], input=data, stdout=subprocess.PIPE, stderr=subprocess.PIPE, timeout=timeout)
    if p.returncode != 0:
        raise RuntimeError('peldrv failed: rc=%d %s' % (p.returncode, p.stderr.decode()[-500:]))
    out = p.stdout.decode().split('\n')
    if out and out[-1] == '':
        out.pop()
    if len(out) != len(requests):
        raise RuntimeError('peldrv answered %d lines for %d requests' % (len(out), len(requests)))
    return [Reply(l) for l in out]


# ----------------------------------------------------------------------------
# Lean build, pins, audit

class Lock:
    def __init__(self, name='build'):
        self.path = os.path.join(LEAN, '.%s.lock' % name)

    def __enter__(self):
        self.f = open(self.path, 'w')
        fcntl.flock(self.f, fcntl.LOCK_EX)
        return self

    def __exit__(self, *a):
        fcntl.flock(self.f, fcntl.LOCK_UN)
        self.f.close()


def run(cmd, cwd=None, timeout=3600, env=None):
    p = subprocess.run(cmd, cwd=cwd, stdout=subprocess.PIPE, stderr=subprocess.STDOUT, timeout=timeout, env=env)
    return p.returncode, p.stdout.decode(errors='replace')


def run2(cmd, cwd=None, timeout=3600, env=None, stdin=None):
    """like run() but stdout and stderr separately (text)"""
    p = subprocess.run(cmd, cwd=cwd, stdout=subprocess.PIPE, stderr=subprocess.PIPE, timeout=timeout, env=env, input=stdin)
    return p.returncode, p.stdout.decode(errors='replace'), p.stderr.decode(errors='replace')


def strip_comments(src: str) -> str:
    # nested block comments are rare in our sources; remove /- ... -/ and -- ...
    src = re.sub(r'/-.*?-/', '', src, flags=re.S)
    return re.sub(r'--.*', '', src)


def grep_forbidden():
    """Scan every .lean source of the project (comments removed) for sorry/axiom/native_decide…"""
    hits = []
    for root, dirs, files in os.walk(LEAN):
        if '.lake' in root:
            continue
        for f in files:
            if f.endswith('.lean'):
                p = os.path.join(root, f)
                for n, line in enumerate(strip_comments(open(p).read()).split('\n'), 1):
                    if FORBIDDEN.search(line):
                        hits.append('%s: %s' % (os.path.relpath(p, LEAN), line.strip()))
    return hits


def theorem_names(prop: str):
    """Names of the theorems stated in PelProps/<prop>.lean (fully qualified)."""
    p = os.path.join(LEAN, 'PelProps', prop + '.lean')
    src = strip_comments(open(p).read())
    ns = []
    names = []
    for line in src.split('\n'):
        m = re.match(r'\s*namespace\s+(\S+)', line)
        if m:
            ns.append(m.group(1))
            continue
        m = re.match(r'\s*end\s+(\S+)', line)
        if m and ns and ns[-1] == m.group(1):
            ns.pop()
            continue
        m = re.match(r'\s*(?:@\[[^\]]*\]\s*)?(?:private\s+|protected\s+)?theorem\s+(\S+)', line)
        if m:
            names.append('.'.join(ns + [m.group(1)]))
    return names


def regenerate_live():
    """Translator for constants/tables: live modules of /repo -> PelGen/Live.lean."""
    rc, out = run([PY, os.path.join(VERIF, 'harness', 'extract.py')], env=child_env())
    return rc == 0, out


def build_and_audit(prop: str, thorough=False):
    """
    Regenerates the pins from /repo, builds model + proofs of `prop` + driver, audits axioms.
    Returns dict(ok, driver_ok, obligations, discharged, theorems, failures, log).
    """
    res = {'ok': False, 'driver_ok': False, 'obligations': 0, 'discharged': 0, 'theorems': {},
           'failures': [], 'log': '', 'pins_unavailable': []}
    with Lock():
        ok, out = regenerate_live()
        if not ok:
            res['failures'].append('extract.py failed: ' + out[-400:])
        else:
            res['pins_unavailable'] = [l.split(' ', 1)[1] for l in out.split('\n') if l.startswith('PIN-UNAVAILABLE ')]
            res['translations_unavailable'] = [l.split(' ', 1)[1] for l in out.split('\n') if l.startswith('TRANSLATION-UNAVAILABLE ')]
        rc, out = run(['lake', 'build', 'peldrv'], cwd=LEAN)
        res['driver_ok'] = rc == 0 and os.path.exists(DRV)
        if not res['driver_ok']:
            res['failures'].append('driver build failed')
            res['log'] += out[-3000:]
        rc, out = run(['lake', 'build', 'PelProps.' + prop], cwd=LEAN)
        res['log'] += out[-6000:] if rc != 0 else ''
        names = theorem_names(prop)
        res['obligations'] = len(names)
        if rc != 0:
            res['failures'].append('lake build PelProps.%s failed' % prop)
            m = re.findall(r'error: (\S+\.lean:\d+:\d+: .*)', out)
            res['failures'].extend(m[:10])
            return res
        # source tie: PelProps/Tie<prop>.lean proves the hand-written model equal to the definitions that harness/trans_*.py
        # regenerated from the current source text (PelGen/Gen*.lean); it is a separate module so that a broken tie does not
        # take the property theorems down with it
        audit_mods = [prop]
        tie = 'Tie' + prop
        if os.path.exists(os.path.join(LEAN, 'PelProps', tie + '.lean')):
            tnames = theorem_names(tie)
            res['obligations'] += len(tnames)
            rc, out = run(['lake', 'build', 'PelProps.' + tie], cwd=LEAN)
            if rc != 0:
                res['log'] += out[-6000:]
                res['failures'].append('source tie broken: lake build PelProps.%s failed (a function regenerated from the source text is no longer provably equal to the model)' % tie)
                m = re.findall(r'error: (\S+\.lean:\d+:\d+: .*)', out)
                res['failures'].extend(m[:10])
            else:
                names = names + tnames
                audit_mods.append(tie)
        hits = grep_forbidden()
        if hits:
            res['failures'].append('forbidden constructs: ' + '; '.join(hits[:5]))
        audit = os.path.join(LEAN, '.lake', 'audit_%s.lean' % prop)
        with open(audit, 'w') as f:
            for am in audit_mods:
                f.write('import PelProps.%s\n' % am)
            for n in names:
                f.write('#print axioms %s\n' % n)
        rc, out = run(['lake', 'env', 'lean', audit], cwd=LEAN)
        if rc != 0:
            res['failures'].append('axiom audit failed: ' + out[-400:])
        # parse "'<name>' depends on axioms: [a, b]" / "does not depend on any axioms"
        flat = out.replace('\n', ' ')
        for n in names:
            m = re.search(r"'%s' depends on axioms: \[([^\]]*)\]" % re.escape(n), flat)
            if m:
                ax = [a.strip() for a in m.group(1).split(',') if a.strip()]
            elif re.search(r"'%s' does not depend on any axioms" % re.escape(n), flat):
                ax = []
            else:
                res['failures'].append('no axiom report for ' + n)
                continue
            res['theorems'][n] = ax
            if set(ax) <= ALLOWED_AXIOMS:
                res['discharged'] += 1
            else:
                res['failures'].append('theorem %s uses axioms %s' % (n, ax))
        if thorough:
            rc, out = run(['lake', 'env', 'leanchecker'] + ['PelProps.' + am for am in audit_mods], cwd=LEAN, timeout=3000)
            res['leanchecker'] = 'ok' if rc == 0 else 'failed: ' + out[-300:]
            if rc != 0:
                res['failures'].append('leanchecker failed on PelProps.' + prop)
        res['ok'] = not res['failures'] and res['discharged'] == res['obligations'] and res['obligations'] > 0
    return res


# ----------------------------------------------------------------------------
# verdict + evidence

# set by `./check Cxx --replay <file>`: the recorded violation that is being re-executed against the current tree
REPLAY_OF = None
# members of a replay record that describe the INPUT of a case (as opposed to what the code answered)
INPUT_KEYS = ('op', 'data_hex', 'argv', 'files', 'junk', 'entries', 'table', 'tail_hex', 'doc_json', 'desired', 'text', 'cfg', 'action_flags',
              'severity', 'section', 'creator', 'plugins', 'history', 'pel', 'bytes_per_line', 'bytes_per_chunk', 'input_kind', 'optimise', 'procedure',
              'decode', 'fault_step', 'errno', 'drawer', 'format', 'padded', 'fields', 'strings', 'top_level', 'case', 'mode', 'args', 'order')


def input_identity(rp: dict):
    rp = dict(rp)
    if rp.get('kind') not in (None, 'failing-input', 'no-failing-input-found'):
        rp['input_kind'] = rp['kind']      # a harness's own "kind of input" member (the record's `kind` is the record type)
    return tuple((k, json.dumps(rp[k], sort_keys=True, default=repr)) for k in INPUT_KEYS if k in rp)


def load_known():
    p = os.path.join(VERIF, 'known_findings.json')
    if os.path.exists(p):
        return json.load(open(p))
    return {'fixed': [], 'known': []}


class Check:
    """
    One run of one property's check.  Usage:
        ck = Check('C13', tier, seed); ... ck.case(nontrivial_key) ... ck.fail(...) / ck.disagree(...)
        ck.finish()
    """

    def __init__(self, prop, tier, seed):
        self.prop = prop
        self.tier = tier
        self.seed = seed
        self.rng = random.Random(seed)
        self.t0 = time.time()
        self.evaluations = 0
        self.nontrivial = set()
        self.samples = []
        self.dist = {}
        self.failures = []        # real code violates the property on a concrete input
        self.disagreements = []   # model and implementation differ (property not contradicted on that input)
        self.skipped = {}
        self.proof = None
        self.notes = []
        self.impl_calls = {}

    # -- bookkeeping
    def count(self, key, n=1):
        self.dist[key] = self.dist.get(key, 0) + n

    def case(self, key=None, sample=None):
        """register one evaluated case; `key` = canonical id if it is non-trivial by the property's rule"""
        self.evaluations += 1
        if key is not None:
            self.nontrivial.add(hashlib.sha1(repr(key).encode()).hexdigest()[:16])
        if sample is not None and len(self.samples) < 6:
            self.samples.append(sample)

    def skip(self, why):
        self.skipped[why] = self.skipped.get(why, 0) + 1

    def fail(self, what, replay: dict, match_key=None):
        """the REAL code breaks the property on this input"""
        self.failures.append({'what': what, 'replay': replay, 'match_key': match_key or what})

    def disagree(self, what, replay: dict):
        self.disagreements.append({'what': what, 'replay': replay})

    # -- finish
    def write_replay(self, kind, body):
        os.makedirs(os.path.join(VERIF, 'replays'), exist_ok=True)
        n = 0
        while True:
            p = os.path.join(VERIF, 'replays', '%s-%s-%d.json' % (self.prop, self.tier, n))
            if not os.path.exists(p):
                break
            n += 1
        body = dict(body)
        if 'kind' in body:
            body['input_kind'] = body['kind']
        body.update({'property': self.prop, 'kind': kind, 'seed': self.seed, 'tier': self.tier,
                     'replay_cmd': './check %s --replay %s' % (self.prop, os.path.relpath(p, VERIF))})
        with open(p, 'w') as f:
            json.dump(body, f, indent=1, default=repr)
        return os.path.relpath(p, VERIF)

    def finish_replay(self):
        """`./check Cxx --replay F`: the whole check was re-executed with the recorded seed and tier against the CURRENT tree
        (same generators, hence the same inputs); say whether the recorded violation is still there.  Writes nothing."""
        rp = REPLAY_OF
        proof_ok = bool(self.proof and self.proof['ok'])
        if rp.get('kind') == 'no-failing-input-found':
            still = (not proof_ok) or bool(self.disagreements)
            print('recorded: proof obligation / correspondence no longer checks (%s)' % '; '.join(map(str, rp.get('theorem_or_correspondence', [])))[:600])
            print('now: proofs %s, %d correspondence disagreements, %d property failures on the real code'
                  % ('check' if proof_ok else 'DO NOT check: ' + '; '.join((self.proof or {}).get('failures', []))[:300], len(self.disagreements), len(self.failures)))
            print('REPRODUCED' if (still or self.failures) else 'NOT REPRODUCED: proofs and correspondence check again on the current tree')
            return 1 if (still or self.failures) else 0
        ident = input_identity(rp)
        same_input = [f for f in self.failures if input_identity(f['replay']) == ident]
        same_kind = [f for f in self.failures if f['what'] == rp.get('what')]
        print('recorded: %s' % rp.get('what'))
        print('now: %d property failures on the real code in the re-run (%d of the same kind, %d on exactly the recorded input), %d disagreements'
              % (len(self.failures), len(same_kind), len(same_input), len(self.disagreements)))
        if same_input:
            print('REPRODUCED: the real code still breaks the property on the recorded input: ' + same_input[0]['what'])
            return 1
        if self.failures:
            print('REPRODUCED (other input): the recorded input passes, but the re-run found %d other failing inputs, e.g. %s' % (len(self.failures), self.failures[0]['what']))
            return 1
        print('NOT REPRODUCED: the property holds on the recorded input (and on every other input of the re-run) now')
        return 0

    def finish(self, rule, trusted_base, assumptions, exhaustive=False, extra=None):
        if REPLAY_OF is not None:
            return self.finish_replay()
        if self.evaluations == 0 and self.proof and self.proof.get('driver_ok'):
            # a check that compared nothing must not pass (a harness mistake, e.g. an early return): no verdict
            print('INFRASTRUCTURE ERROR in check %s: the driver was built but no case was evaluated (exit 2, not a verdict)' % self.prop)
            sys.exit(2)
        known = load_known().get('known', [])
        violations = 0
        lines = []
        reported_known = set()
        # smallest failing inputs first (poor man's shrinking across the generated cases)
        self.failures.sort(key=lambda f: len(json.dumps(f['replay'], default=repr)))
        for fl in self.failures:
            k = None
            for kf in known:
                if kf.get('property') == self.prop and kf.get('match') == fl['match_key']:
                    k = kf
                    break
            if k is not None:
                if k['id'] not in reported_known:
                    lines.append('KNOWN-FINDING: property=%s %s' % (self.prop, k['what']))
                    reported_known.add(k['id'])
            else:
                violations += 1
                if violations <= 3:
                    p = self.write_replay('failing-input', fl['replay'] | {'what': fl['what']})
                    lines.append('VIOLATION property=%s replay=%s' % (self.prop, p))
        proof_ok = bool(self.proof and self.proof['ok'])
        if violations == 0 and (not proof_ok or self.disagreements):
            # proof or correspondence no longer checks and no failing input was found
            body = {'theorem_or_correspondence': [], 'note':
                    'the property is no longer shown to hold: a proof obligation/pin or the model-vs-code '
                    'correspondence broke; the failing-input search over corpus and generators found no '
                    'input on which the real code contradicts the property'}
            if not proof_ok:
                body['theorem_or_correspondence'] += (self.proof or {}).get('failures', ['proof build not run'])
                body['lean_log'] = (self.proof or {}).get('log', '')[-3000:]
            for d in self.disagreements[:5]:
                body['theorem_or_correspondence'].append('correspondence: ' + d['what'])
            body['disagreements'] = self.disagreements[:5]
            p = self.write_replay('no-failing-input-found', body)
            lines.append('VIOLATION property=%s replay=%s no-failing-input-found' % (self.prop, p))
            violations += 1
        cov = {
            'obligations': (self.proof or {}).get('obligations', 0),
            'discharged': (self.proof or {}).get('discharged', 0),
            'checker_cmd': 'cd lean && lake build PelProps.%s && lake env lean .lake/audit_%s.lean  # #print axioms of every theorem'
                           % (self.prop, self.prop) + (' && lake env leanchecker PelProps.%s' % self.prop if self.tier == 'thorough' else ''),
            'trusted_base': trusted_base,
            'theorems': (self.proof or {}).get('theorems', {}),
            'proof_failures': (self.proof or {}).get('failures', []),
            'pins_unavailable': (self.proof or {}).get('pins_unavailable', []),
            'translations_unavailable': (self.proof or {}).get('translations_unavailable', []),
            'evaluations': self.evaluations,
            'distinct_nontrivial': len(self.nontrivial),
            'rule': rule,
            'samples': self.samples,
            'distribution': self.dist,
            'skipped': self.skipped,
            'impl_calls': self.impl_calls,
            'disagreements_checked': len(self.disagreements),
            'property_failures_on_real_code': len(self.failures),
            'exhaustive': exhaustive,
            'notes': self.notes,
        }
        if self.proof and 'leanchecker' in self.proof:
            cov['leanchecker'] = self.proof['leanchecker']
        if extra:
            cov.update(extra)
        ev = {'property_id': self.prop, 'tier': self.tier, 'seed': self.seed, 'level': 'proof',
              'coverage': cov, 'assumptions': assumptions, 'wall_s': round(time.time() - self.t0, 2),
              'violations': violations}
        os.makedirs(os.path.join(VERIF, 'evidence'), exist_ok=True)
        with open(os.path.join(VERIF, 'evidence', self.prop + '.json'), 'w') as f:
            json.dump(ev, f, indent=1, default=repr)
        for l in lines:
            print(l)
        print('%s %s tier=%s seed=%d: %d cases (%d distinct non-trivial), %d/%d obligations, %d disagreements, %d violations, %.1fs'
              % ('FAIL' if violations else 'PASS', self.prop, self.tier, self.seed, self.evaluations, len(self.nontrivial),
                 cov['discharged'], cov['obligations'], len(self.disagreements), violations, time.time() - self.t0))
        return 1 if violations else 0


def run_on_pty(cmd, env=None, timeout=60, cols=80):
    """run `cmd` with its stdout attached to a pseudo-terminal of `cols` columns (stderr to a pipe): (what appeared on the terminal with the
    terminal's CR LF line ends turned back into LF, exit status)"""
    import fcntl
    import pty
    import select
    import struct as _struct
    import termios
    master, slave = pty.openpty()
    fcntl.ioctl(slave, termios.TIOCSWINSZ, _struct.pack('HHHH', 24, cols, 0, 0))
    p = subprocess.Popen(cmd, stdout=slave, stderr=subprocess.PIPE, stdin=subprocess.DEVNULL, env=env, close_fds=True)
    os.close(slave)
    chunks = []
    t0 = time.time()
    while True:
        if time.time() - t0 > timeout:
            p.kill()
            break
        r, _, _ = select.select([master], [], [], 0.2)
        if r:
            try:
                data = os.read(master, 65536)
            except OSError:
                break
            if not data:
                break
            chunks.append(data)
        elif p.poll() is not None:
            break
    try:
        p.wait(timeout=5)
    except Exception:  # noqa
        p.kill()
    os.close(master)
    try:
        p.stderr.close()
    except Exception:  # noqa
        pass
    return b''.join(chunks).decode(errors='replace').replace('\r\n', '\n'), p.returncode
