import argparse
import importlib
import os
import sys
import traceback

sys.dont_write_bytecode = True
sys.path.insert(0, os.path.dirname(os.path.abspath(__file__)))


def main():
    ap = argparse.ArgumentParser()
    ap.add_argument('prop')
    ap.add_argument('--tier', default=os.environ.get('VERIF_TIER', 'quick'), choices=['quick', 'thorough'])
    ap.add_argument('--replay')
    args = ap.parse_args()
    seed = int(os.environ.get('VERIF_SEED', '1'))
    prop = args.prop.upper()
    try:
        mod = importlib.import_module(prop.lower())
    except ModuleNotFoundError:
        print('no check for', prop)
        sys.exit(2)
    # overall wall-clock limit of one check run (infrastructure guard, exit 2 = no verdict); every in-process call of the
    # real code additionally runs under common.deadline, so a hang of the code under test is reported as a finding
    limit = float(os.environ.get('VERIF_CHECK_LIMIT', '2400' if args.tier == 'quick' else '14400'))

    def guard():
        import time
        time.sleep(limit)
        sys.stdout.flush()
        print('INFRASTRUCTURE ERROR in check %s: wall-clock limit of %.0f s exceeded (exit 2, not a verdict)' % (prop, limit), flush=True)
        os._exit(2)
    import threading
    threading.Thread(target=guard, daemon=True).start()
    try:
        if args.replay:
            sys.exit(mod.replay(args.replay))
        sys.exit(mod.run(args.tier, seed))
    except SystemExit:
        raise
    except BaseException:
        traceback.print_exc()
        print('INFRASTRUCTURE ERROR in check %s (exit 2, not a verdict)' % prop)
        sys.exit(2)


main()
