import argparse
import importlib
import os
import sys
import traceback

sys.dont_write_bytecode = True
sys.path.insert(0, os.path.dirname(os.path.abspath(__file__)))


def private_tmp():
    """every scratch file of this run lives under one directory that is removed when the run ends (also on exit 2);
    directories left behind by runs that were killed are removed when their process is gone"""
    import atexit
    import shutil
    import tempfile
    base = tempfile.gettempdir()
    for n in os.listdir(base):
        if n.startswith('pelverif_'):
            try:
                pid = int(n.split('_')[1])
                os.kill(pid, 0)
            except (ValueError, IndexError, PermissionError):
                continue
            except ProcessLookupError:
                shutil.rmtree(os.path.join(base, n), ignore_errors=True)
    root = tempfile.mkdtemp(prefix='pelverif_%d_' % os.getpid())
    tempfile.tempdir = root
    os.environ['TMPDIR'] = root
    atexit.register(shutil.rmtree, root, True)
    return root


def main():
    import time
    os.environ['TZ'] = 'VRF-05:45'      # a zone 5 h 45 min east of UTC, for this process and every interpreter it starts
    time.tzset()
    tmproot = private_tmp()
    ap = argparse.ArgumentParser()
    ap.add_argument('prop')
    ap.add_argument('--tier', default=os.environ.get('VERIF_TIER', 'quick'), choices=['quick', 'thorough'])
    ap.add_argument('--replay')
    args = ap.parse_args()
    seed = int(os.environ.get('VERIF_SEED', '1'))
    prop = args.prop.upper()
    try:
        mod = importlib.import_module(prop.lower())
    except ModuleNotFoundError:
        print('no check for', prop)
        sys.exit(2)
    # overall wall-clock limit of one check run (infrastructure guard, exit 2 = no verdict); every in-process call of the
    # real code additionally runs under common.deadline, so a hang of the code under test is reported as a finding
    limit = float(os.environ.get('VERIF_CHECK_LIMIT', '2400' if args.tier == 'quick' else '14400'))

    def guard():
        import time
        time.sleep(limit)
        sys.stdout.flush()
        print('INFRASTRUCTURE ERROR in check %s: wall-clock limit of %.0f s exceeded (exit 2, not a verdict)' % (prop, limit), flush=True)
        import shutil
        shutil.rmtree(tmproot, ignore_errors=True)
        os._exit(2)
    import threading
    threading.Thread(target=guard, daemon=True).start()
    try:
        if args.replay:
            # 1. show the record (and whatever case-specific re-evaluation the property's module offers);
            # 2. re-execute the check with the recorded seed and tier against the current tree and report whether the
            #    recorded violation is still there (exit 1) or not (exit 0); nothing is written
            import json
            import common
            rp = json.load(open(args.replay))
            try:
                mod.replay(args.replay)
            except Exception as e:  # noqa
                print('(case-specific replay helper failed: %r)' % e)
            common.REPLAY_OF = rp
            print('--- re-executing %s tier=%s seed=%s against the current tree' % (prop, rp.get('tier', 'quick'), rp.get('seed', 1)))
            sys.exit(mod.run(rp.get('tier', 'quick'), int(rp.get('seed', 1))))
        sys.exit(mod.run(args.tier, seed))
    except SystemExit:
        raise
    except BaseException:
        traceback.print_exc()
        print('INFRASTRUCTURE ERROR in check %s (exit 2, not a verdict)' % prop)
        sys.exit(2)


main()
