"""Byte-level builder for PELs (layouts verified against the real decoder)."""
import struct


def bcd(n):
    return ((n // 10) << 4) | (n % 10)


def ts(y=2024, mo=3, d=8, h=18, mi=40, s=27, hh=0):
    return bytes([bcd(y // 100), bcd(y % 100), bcd(mo), bcd(d), bcd(h), bcd(mi), bcd(s), bcd(hh)])


def hdr(sid, length, ver=1, sub=0, comp=0x2000):
    sid = sid.encode('latin1') if isinstance(sid, str) else sid
    return sid + struct.pack('>HBBH', length, ver, sub, comp)


def PH(count, creator=b'O', obmc=1, cver=0, plid=0x50000001, eid=0x50000001, create=None, commit=None,
       ver=1, sub=0, comp=0x2000):
    return hdr('PH', 48, ver, sub, comp) + (create or ts()) + (commit or ts()) + creator + b'\0\0' + bytes([count]) + \
        struct.pack('>IQII', obmc, cver, plid, eid)


def UH(subsys=0x8D, scope=3, sev=0x40, etype=0, af=0xA000, states=0, pd=0, pv=0, ver=1, sub=0, comp=0x2000):
    return hdr('UH', 24, ver, sub, comp) + struct.pack('>BBBBIBBHI', subsys, scope, sev, etype, 0, pd, pv, af, states)


def UD(payload, sub=3, ver=1, comp=0x2000, sid='UD'):
    return hdr(sid, 8 + len(payload), ver, sub, comp) + payload


def ED(payload, creator=b'O', sub=3, ver=1, comp=0x2000):
    return hdr('ED', 12 + len(payload), ver, sub, comp) + creator + b'\0\0\0' + payload


def fru(flags=0x28, pn=b'PN12345\0', ccin=b'CCIN', sn=b'SN1234567890'):
    b = b''
    if flags & 0x0A:
        b += pn
    if flags & 0x04:
        b += ccin
    if flags & 0x01:
        b += sn
    return b'ID' + bytes([4 + len(b), flags]) + b


def pce(mtm=b'9105-22A', sn=b'SN0000000001', name=b'pce1'):
    return b'PE' + bytes([24 + len(name), 0]) + mtm + sn + name


def mru(items=((0x48, 0x11223344),)):
    return b'MR' + bytes([8 + 8 * len(items), len(items) & 0xF]) + b'\0\0\0\0' + b''.join(struct.pack('>II', p, i) for p, i in items)


def callout(flags=0x3E, prio=ord('H'), loc=b'U78DA.ND1', subs=b''):
    size = 4 + len(loc) + len(subs)
    return bytes([size, flags, prio, len(loc)]) + loc + subs


def SRC(sid='PS', flags=0, wc=9, words=None, asc=b'BD8D1234', callouts=None, ver=1, sub=0, comp=0x2000, srcver=2):
    words = words or [0x02000055, 0, 0, 0, 0, 0, 0, 0]
    asc = asc.ljust(32, b' ')
    has = callouts is not None
    cl = callouts or b''
    body = bytes([srcver, (flags & 0xFE) | (1 if has else 0), 0, wc, 0, 0]) + struct.pack('>H', 72 + (len(cl) + 4 if has else 0)) + \
        b''.join(struct.pack('>I', w) for w in words) + asc
    if has:
        body += bytes([0xC0, 0]) + struct.pack('>H', (len(cl) + 4) // 4) + cl
    return hdr(sid, 8 + len(body), ver, sub, comp) + body


def EH(mtm=b'9105-22A', sn=b'SN12345\0\0\0\0\0', fw=b'FW1060.00', subfw=b'sub-1.0', sym=b'BD8D1234_00000000', ver=1, sub=0, comp=0x2000):
    sym = sym + b'\0' * ((-len(sym)) % 4) if sym else b''
    return hdr('EH', 8 + 60 + len(sym), ver, sub, comp) + mtm.ljust(8, b'\0') + sn.ljust(12, b'\0') + fw.ljust(16, b'\0') + \
        subfw.ljust(16, b'\0') + b'\0' * 4 + ts() + b'\0\0\0' + bytes([len(sym)]) + sym


def MT(mtm=b'9105-22A', sn=b'SN12345', ver=1, sub=0, comp=0x2000):
    return hdr('MT', 28, ver, sub, comp) + mtm.ljust(8, b'\0') + sn.ljust(12, b'\0')


def LP(primary=7, name=b'lpar', targets=(1, 2, 3), logid=9, ver=1, sub=0, comp=0x2000):
    body = struct.pack('>HBBI', primary, len(name), len(targets), logid) + name + b''.join(struct.pack('>H', t) for t in targets)
    if len(targets) % 2:
        body += b'\0\0'
    return hdr('LP', 8 + len(body), ver, sub, comp) + body


def pel(sections, **ph):
    return PH(len(sections) + 1, **ph) + b''.join(sections)
