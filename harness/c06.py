"""C06 — the printed JSON parses back to exactly the decoded document."""
import json
import os

import common
import jsonio
from common import Check, lean_batch, tt

TRUSTED = ['Lean 4.33.0 kernel (+ leanchecker in the thorough tier)',
           'axioms: propext, Classical.choice, Quot.sound only (audited per theorem)',
           'harness/c06.py + jsonio.py (generators, comparison), Drv.lean protocol parsing',
           'compiled driver peldrv agrees with the kernel reading of the same definitions']
ASSUME = ['CPython json.dumps(indent=4, ensure_ascii=True) and json.loads are modelled (dumps / loads), validated character for '
          'character on every generated document; floats, NaN and Infinity are outside the model and excluded from generation',
          'str.split / str.join / str.index are modelled']
RULE = ('end-to-end: PELs with nasty built-in JSON / text user data through -f, -a and -j (fresh output directory and over stale files of the same name); ' +
        'cases = random JSON documents (depth <= 6) over an adversarial alphabet (quote, colon, braces, brackets, backslash, comma, '
        'space, newline, non-ASCII, astral, DEL, NUL), keys up to 60 chars so that both ind < desired and ind >= desired occur, '
        'desiredSpace in {29, 34}; plus raw text lines for the aligner and raw texts for loads; non-trivial = contains at least one '
        'object key; distinct by document')
ALPHA = ['"', ':', '{', '}', '[', ']', '\\', ',', ' ', '\n', 'é', '😀', '\x7f', '\0', 'a', 'B', '0', '/', '\t', ' ', "'", '\ud800']


def gen_str(rng, maxlen=12):
    n = rng.choice([0, 1, 2, 3, maxlen, rng.randrange(0, maxlen + 1)])
    if rng.random() < 0.2:
        return rng.choice(['":', 'x": y', 'world "x": y', '\\', '\\"', '":{', 'a\\":b', '": ', '"', '{', 'k":[1', '\\u0041', 'Section Version'])
    return ''.join(rng.choice(ALPHA) for _ in range(n))


def gen_doc(rng, depth):
    r = rng.random()
    if depth <= 0 or r < 0.35:
        k = rng.randrange(6)
        if k == 0:
            return rng.choice([0, 1, -1, 10, 2 ** 64, -2 ** 63, rng.randrange(-1000, 1000)])
        if k == 1:
            return rng.choice([None, True, False])
        return gen_str(rng)
    if r < 0.65:
        return [gen_doc(rng, depth - 1) for _ in range(rng.choice([0, 1, 2, 3, 5]))]
    d = {}
    for _ in range(rng.choice([0, 1, 2, 3, 6])):
        key = gen_str(rng, rng.choice([3, 12, 30, 60]))
        d[key] = gen_doc(rng, depth - 1)
    return d


def has_key(v):
    if isinstance(v, dict):
        return bool(v) or any(has_key(x) for x in v.values())
    if isinstance(v, list):
        return any(has_key(x) for x in v)
    return False


def run(tier, seed):
    ck = Check('C06', tier, seed)
    ck.proof = common.build_and_audit('C06', thorough=(tier == 'thorough'))
    if not ck.proof['driver_ok']:
        return ck.finish(RULE, TRUSTED, ASSUME)
    from pel.peltool import peltool
    rng = ck.rng
    thorough = tier == 'thorough'
    docs = [{"A": ["world \"x\": y"]}, {"a\":b": 1, "k\\": 2}, {"Section Version": 1, "x": {"y": [1, "a"]}}, [], {}, "", {"": {"": []}},
            {"k" * 40: "v", "{": 1, "a": "{"}, [[[[["deep"]]]]], {"a": {"b": {"c": {"d": {"e": 1}}}}}]
    for _ in range(6000 if thorough else 1200):
        docs.append(gen_doc(rng, rng.randrange(1, 7)))
    reqs = []
    for d in docs:
        desired = rng.choice([29, 34])
        reqs.append((d, desired))
    replies = lean_batch(['dumps ' + jsonio.enc_j(d) for d, _ in reqs] + ['ppdoc %d %s' % (ds, jsonio.enc_j(d)) for d, ds in reqs])
    n = len(reqs)
    outs = []
    for i, (d, desired) in enumerate(reqs):
        real_dumps = json.dumps(d, indent=4)
        real_pp = peltool.prettyPrint(real_dumps, desired) if desired != 34 or rng.random() < 0.5 else peltool.prettyPrint(real_dumps)
        m_dumps = replies[i].text()
        m_pp = replies[n + i].text()
        ck.case(key=repr(d) if has_key(d) else None, sample={'doc': repr(d)[:120], 'desired': desired})
        ck.count('top=%s' % type(d).__name__)
        rp = {'op': 'prettyPrint', 'doc_json': json.dumps(d), 'desired': desired}
        # property on the real code: the printed text parses back to the document
        try:
            back = json.loads(real_pp)
            ok = back == d
        except Exception as e:  # noqa
            back, ok = repr(e), False
        if not ok:
            ck.fail('printed text does not parse back to the decoded document', rp | {'printed': real_pp[:400], 'parsed_back': repr(back)[:200]}, 'roundtrip')
        if real_dumps != m_dumps:
            ck.disagree('json.dumps differs from the model', rp | {'impl': real_dumps[:200], 'model': m_dumps[:200]})
        if real_pp != m_pp:
            ck.disagree('prettyPrint differs from the model', rp | {'impl': real_pp[:300], 'model': m_pp[:300]})
        outs.append(real_pp)
    # raw lines for the aligner (correspondence only) and texts for loads
    texts = []
    for _ in range(3000 if thorough else 600):
        ln = ' ' * rng.choice([0, 4, 8, 12, 40]) + ''.join(rng.choice(ALPHA[:-1] + ['"', '"', ':', 'k']) for _ in range(rng.randrange(0, 30)))
        if rng.random() < 0.3:
            ln += '\n' + ln[::-1]
        texts.append(ln)
    rp2 = lean_batch(['pp %d %s' % (34 if i % 2 else 29, tt(t)) for i, t in enumerate(texts)])
    for i, (t, r) in enumerate(zip(texts, rp2)):
        real = peltool.prettyPrint(t, 34 if i % 2 else 29)
        ck.case(key=None)
        ck.count('raw line')
        mtxt = r.text()
        if real != mtxt:
            ck.disagree('prettyPrint differs from the model on raw text', {'op': 'pp', 'text': t, 'impl': real, 'model': mtxt})
    # loads: on the printed texts and on mutated texts
    ltexts = list(outs[:400 if not thorough else 2000])
    for o in outs[:300 if not thorough else 1500]:
        if o and rng.random() < 0.8:
            o = list(o)
            for _ in range(rng.randrange(1, 3)):
                k = rng.randrange(len(o))
                o[k] = rng.choice(['"', ',', ':', '', ' ', '\\', '0', '-', 'x', '{', ']', '\n', '1.5', 'e', '\x01'])
            ltexts.append(''.join(o))
    ltexts += ['', ' ', '01', '-', '-0', '1.0', '1e3', 'NaN', '[1,]', '{"a":1,}', '"\\ud800"', '"\\ud83d\\ude00"', '"\\ud83d\\u0041"', 'nul', 'true false',
               '{"a":1,"a":2,"b":3,"a":4}', '"\x01"', '"\\x41"', '"\\u00g1"', '[1 2]', '{"a" 1}', '{1:2}', '  [ ] ', '{ }', '"abc', '1 ', '\t\n1\r', '\x0b1']
    rp3 = lean_batch(['loads ' + tt(t) for t in ltexts])
    for t, r in zip(ltexts, rp3):
        try:
            real = ('ok', jsonio.canon(json.loads(t)))
        except json.JSONDecodeError:
            real = ('bad', None)
        except RecursionError:
            real = ('rec', None)
        ck.case(key=None)
        ck.count('loads %s' % real[0])
        if r.status == 'unsupported':
            ck.skip('float in loads input')
            continue
        m = ('ok', jsonio.canon(jsonio.dec_j(r, pairs=True))) if r.status == 'ok' else ('bad', None)
        if real[0] == 'ok' and contains_float(real[1]):
            ck.skip('float in loads result')
            continue
        if m != real:
            ck.disagree('json.loads differs from the model', {'op': 'loads', 'text': t, 'impl': repr(real)[:200], 'model': repr(m)[:200]})
    end_to_end(ck, rng, thorough)
    return ck.finish(RULE, TRUSTED, ASSUME)


def end_to_end(ck, rng, thorough):
    """what the TOOL prints (-f, -a) or writes (-j, also over older, longer files of the same name) parses back to the document
    the decoder produced for that PEL"""
    import os
    import shutil
    import tempfile
    import apel
    import clirun
    import pelbuild
    nasty = ['\u2028', '\u2029', '\x85', '\x1c', '\r', '\x0b', '\x0c', '":', '\\', '"', ':', '{', 'é', '😀', '\x7f', 'x": y', '\t', '\\"', '  ']
    # user-data parser modules of creator x: one fine, one whose call raises, one that returns nothing (error notes must not reach stdout)
    env = apel.PluginEnv(allow=True, ud={'x1111': ('echo',), 'x2222': ('raises', 'boom "quoted": {x}'), 'x3333': ('none',)}, src={'xsrc': ('raises',)}, callout={'x': ('raises',)}).install()
    tmp = tempfile.mkdtemp(prefix='c06_')
    try:
        # ---- the document in memory against the text made from it: whatever parsePEL hands to json.dumps must be what the text parses back to,
        # member for member -- keys that are not strings, tuples, or two keys that print alike are NOT "the decoded document printed".  Inputs: user
        # data that is a Python literal but not JSON (what repr() of a dictionary looks like), next to ordinary JSON / text / binary user data.
        def exact_(o):
            if isinstance(o, dict):
                return ['obj'] + [[k if isinstance(k, str) else ['not-a-string-key', repr(k)], exact_(v)] for k, v in o.items()]
            if isinstance(o, list):
                return ['arr'] + [exact_(v) for v in o]
            if isinstance(o, (str, int, bool)) or o is None:
                return o
            return ['not-a-json-value', type(o).__name__, repr(o)[:40]]
        def parsed_(text):
            def conv(o):
                if isinstance(o, _Pairs):
                    return ['obj'] + [[k, conv(v)] for k, v in o]
                if isinstance(o, list):
                    return ['arr'] + [conv(v) for v in o]
                return o
            return conv(json.loads(text, object_pairs_hook=_Pairs))
        class _Pairs(list):
            pass
        for lit_ in list(apel.PY_LITERALS) + [b'{"ok": [1, {"k": null}]}', b'plain text', bytes(range(7))]:
            for sub_ in (1, 3):
                b_ = pelbuild.pel([pelbuild.UH(), pelbuild.SRC(), pelbuild.UD(lit_, sub=sub_)], eid=0x0C060000)
                rec_, orig_ = [], json.dumps
                def spy_(obj, *a_, **k_):
                    res_ = orig_(obj, *a_, **k_)
                    if isinstance(obj, dict) and 'Private Header' in obj:
                        rec_.append((obj, res_))
                    return res_
                json.dumps = spy_
                try:
                    real = apel.real_decode(b_)
                finally:
                    json.dumps = orig_
                ck.case(key=('in-memory', lit_, sub_))
                ck.count('in-memory document vs its text: %s' % ('document' if rec_ else real[0]))
                for obj_, res_ in rec_:
                    try:
                        same_ = parsed_(res_) == exact_(obj_)
                    except Exception:
                        same_ = False
                    if not same_:
                        ck.fail('the text made from the decoded document does not parse back to exactly that document (keys that are not strings, values that are not JSON values, or keys that print alike)',
                                {'op': 'parsePEL', 'data_hex': b_.hex(), 'user_data': lit_.decode('latin-1'), 'text_tail': res_[-300:]}, 'in_memory_document')
        for rnd in range(12 if thorough else 4):
            files = []
            for i in range(rng.choice([1, 2, 3])):
                doc = {}
                for _ in range(rng.randrange(1, 5)):
                    k = ''.join(rng.choice(nasty + list('abcXYZ 01')) for _ in range(rng.randrange(1, 12)))
                    v = rng.choice([''.join(rng.choice(nasty + list('abc de')) for _ in range(rng.randrange(0, 40))), rng.randrange(10 ** 6), None, True,
                                    [''.join(rng.choice(nasty + list('ab')) for _ in range(rng.randrange(0, 9))) for _ in range(rng.randrange(0, 4))], {'n': {'k"': 'v:'}}])
                    doc[k] = v
                text = '\n'.join(''.join(rng.choice(nasty + list('word ')) for _ in range(rng.randrange(0, 30))).replace('\n', ' ') for _ in range(rng.randrange(1, 5)))
                secs = [pelbuild.UH(), pelbuild.SRC(), pelbuild.UD(json.dumps(doc, ensure_ascii=rng.random() < 0.5).encode(), sub=1),
                        pelbuild.UD((text or 'x').encode(), sub=3)]
                if rng.random() < 0.4:
                    secs.append(pelbuild.UD(bytes(rng.randrange(256) for _ in range(rng.randrange(1, 40))), sub=2))
                files.append(('pel_%d_%d' % (rnd, i), pelbuild.pel(secs, eid=0x50000100 + 16 * rnd + i)))
            if rnd == 0 or rng.random() < 0.3:
                # JSON user data with characters no output encoding takes as they are (a lone surrogate, written as an escape in the source), and astral ones
                files.append(('pel_%d_%08X_surrogate' % (rnd, 0x50000B00 + rnd), pelbuild.pel([pelbuild.UH(), pelbuild.UD(b'{"half": "\\ud83d", "k\\udc00": ["\\ud800x", "\xf0\x9f\x98\x80", "\xc3\xa9"]}', sub=1)],
                                                                                      eid=0x50000B00 + rnd)))
                # a PEL whose printed text is longer than 64 KiB (one large section without a decoder), and one whose parser modules fail
                big = bytes(rng.randrange(256) for _ in range(rng.choice([14000, 20000, 40000])))
                files.append(('pel_%d_%08X_big' % (rnd, 0x50000900 + rnd), pelbuild.pel([pelbuild.UH(), pelbuild.UD(big, sub=9, comp=0x7777), pelbuild.UD(b'after the large one', sub=3)],
                                                               eid=0x50000900 + rnd, obmc=900 + rnd)))
                files.append(('pel_%d_%08X_failing_parsers' % (rnd, 0x50000A00 + rnd), pelbuild.pel([pelbuild.UH(), pelbuild.SRC(asc=b'BD8D1234', callouts=pelbuild.callout(subs=pelbuild.fru(flags=0x22, pn=b'PROC0001'))), pelbuild.UD(b'abc', sub=7, comp=0x2222), pelbuild.UD(b'def', sub=7, comp=0x3333),
                                                                           pelbuild.UD(b'ghi', sub=7, comp=0x1111), pelbuild.ED(b'jkl', creator=b'x', sub=7, comp=0x2222)],
                                                                          eid=0x50000A00 + rnd, creator=b'x')))
            if rnd % 2 == 0:
                # a log whose decoding fails in an unusual way (JSON user data nested past the interpreter's recursion limit), listed in the middle
                files.append(('pel_%d_1_deep' % rnd, pelbuild.pel([pelbuild.UH(), pelbuild.SRC(), pelbuild.UD(b'[' * 1200 + b']' * 1200, sub=1)], eid=0x50000C00 + rnd)))
            # files that cannot be decoded, listed between / after the good ones: they must not change what is printed for the list
            files.append(('pel_%d_0_cut' % rnd, files[0][1][:rng.choice([47, 60, 100])]))
            files.append(('pel_%d_zz_cut' % rnd, files[-2][1][:rng.choice([49, 73, 120])]))
            want = {}
            for n, b in files:
                real = apel.real_decode(b)
                if real[0] == 'doc':
                    want[n] = (real[1], json.loads(real[4]))
                elif real[0] == 'invalid-json':
                    ck.fail('the text the decoder produces for a PEL is not valid JSON: ' + real[2], {'op': 'parsePEL', 'data_hex': b.hex(), 'text_head': real[4][:300]}, 'e2e_invalid')
            if not want:
                continue
            d = clirun.make_dir(files, base=tmp)
            names = sorted(want)
            rp = {'op': 'cli-json-text', 'files': [(n, b.hex()) for n, b in files]}
            # -f
            for n in names:
                so, se, sx = clirun.run_main(['-f', os.path.join(d, n), '-E'])
                ck.case(key=('-f', dict(files)[n]), sample={'e2e': '-f', 'bytes': len(dict(files)[n])} if rnd == 0 else None)
                ck.count('end-to-end -f')
                try:
                    ok = json.loads(so) == want[n][1]
                except Exception:
                    ok = False
                if not ok:
                    ck.fail('the text printed by -f does not parse back to the decoded document', rp | {'argv': ['-f', n], 'stdout': so[:300]}, 'e2e_file')
            # -i / --bmc-id (the same document through the look-up modes)
            for n in names:
                for argv in (['-i', want[n][0]], ['--bmc-id', str(int.from_bytes(dict(files)[n][28:32], 'big'))]):
                    if (argv[0] == '--bmc-id' and not n.endswith('_big')) or (argv[0] == '-i' and want[n][0].upper().replace('0X', '') not in n):
                        continue
                    so, se, sx = clirun.run_main(['-p', d] + argv)
                    ck.count('end-to-end %s' % argv[0])
                    try:
                        ok = json.loads(so) == want[n][1]
                    except Exception:
                        ok = False
                    if not ok:
                        ck.fail('the text printed by %s does not parse back to the decoded document' % argv[0], rp | {'argv': argv, 'stdout': so[:300]}, 'e2e_lookup')
            # the same through real interpreters whose stdout takes ASCII only / is a C-locale stream: the printed text is still one JSON document
            # that parses back to the decoded documents (whatever characters the logs contain)
            if rnd == 0 or rng.random() < 0.3:
                # (separate interpreters do not have this run's fixture parser modules: the PEL that needs them stays out)
                names_all, names = names, [n for n in names if dict(files)[n][24:25] != b'x']
                d_all, d = d, clirun.make_dir([(n, b) for n, b in files if b[24:25] != b'x'], base=tmp)
                for envx in ({'PYTHONIOENCODING': 'ascii'}, {'PYTHONIOENCODING': 'latin-1', 'LC_ALL': 'C'}):
                    so, se, sx = clirun.run_sub(['-p', d, '-a', '-E'], env_extra=envx)
                    ck.count('end-to-end -a with stdout encoding %s' % envx['PYTHONIOENCODING'])
                    try:
                        ok = json.loads(so) == [want[n][1] for n in names]
                    except Exception:
                        ok = False
                    if not ok or sx != 0:
                        ck.fail('with a stdout that takes %s only, the text printed by -a does not parse back to the list of decoded documents' % envx['PYTHONIOENCODING'],
                                rp | {'argv': ['-a'], 'environment': envx, 'exit': sx, 'stdout': so[:300], 'stderr': se[-300:]}, 'e2e_encoding')
                    od = clirun.make_dir([], base=tmp)
                    clirun.run_sub(['-p', d, '-j', '-o', od, '-E'], env_extra=envx)
                    for n in names:
                        path = os.path.join(od, '%s.%s.json' % (n, want[n][0]))
                        try:
                            ok = json.load(open(path, encoding='utf-8')) == want[n][1]
                        except Exception:
                            ok = False
                        if not ok:
                            ck.fail('with a %s locale the file written by -j does not parse back to the decoded document' % envx['PYTHONIOENCODING'],
                                    rp | {'argv': ['-j'], 'environment': envx, 'file': os.path.basename(path)}, 'e2e_encoding')
                            break
                names, d = names_all, d_all
            # stdout on a terminal (80 columns), with and without a request for colour: what appears there is the same JSON document
            if rnd == 0 or rng.random() < 0.3:
                for n in [x for x in names if dict(files)[x][24:25] != b'x'][:2]:
                    for envx in ({}, {'CLICOLOR_FORCE': '1', 'TERM': 'xterm-256color'}):
                        so, sx = common.run_on_pty([common.PY, '-W', 'ignore', clirun.PELTOOL, '-f', os.path.join(d, n), '-E'], env=dict(common.child_env(), **envx))
                        ck.count('end-to-end -f on a terminal')
                        try:
                            ok = sx == 0 and json.loads(so) == want[n][1]
                        except Exception:
                            ok = False
                        if not ok:
                            ck.fail('with stdout on a terminal the text printed by -f does not parse back to the decoded document', rp | {'argv': ['-f', n], 'environment': envx, 'stdout': so[:300]}, 'e2e_terminal')
            # a file that holds a complete second PEL after the first one: -f shows ONE document (the PEL the file starts with)
            if len(names) >= 2:
                two = os.path.join(tmp, 'two_in_one_%d' % rnd)
                open(two, 'wb').write(dict(files)[names[0]] + dict(files)[names[1]])
                so, se, sx = clirun.run_main(['-f', two, '-E'])
                ck.count('end-to-end -f on a file with a second PEL behind the first')
                try:
                    ok = json.loads(so) == want[names[0]][1]
                except Exception:
                    ok = False
                if not ok:
                    ck.fail('the text printed by -f for a file with trailing bytes (a second PEL) is not the one decoded document', rp | {'argv': ['-f', '<first + second>'], 'stdout': so[:300]}, 'e2e_file')
            # -a
            so, se, sx = clirun.run_main(['-p', d, '-a', '-E'])
            ck.case(key=('-a', tuple(files)))
            ck.count('end-to-end -a')
            try:
                ok = json.loads(so) == [want[n][1] for n in names]
            except Exception:
                ok = False
            if not ok:
                ck.fail('the text printed by -a does not parse back to the list of decoded documents', rp | {'argv': ['-a'], 'stdout': so[:300]}, 'e2e_all')
            # -j into an empty directory, and again over stale files of the same names (longer and shorter than the new text)
            for stale in (None, 'longer', 'shorter'):
                od = clirun.make_dir([], base=tmp)
                if stale:
                    for n in names:
                        with open(os.path.join(od, '%s.%s.json' % (n, want[n][0])), 'w') as f:
                            f.write('{"stale": "%s"}' % ('x' * (200000 if stale == 'longer' else 1)))
                so, se, sx = clirun.run_main(['-p', d, '-j', '-o', od, '-E'])
                ck.case(key=('-j', stale, tuple(files)))
                ck.count('end-to-end -j (%s)' % (stale or 'fresh directory'))
                for n in names:
                    path = os.path.join(od, '%s.%s.json' % (n, want[n][0]))
                    try:
                        ok = json.load(open(path)) == want[n][1]
                    except Exception:
                        ok = False
                    if not ok:
                        ck.fail('the file written by -j does not parse back to the decoded document', rp | {'argv': ['-j'], 'existing_output': stale, 'file': os.path.basename(path),
                                'head': open(path).read()[:200] if os.path.exists(path) else None}, 'e2e_json')
                        break
    finally:
        env.uninstall()
        shutil.rmtree(tmp, ignore_errors=True)


def contains_float(v):
    if isinstance(v, float):
        return True
    if isinstance(v, tuple) and v and v[0] == 'obj':
        return any(contains_float(x) for _, x in v[1])
    if isinstance(v, list):
        return any(contains_float(x) for x in v)
    return False


def replay(path):
    rp = json.load(open(path))
    print(json.dumps(rp, indent=1)[:3000])
    if rp.get('op') == 'prettyPrint':
        from pel.peltool import peltool
        d = json.loads(rp['doc_json'])
        out = peltool.prettyPrint(json.dumps(d, indent=4), rp['desired'])
        try:
            ok = json.loads(out) == d
        except Exception:
            ok = False
        print('property holds on this input now' if ok else 'STILL FAILING')
        return 0 if ok else 1
    return 0
