"""C15 — trace buffers decode entry by entry, stopping at the first malformed entry."""
import json
import os
import shutil
import struct
import tempfile

import common
import iod
from common import Check, lean_batch, tb, tt, tlist

TRUSTED = ['Lean 4.33.0 kernel (+ leanchecker in the thorough tier)',
           'axioms: propext, Classical.choice, Quot.sound only (audited per theorem)',
           'harness/extract.py (pins), harness/c15.py + iod.py (generators, file reading with plain open() + iteration, comparison), Drv.lean protocol parsing',
           'compiled driver peldrv agrees with the kernel reading of the same definitions']
ASSUME = ["CPython's % operator is modelled by pyFmt for the subset used by the shipped string files; theorems treat it opaquely",
          'the string-file LOADER is modelled (PelModel/Regex.lean: backtracking matcher + LINE_RE as an AST; Loaders.lean: the line loop and '
          '_add_trace_string) and proved to read back printed files (string_file_roundtrip: the greedy (.*) cuts at the LAST ||); that the AST '
          "denotes the repo's pattern string and that the matcher has CPython's semantics is established by correspondence only: Lean loader vs "
          'TraceStringFile(path).trace_strings on the shipped files, the synthetic files and the adversarial stream; the harness has no reader of '
          'its own any more, every string list used for decoding is loaded by the model from the file lines',
          'a hash of more than 4300 digits (int() raises) is answered unsupported by the model: counted as skipped, never as agreement',
          'files are read with open(path) + iteration exactly as the repo does (text mode, universal newlines, locale encoding = UTF-8 here)',
          "str(bytes,'ascii','ignore') is modelled as dropping bytes >= 0x80"]
RULE = ('cases = (string file, trace bytes): abstract header + well-formed entries (lengths {0,1,3,4,5,1023,1024}, both tags, hashes '
        'exact/partial/unknown) + trailing bytes (none, short, corrupted entry: oversized / wrong trailer / truncated), declared '
        'size smaller/equal/larger than the data, truncation at every offset of a small buffer, random bytes; non-trivial = a '
        'header and at least one entry are decoded; distinct by (string file, bytes). Loader cases = string files (shipped, synthetic, '
        'adversarial: handcrafted line variants, small files with character-level mutations, whole shipped files with every line mutated, '
        'CRLF / CR endings, missing final newline); non-trivial = both loaders return a non-empty list; distinct by file content')


def enc_entry(e):
    tbh, tbl, tag, h, line, data, pad = e
    n = len(data)
    p = (4 - n % 4) % 4
    padb = (pad + b'\0' * 4)[:p]
    total = 16 + n + p + 4
    return struct.pack('>HHHHII', tbh, tbl, n, tag, h, line) + data + padb + struct.pack('>I', total)


def run(tier, seed):
    ck = Check('C15', tier, seed)
    ck.proof = common.build_and_audit('C15', thorough=(tier == 'thorough'))
    if not ck.proof['driver_ok']:
        return ck.finish(RULE, TRUSTED, ASSUME)
    from io_drawer import trace as tr
    from pel import hexdump as hd
    rng = ck.rng
    thorough = tier == 'thorough'
    tmp = tempfile.mkdtemp(prefix='c15_')
    try:
        sfiles = []
        loader_files = []
        for name, (_, sf) in iod.drawer_files().items():
            theirs = [(t.hash_value, t.message_format, t.location) for t in tr.TraceStringFile(sf).trace_strings]
            loader_files.append(('shipped ' + name, sf))
            sfiles.append((name, sf, theirs))
        fmts = ['I> value = %u', 'x=%x X=%X', '%d %d %d %d %d', '%d %d %d %d %d %d', 'no args', '100%%', '%02u:%02u', '%.4X|%08X', '%c%c',
                'bad %q', 'E> %s', '%5d|%-5d|', 'tail %', 'from %u%% to %u%%', '%d%%zone %%tj', '%%hhx %x']
        for t in range(20 if thorough else 6):
            strs = []
            for _ in range(rng.randrange(1, 14)):
                base = rng.choice([12345, 54321, 99999, 0, 7])
                h = base + 100000 * rng.randrange(0, 5)
                strs.append((h, rng.choice(fmts), 'file%d.cpp(%d)' % (rng.randrange(9), rng.randrange(999))))
            path = os.path.join(tmp, 'strings%d' % t)
            iod.write_string_file(path, strs)
            loader_files.append(('synth%d' % t, path))
            sfiles.append(('synth%d' % t, path, strs))
        # ---- the loader itself: Lean model vs TraceStringFile(path).trace_strings, field by field
        df = iod.drawer_files()
        loader_files += iod.adversarial_files(rng, 'strs', tmp, 1500 if thorough else 150, 24 if thorough else 4, [df['mex'][1], df['nimitz'][1]])
        ck.count('loader files with a non-empty list', iod.run_loader_stream(ck, 'strs', loader_files))
        # ---- and the patterns themselves, one line at a time: None-ness and groups() of fullmatch
        ck.count('lines matched by a pattern', iod.run_pattern_stream(ck, (6,), rng, 6000 if thorough else 600, {6: iod.STR_LINES[:8]}))

        reqs, meta = [], []
        for sid, (name, path, strs) in enumerate(sfiles):
            # the list the model decodes with is the one the LEAN loader reads from the file lines (strs only steers the generators)
            reqs.append('defstrfile ' + iod.tok_lines(iod.file_lines(path)))
            meta.append(('def', name))
            hashes = [s[0] for s in strs]
            for _ in range((200 if thorough else 40) if 'synth' not in name else (60 if thorough else 20)):
                es = []
                for _ in range(rng.choice([0, 1, 2, 3, 5, 8, 20])):
                    n = rng.choice([0, 1, 3, 4, 5, 8, 19, 20, 21, 1023, 1024] if rng.random() < 0.3 else [0, 4, 8, 12, 20, 24, rng.randrange(0, 64)])
                    hk = rng.random()
                    if hk < 0.5 and hashes:
                        h = rng.choice(hashes)
                    elif hk < 0.8 and hashes:
                        h = (rng.choice(hashes) % 100000 + 100000 * rng.randrange(0, 40000)) % 2 ** 32
                    else:
                        h = rng.randrange(2 ** 32)
                    tag = rng.choice([0x4654, 0x4654, 0x4644, rng.randrange(65536)])
                    es.append((rng.choice([0, 59, 3600, 0xFFFE, 0xFFFF, rng.randrange(65536)]), rng.randrange(65536), tag, h,
                               rng.choice([0, 9, 99999, 100000, 2 ** 32 - 1, rng.randrange(100000)]),
                               bytes(rng.randrange(256) for _ in range(n)), bytes(rng.randrange(256) for _ in range(3))))
                total = 32 + sum(len(enc_entry(e)) for e in es)
                mode = rng.choice(['exact', 'exact', 'larger', 'smaller', 'bad'])
                trailing = b''
                size = total
                if mode == 'larger':
                    size = total + rng.randrange(1, 5000)
                    trailing = bytes(rng.randrange(256) for _ in range(rng.randrange(0, 16)))
                elif mode == 'smaller':
                    size = rng.randrange(0, total + 1)
                elif mode == 'bad':
                    size = total + 10000
                    good = enc_entry((1, 2, 0x4654, 5, 6, bytes(rng.randrange(256) for _ in range(rng.choice([0, 5, 8]))), b''))
                    kind = rng.choice(['oversize', 'oversize_consistent', 'trailer', 'truncated'])
                    if kind == 'oversize_consistent':
                        # more than 1024 data bytes, everything else in order (length field, padding, trailing size word)
                        bad = enc_entry((1, 2, 0x4654, 5, 6, bytes(rng.randrange(256) for _ in range(rng.choice([1025, 1026, 1028, 2000]))), b''))
                    elif kind == 'oversize':
                        bad = good[:4] + struct.pack('>H', rng.choice([1025, 2000, 65535])) + good[6:] + bytes(1100)
                    elif kind == 'trailer':
                        bad = good[:-4] + struct.pack('>I', (len(good) + rng.choice([1, 4, 2 ** 31])) % 2 ** 32)
                    else:
                        bad = good[:rng.randrange(0, len(good))]
                    more = enc_entry((3, 4, 0x4654, 7, 8, b'abcd', b'')) if kind != 'truncated' else b''
                    trailing = bad + more
                comp = rng.choice([b'INFO', b'FANS', b'IICS', b'ER\x80RL', b'AB CD  ', b'', b'ABCDEFGHIJKL', b'X\0Y']).ljust(12, rng.choice([b'\0', b' ']))[:12]
                hdr = (rng.randrange(256), rng.randrange(256), rng.randrange(256), rng.randrange(256), comp,
                       bytes(rng.randrange(256) for _ in range(4)), size, rng.choice([0, 1, 2, 2 ** 32 - 1]),
                       # (the "next free" offset: anywhere, on an entry boundary inside the buffer, or in the middle of an entry -- it decides nothing)
                       rng.choice([rng.randrange(2 ** 32), 32, size, 32 + rng.randrange(1, max(2, total - 32)), 32 + sum(len(enc_entry(e)) for e in es[:len(es) // 2])]))
                reqs.append('tracespec %d %d %d %d %d %s %s %d %d %d %s %s' % (
                    sid, hdr[0], hdr[1], hdr[2], hdr[3], tb(hdr[4]), tb(hdr[5]), hdr[6], hdr[7], hdr[8],
                    tlist(es, lambda e: '%d %d %d %d %d %s %s' % (e[0], e[1], e[2], e[3], e[4], tb(e[5]), tb(e[6]))), tb(trailing)))
                meta.append(('spec', name, path, hdr, es, trailing, mode))
            # truncation at every offset of a 3-entry buffer, and random bytes: model correspondence
            es = [(1, 1, 0x4654, hashes[0] if hashes else 1, 10, b'\0\0\0\x2a', b''), (2, 2, 0x4644, 999, 11, b'xyz', b''),
                  (3, 3, 0x4654, 123456, 12, b'', b'')]
            body = b''.join(enc_entry(e) for e in es)
            full = bytes([2, 32, 1, 0x42]) + b'INFO'.ljust(12, b'\0') + bytes(4) + struct.pack('>III', 32 + len(body), 0, 0) + body
            for k in (range(len(full) + 1) if (thorough or sid < 2) else []):
                reqs.append('trace %d %s' % (sid, tb(full[:k])))
                meta.append(('raw', name, path, full[:k]))
            for _ in range(100 if thorough else 20):
                data = bytes(rng.randrange(256) for _ in range(rng.randrange(0, 120)))
                reqs.append('trace %d %s' % (sid, tb(data)))
                meta.append(('raw', name, path, data))
        replies = lean_batch(reqs)
        opt_calls, OPT_N = [], (120 if thorough else 40)
        for m, r in zip(meta, replies):
            if m[0] == 'def':
                if not r.ok:
                    ck.disagree('the model declines to load a string file the decode cases need', {'op': 'load-strs', 'case': m[1], 'reply': r.raw[:60]})
                continue
            if not r.ok:
                ck.skip(r.raw[:40])
                continue
            if m[0] == 'raw':
                _, name, path, data = m
                real = tr.parse_trace_data(memoryview(data), path)
                if len(opt_calls) < OPT_N and rng.random() < 0.2:
                    opt_calls.append(('trace', data, [path], real))
                model = r.lines()
                ck.case(key=('raw', name, data) if len(data) > 52 else None, sample={'strings': name, 'data': data.hex()[:60]})
                ck.count('raw/truncated')
                rp = {'op': 'trace', 'strings': name, 'data_hex': data.hex()}
                if len(data) < 32:
                    if not real or real[0] != 'Unable to parse trace data.' or bytes(hd.parse(real[1:])) != data:
                        ck.fail('input without a header is not hex-dumped losslessly', rp | {'actual': real[:3]}, 'no_header_fallback')
                if real != model:
                    ck.disagree('parse_trace_data differs from model', rp | {'impl': real[:8], 'model': model[:8]})
                continue
            _, name, path, hdr, es, trailing, mode = m
            data = r.bytes()
            model, spec = r.lines(), r.lines()
            try:
                with common.deadline(common.call_limit()):
                    real = tr.parse_trace_data(memoryview(data), path)
            except common.Hang as e:
                real = ['<does not return: %s>' % e]
            except Exception as e:  # noqa  -- the decoder has no error path of its own: an exception is an outcome
                real = ['<%s: %s>' % (type(e).__name__, str(e)[:100])]
            if len(opt_calls) < OPT_N + 20 and rng.random() < (0.6 if mode == 'bad' else 0.1):
                opt_calls.append(('trace', data, [path], real))
            ck.case(key=(name, data) if len(real) > 7 else None,
                    sample={'strings': name, 'mode': mode, 'size': hdr[6], 'entries': [(e[3], len(e[5]), hex(e[2])) for e in es[:4]]})
            ck.count('mode=%s entries=%s' % (mode, '0' if not es else 'some'))
            rp = {'op': 'trace', 'strings': name if 'synth' not in name else open(path).read(), 'header': [x.hex() if isinstance(x, bytes) else x for x in hdr],
                  'entries': [[x.hex() if isinstance(x, bytes) else x for x in e] for e in es], 'trailing_hex': trailing.hex(), 'data_hex': data.hex()}
            if real != spec:
                k = next((i for i in range(min(len(real), len(spec))) if real[i] != spec[i]), min(len(real), len(spec)))
                ck.fail('trace output contradicts the property', rp | {'first_difference': k, 'expected': spec[k:k + 2], 'actual': real[k:k + 2]}, 'trace_lines')
            if real != model:
                ck.disagree('parse_trace_data differs from model', rp | {'impl': real[:8], 'model': model[:8]})
        iod.check_optimised(ck, opt_calls, 'trace samples')
        # ---- through the shipped parser module with the io_drawer package installed as individual symbolic links into a store
        try:
            from io_drawer.drawer_type import DRAWER_TYPES as _DT
            iod.check_linkfarm(ck, [(84, dt_.user_data_version, c_[1]) for dt_ in _DT for c_ in opt_calls[:4]], 'trace buffers')
        except ImportError as e:
            ck.skip('io_drawer.drawer_type unavailable: %r' % e)
        # ---- through the shipped I/O-drawer parser module (sub-type 84 of component 2C00): the "Trace" member is the stand-alone decoding of the
        # same bytes with the drawer's string file -- also when an entry's data contains what looks like a buffer header
        try:
            from udparsers.m2c00 import m2c00
            from io_drawer.drawer_type import DRAWER_TYPES
            hdrlike = bytes([2, 32, 1, 0x42]) + b'IICS' + bytes(8)
            for dt in DRAWER_TYPES:
                sp_ = dt.get_trace_string_file_path()
                for payload in (hdrlike, b'\0\0\0\0' + hdrlike, bytes(rng.randrange(256) for _ in range(24))):
                    es_ = [(1, 1, 0x4644, 5, 6, payload, b''), (2, 2, 0x4654, 7, 8, b'abcd', b''), (3, 3, 0x4644, 9, 10, hdrlike + hdrlike, b'')]
                    body_ = b''.join(enc_entry(e) for e in es_)
                    data_ = bytes([2, 32, 1, 0x42]) + b'INFO'.ljust(12, b'\0') + bytes(4) + struct.pack('>III', 32 + len(body_), 0, 0) + body_
                    want_ = tr.parse_trace_data(memoryview(data_), sp_)
                    try:
                        got_ = json.loads(m2c00.parseUDToJson(84, dt.user_data_version, memoryview(data_)))
                    except Exception as e:  # noqa
                        got_ = {'<raises>': type(e).__name__}
                    ck.case(key=('m2c00-trace', dt.name, data_))
                    ck.count('trace through udparsers.m2c00')
                    if got_ != {'Trace': want_}:
                        ck.fail('the trace shown by the I/O-drawer parser module is not the decoding of its bytes', {'op': 'm2c00-trace', 'drawer': dt.name, 'data_hex': data_.hex(),
                                'actual': str(got_)[:300], 'expected': want_[:4]}, 'm2c00_trace')
        except ImportError as e:
            ck.skip('udparsers.m2c00 unavailable: %r' % e)
        # ---- a string file that is rewritten between two decodes in one process
        synth = [pth for nm, pth in loader_files if nm.startswith('synth') and os.path.exists(pth)]
        import struct as _st
        # entries whose hashes occur in the synthetic string files (picked from the file text; not an oracle), so that two files give different lines
        import re as _re
        hashes = []
        for pth in synth:
            hashes += [int(h) for h in _re.findall(r'^\s*([0-9]{1,9})\|\|', open(pth, errors='replace').read(), _re.M)][:6]
        hashes = [h for h in dict.fromkeys(hashes) if h < 2 ** 32][:40] + [12345, 112345]
        body = b''.join(enc_entry((0x1122, 0x3344 + i, 0x4654, h, 77 + i, b'\0\0\0\x2a', b'')) for i, h in enumerate(hashes, 1))
        tdata = bytes([2, 32, 1, 0x42]) + b'INFO'.ljust(12, b'\0') + bytes(4) + _st.pack('>III', 32 + len(body), 1, 0) + body
        iod.check_rewritten_table_file(ck, 'strs', synth, lambda pth: tr.parse_trace_data(memoryview(tdata), pth), rng, 12 if thorough else 4)
    finally:
        shutil.rmtree(tmp, ignore_errors=True)
    return ck.finish(RULE, TRUSTED, ASSUME)


def replay(path):
    rp = json.load(open(path))
    print(json.dumps(rp, indent=1)[:3000])
    return 0
