"""C10 — look-ups by platform log id, BMC id, entry id and SRC return exactly the matches."""
import json
import os
import shutil

import apel
import clirun
import toprun
import common
import jsonio
from common import Check, lean_batch

TRUSTED = ['harness/toprun.py (worlds materialised as real trees, the real peltool.main() run end to end in-process with nothing replaced, recursive snapshots, comparison with the driver op runmain = Pel.runMain of PelModel/Top.lean)',
           'Lean 4.33.0 kernel (+ leanchecker in the thorough tier)',
           'axioms: propext, Classical.choice, Quot.sound only (audited per theorem)',
           'harness/c10.py + clirun.py + apel.py (directory generator, in-process CLI runs, comparison), Drv.lean protocol parsing',
           'compiled driver peldrv agrees with the kernel reading of the same definitions']
ASSUME = ['whole-command model: -o names the -p directory iff absent/empty or the same string; the -f file is not a top-level file of the -p directory; --json is composed in batch form (an output name equal to another input file name is outside the composition)',
          'os.walk order is a parameter of the model (taken from the real directory) for --id / --bmc-id',
          'directories contain PEL files only (an output .json file in the same directory could also match --id by name)']
RULE = ('cases = (directory of decodable PELs incl. hidden / non-serviceable ones, look-up): --plid in four spellings (bare, lower case, 0x, 0X) '
        'for ids drawn from {0, 1, 0xF, 0x10, 0x1234, 0x0FFFFFFF, 0x10000000, 0x50000001, 0xFFFFFFFF} and random, present and absent; '
        '--bmc-id present/absent; --id by entry id; --src substrings of every length; --src-exclude files; non-trivial = the look-up '
        'matches at least one PEL; distinct by (directory, look-up)')
IDS = [0, 1, 0xF, 0x10, 0x1234, 0x0FFFFFFF, 0x10000000, 0x50000001, 0xFFFFFFFF]


def spellings(rng, v):
    return [('%08X' % v), ('%08x' % v), '0x%08X' % v, '0X%08x' % v, '0x%08x' % v]


def run(tier, seed):
    ck = Check('C10', tier, seed)
    ck.proof = common.build_and_audit('C10', thorough=(tier == 'thorough'))
    if not ck.proof['driver_ok']:
        return ck.finish(RULE, TRUSTED, ASSUME)
    rng = ck.rng
    thorough = tier == 'thorough'
    env = apel.PluginEnv(allow=True).install()
    paths = []
    try:
        reqs, meta = [env.tokens()], []
        for _ in range(50 if thorough else 12):
            d = clirun.gen_wf_dir(rng, rng.choice([1, 3, 6, 10]))
            for n, p in d:
                p['ph']['plid'] = rng.choice(IDS + [rng.randrange(2 ** 32)])
                p['ph']['obmc'] = rng.choice([0, 1, 7, 42, 4294967295, rng.randrange(1000)])
                # a reference code that fills all 32 characters of its field
                if rng.random() < 0.25:
                    for sec in p['sections']:
                        if sec['kind'] == 'src' and sec['primary']:
                            sec['src']['ascii'] = (sec['src']['ascii'][:8].replace(b' ', b'0').replace(b'\0', b'0') + b'FULLWIDTHREFERENCECODE0123456789')[:32]
            d = clirun.keep_decodable(env, d)
            if not d:
                continue
            files = [(n, apel.enc_pel(p)) for n, p in d]
            path = clirun.make_dir(files, subdirs={'archive': [('A_%08X' % d[0][1]['ph']['eid'], files[0][1])]})
            paths.append(path)
            order = clirun.walk_files(path)
            byname = dict(files)
            fl = [(n, byname[n]) for n in order]
            pels = dict(d)
            lookups = []
            for v in [p['ph']['plid'] for _, p in d][:4] + [rng.choice(IDS), rng.randrange(2 ** 32)]:
                for sp in rng.sample(spellings(rng, v), 2 if not thorough else 5):
                    lookups.append(('plid', sp, v))
            lookups += [('plid', '1234', None), ('plid', '0x123456789', None)]
            for v in [p['ph']['obmc'] for _, p in d][:3] + [99999]:
                lookups.append(('bmcid', str(v), v))
            for v in [p['ph']['eid'] for _, p in d][:3] + [0xDEADBEEF]:
                lookups.append(('id', rng.choice(spellings(rng, v)), v))
            codes = [ascii_ref(p) for _, p in d if ascii_ref(p)]
            for c in [x for x in codes if len(x) == 32][:2]:
                lookups += [('src', c, None), ('src', c[:31], None), ('src', c[1:], None)]      # the whole field, and one character less
            for c in codes[:3]:
                a = rng.randrange(len(c))
                b = rng.randrange(a + 1, len(c) + 1)
                lookups.append(('src', c[a:b], None))
            lookups += [('src', 'BD', None), ('src', 'ZZZZQQ', None), ('src', 'B' * 33, None), ('src', '0xBD', None), ('src', '0X12', None), ('src', '0x', None)]
            ex = path + '_exclude.txt'
            extext = '\n'.join(rng.sample(codes, min(len(codes), 2)) + ['BD00FFFF']) + '\n'
            open(ex, 'w').write(extext)
            paths.append(ex)
            lookups.append(('srcex', ex, extext))
            for (kind, arg, val) in lookups:
                cfg = {} if rng.random() < 0.8 else {'H': 1}
                reqs.append(clirun.model_req(kind, fl, cfg, arg=(val if kind == 'srcex' else arg)))
                meta.append((path, d, files, kind, arg, val, cfg))
        replies = lean_batch(reqs)[1:]
        for (path, d, files, kind, arg, val, cfg), r in zip(meta, replies):
            flag = {'plid': '--plid', 'bmcid': '--bmc-id', 'id': '--id', 'src': '--src', 'srcex': '--src-exclude'}[kind]
            so, se, sx = clirun.run_main(['-p', path] + clirun.cfg_argv(cfg) + [flag, arg])
            mo, me, mx = r.text(), r.num(), r.num()
            rp = {'op': 'cli', 'argv': clirun.cfg_argv(cfg) + [flag, arg if kind != 'srcex' else '<file:%r>' % val], 'files': [(n, b.hex()) for n, b in files]}
            hit = False
            if kind == 'src' and len(arg) <= 32 and sx != 0:
                ck.fail('--src with a string of at most 32 characters (the width of the reference code) ends with an error instead of a result', rp | {'exit': sx, 'stderr': se[-200:]}, 'src_length')
            if sx == 0:
                if kind in ('plid', 'src', 'srcex'):
                    try:
                        got = [k for k, _ in json.loads(so, object_pairs_hook=jsonio.pairs_hook)]
                    except Exception:
                        got = None
                        ck.fail('look-up did not print a JSON document', rp | {'stdout': so[:200]}, 'not_json')
                    names = sorted(n for n, _ in d)
                    if kind == 'plid':
                        want = ['0x%02X' % dict(d)[n]['ph']['eid'] for n in names if dict(d)[n]['ph']['plid'] == val]
                    elif kind == 'src':
                        want = ['0x%02X' % dict(d)[n]['ph']['eid'] for n in names if ascii_ref(dict(d)[n]) is not None and arg in ascii_ref(dict(d)[n])]
                    else:
                        want = ['0x%02X' % dict(d)[n]['ph']['eid'] for n in names if ascii_ref(dict(d)[n]) is not None and ascii_ref(dict(d)[n]) not in val]
                    hit = bool(want)
                    if got is not None and got != want:
                        ck.fail('%s does not list exactly the matching PELs' % flag, rp | {'expected': want, 'actual': got}, kind + '_exact')
                elif kind == 'bmcid':
                    have = [n for n, p in d if p['ph']['obmc'] == val]
                    hit = bool(have)
                    if have:
                        try:
                            doc = json.loads(so)
                            if doc['Private Header']['BMC Event Log Id'] != str(val):
                                ck.fail('--bmc-id displayed a PEL with another id', rp, 'bmcid_wrong')
                        except Exception:
                            ck.fail('--bmc-id did not display a PEL although one with that id exists', rp | {'stdout': so[:200]}, 'bmcid_missing')
                    elif so != 'PEL not found\n':
                        ck.fail('--bmc-id did not report "PEL not found"', rp | {'stdout': so[:200]}, 'bmcid_notfound')
                elif kind == 'id':
                    pid = '%08X' % val
                    have = [n for n, _ in d if pid in n]
                    hit = bool(have)
                    if have:
                        try:
                            doc = json.loads(so)
                            shown = doc['Private Header']['Entry Id']
                            if not any('0x%02X' % dict(d)[n]['ph']['eid'] == shown for n in have):
                                ck.fail('--id displayed a PEL that is not stored under that id', rp | {'shown': shown}, 'id_wrong')
                        except Exception:
                            ck.fail('--id did not display the PEL stored under that id', rp | {'stdout': so[:200]}, 'id_missing')
                    elif so != 'PEL not found\n':
                        ck.fail('--id did not report "PEL not found"', rp | {'stdout': so[:200]}, 'id_notfound')
            ck.case(key=(tuple(files), kind, arg) if hit else None, sample={'lookup': [flag, arg][:2], 'matched': hit} if kind != 'srcex' else None)
            ck.count('%s %s' % (kind, 'hit' if hit else ('exit%d' % sx if sx else 'miss')))
            if so != mo or sx != mx:
                ck.disagree('%s output differs from the model' % flag, rp | {'impl': so[:300], 'model': mo[:300], 'exit': (sx, mx)})
    finally:
        env.uninstall()
        for p in paths:
            if os.path.isdir(p):
                shutil.rmtree(p, ignore_errors=True)
            elif os.path.exists(p):
                os.remove(p)
    # the WHOLE command end to end on real trees vs Pel.runMain (PelModel/Top.lean), and the command-level properties on the real runs
    toprun.check_top(ck, tier, 'lookup')
    return ck.finish(RULE, TRUSTED, ASSUME)


def ascii_ref(p):
    for sec in p['sections']:
        if sec['kind'] == 'src' and sec['primary']:
            return sec['src']['ascii'].decode('latin1').strip()
        # parsePELSummary stops at the primary SRC; sections before it are decoded
    return None


def replay(path):
    rp = json.load(open(path))
    print(json.dumps(rp, indent=1)[:3000])
    return 0
