"""C20 — hardware-diagnostics signatures and register dumps are decoded field-exactly."""
import json
import os
import shutil
import struct
import tempfile

import common
import jsonio
import pelbuild
import apel
from common import Check, lean_batch, tb, tt, tlist

TRUSTED = ['Lean 4.33.0 kernel (+ leanchecker in the thorough tier)',
           'axioms: propext, Classical.choice, Quot.sound only (audited per theorem)',
           'harness/c20.py (generators, chip-data fixtures, comparison), Drv.lean protocol parsing',
           'compiled driver peldrv agrees with the kernel reading of the same definitions']
ASSUME = ['chip data files are well-typed JSON of the documented shape (any level may be missing); register addresses are plain hex text',
          'glob order of data files is irrelevant because fixture files have distinct model/EC ids']
RULE = ('cases = 96-bit signatures (random and boundary, both hex cases) with chip data absent / full / partial (missing signatures, bit, '
        'register instance, attn types; upper/lower-case keys), signature lists (0..50), register dumps (chips 0..4 x registers 0..6 x data '
        'sizes 1,2,8,255, and size 0), scratch sections, callout FFDC, through parseUDToJson and parseSRCToJson; non-trivial = decoded '
        'without exception; distinct by input')


def opt(v, f):
    return '0' if v is None else '1 ' + f(v)


def tok_chip(c):
    tt2 = lambda d: tlist(d.items(), lambda kv: tt(kv[0]) + ' ' + tt(kv[1]))
    t3 = lambda d: tlist(d.items(), lambda kv: tt(kv[0]) + ' ' + tt(kv[1][0]) + ' ' + tt2(kv[1][1]))
    me = c.get('model_ec', {})
    return '%s %s %s %s %s %s' % (tt(me['id']), opt(me.get('type'), tt), opt(me.get('desc'), tt), opt(c.get('attn_types'), tt2),
                                  opt(c.get('signatures'), t3), opt(c.get('registers'), t3))


def gen_chipdata(rng):
    chips = []
    for ec in ['20da0020', '20d10010', 'abcdef01']:
        if rng.random() < 0.25:
            continue
        c = {'model_ec': {'id': ec}}
        if rng.random() < 0.8:
            c['model_ec']['type'] = rng.choice(['proc', 'ocmb'])
        if rng.random() < 0.8:
            c['model_ec']['desc'] = 'P10 2.0' if ec[0] == '2' else 'Explorer "x"'
        if rng.random() < 0.8:
            c['attn_types'] = {str(k): 'attn %d' % k for k in rng.sample(range(256), 4)} | {'1': 'checkstop'}
        if rng.random() < 0.8:
            c['signatures'] = {('%04x' % k): ['SIG_%04X' % k, {str(b): 'bit %d of %x' % (b, k) for b in rng.sample(range(256), 3)}]
                               for k in [0x0001, 0xabcd, 0xffff, rng.randrange(65536)]}
        if rng.random() < 0.8:
            # the same register ids and instances exist on every chip model, with a name and addresses of the model's own
            c['registers'] = {('%06x' % k): [('REG_%06X_WITH_A_LONG_NAME_PAST_25_ON_%s' % (k, ec[:4])) if k & 1 else 'R%x_%s' % (k, ec[:4]),
                                             {str(i): '%x' % rng.randrange(2 ** 32) for i in [0, 1] + rng.sample(range(2, 256), 2)}]
                              for k in [0x000001, 0xabcdef, rng.randrange(2 ** 24)]}
        chips.append(c)
    return chips


def pick_sig(rng, chips):
    c = rng.choice(chips) if chips and rng.random() < 0.7 else None
    a = int(c['model_ec']['id'], 16) if c else rng.choice([0, 0xFFFFFFFF, rng.randrange(2 ** 32)])
    sid = rng.randrange(65536)
    bit = rng.randrange(256)
    attn = rng.randrange(256)
    if c and c.get('signatures') and rng.random() < 0.8:
        k = rng.choice(list(c['signatures']))
        sid = int(k, 16)
        if rng.random() < 0.7:
            bit = int(rng.choice(list(c['signatures'][k][1])))
    if c and c.get('attn_types') and rng.random() < 0.6:
        attn = int(rng.choice(list(c['attn_types'])))
    b = (rng.choice([0, 0xFFFF, rng.randrange(65536)]) << 16) | (rng.randrange(256) << 8) | attn
    cw = (sid << 16) | (rng.randrange(256) << 8) | bit
    return a, b, cw


def run(tier, seed):
    ck = Check('C20', tier, seed)
    ck.proof = common.build_and_audit('C20', thorough=(tier == 'thorough'))
    if not ck.proof['driver_ok']:
        return ck.finish(RULE, TRUSTED, ASSUME)
    import pel.hwdiags.data as hwdata
    from pel.hwdiags.parserdata import ParserData
    ud = __import__('udparsers.oe500.oe500', fromlist=['x'])
    sp = __import__('srcparsers.oe500.oe500', fromlist=['x'])
    rng = ck.rng
    thorough = tier == 'thorough'
    orig = hwdata.__file__
    try:
        for rnd in range(12 if thorough else 4):
            chips = [] if rnd == 0 else gen_chipdata(rng)
            tmp = tempfile.mkdtemp(prefix='c20_')
            open(os.path.join(tmp, '__init__.py'), 'w').close()
            for i, c in enumerate(chips):
                if rnd % 2 == 1 and i % 2 == 0:
                    # deployed as a symbolic link into the data directory (packaging systems do that): a data file all the same
                    os.makedirs(os.path.join(tmp, 'store'), exist_ok=True)
                    json.dump(c, open(os.path.join(tmp, 'store', 'real%d.json' % i), 'w'))
                    os.symlink(os.path.join(tmp, 'store', 'real%d.json' % i), os.path.join(tmp, 'chip%d.json' % i))
                else:
                    json.dump(c, open(os.path.join(tmp, 'chip%d.json' % i), 'w'))
            hwdata.__file__ = os.path.join(tmp, '__init__.py')
            try:
                reqs, meta = ['defchips ' + tlist(chips, tok_chip)], [None]
                for _ in range(400 if thorough else 120):
                    a, b, c = pick_sig(rng, chips)
                    up = rng.random() < 0.5
                    f = (lambda v: '%08X' % v) if up else (lambda v: '%08x' % v)
                    reqs.append('sig %s %s %s' % (tt(f(a)), tt(f(b)), tt(f(c))))
                    meta.append(('sig', f(a), f(b), f(c), (a, b, c)))
                    if rng.random() < 0.3:
                        rc = rng.choice(['BD8DE510', 'BD8DE511', 'BC8DE510', 'BD8D'])
                        reqs.append('oe500src %s %s %s %s' % (tt(rc), tt('%08X' % a), tt('%08X' % b), tt('%08X' % c)))
                        meta.append(('src', rc, a, b, c))
                for _ in range(150 if thorough else 40):
                    n = rng.choice([0, 1, 2, 5, 50])
                    sigs = [pick_sig(rng, chips) for _ in range(n)]
                    data = struct.pack('>I', n) + b''.join(struct.pack('>III', *x) for x in sigs)
                    if rng.random() < 0.15:
                        data = data[:rng.randrange(len(data))] if len(data) > 0 else data
                    reqs.append('oe500ud 1 ' + tb(data)); meta.append(('ud', 1, data))
                    # register dump
                    body = b''
                    nch = rng.choice([0, 1, 2, 4, 6])
                    for ci in range(nch):
                        c = rng.choice(chips) if chips and rng.random() < 0.7 else None
                        if chips and nch >= 4 and ci < len(chips):
                            c = chips[ci]       # every model once, then an unknown chip: shared register ids under different models
                        ec = int(c['model_ec']['id'], 16) if c else rng.randrange(2 ** 32)
                        nr = rng.choice([0, 1, 3, 6])
                        body += struct.pack('>IHBI', ec, rng.randrange(65536), rng.randrange(256), nr)
                        for _ in range(nr):
                            rid = rng.randrange(2 ** 24)
                            inst = rng.randrange(256)
                            if c and c.get('registers') and rng.random() < 0.7:
                                k = rng.choice(list(c['registers']))
                                rid = int(k, 16)
                                if rng.random() < 0.7:
                                    inst = int(rng.choice(list(c['registers'][k][1])))
                            elif rng.random() < 0.5:
                                rid, inst = rng.choice([0x000001, 0xabcdef]), rng.choice([0, 1])
                            sz = rng.choice([1, 2, 8, 8, 255, 3, 0 if rng.random() < 0.1 else 4])
                            body += rid.to_bytes(3, 'big') + bytes([inst, sz]) + bytes(rng.randrange(256) for _ in range(sz))
                    data = struct.pack('>I', nch) + body
                    if rng.random() < 0.1 and len(data) > 4:
                        data = data[:rng.randrange(4, len(data))]
                    reqs.append('oe500ud 2 ' + tb(data)); meta.append(('ud', 2, data))
                    data = bytes(rng.randrange(256) for _ in range(rng.choice([24, 24, 23, 30])))
                    reqs.append('oe500ud 4 ' + tb(data)); meta.append(('ud', 4, data))
                    data = bytes(rng.randrange(256) for _ in range(rng.choice([8, 8, 7, 12])))
                    reqs.append('oe500ud 5 ' + tb(data)); meta.append(('ud', 5, data))
                    doc = rng.choice([[{"Priority": "H", "LocationCode": "U78"}], {"a": [1, 2]}, [], "x", {"é": "\"q\""}])
                    data = json.dumps(doc).encode() + b'\0' * rng.choice([0, 1, 3])
                    if rng.random() < 0.15:
                        data = data[:len(data) // 2]
                    reqs.append('oe500ud 3 ' + tb(data)); meta.append(('ud', 3, data))
                    sub = rng.choice([0, 6, 255])
                    reqs.append('oe500ud %d x00' % sub); meta.append(('ud', sub, b'\0'))
                replies = lean_batch(reqs)
                pd = ParserData()
                for m, r in zip(meta, replies):
                    if m is None:
                        continue
                    if m[0] == 'sig':
                        _, fa, fb, fc, (a, b, c) = m
                        try:
                            real = jsonio.canon(json.loads(json.dumps(pd.get_signature(fa, fb, fc)), object_pairs_hook=jsonio.pairs_hook))
                        except Exception as e:  # noqa
                            real = ('raises', type(e).__name__)
                        model = jsonio.canon(jsonio.dec_j(r, pairs=True))
                        nodata = jsonio.canon(jsonio.dec_j(r, pairs=True))
                        ck.case(key=(rnd, fa, fb, fc), sample={'words': [fa, fb, fc], 'chips': len(chips)})
                        ck.count('signature chipdata=%s' % ('none' if not chips else 'some'))
                        rp = {'op': 'get_signature', 'words': [fa, fb, fc], 'chip_data': chips}
                        if isinstance(real, tuple) and real[0] == 'raises':
                            ck.fail('signature look-up raised instead of falling back', rp | {'actual': real}, 'sig_raises')
                        else:
                            # field exactness: the numbers shown are the ones at the stated byte positions
                            members = dict(real[1])
                            node, chip, attn = (b >> 8) & 0xFF, b >> 16, b & 0xFF
                            sid, inst, bit = c >> 16, (c >> 8) & 0xFF, c & 0xFF
                            if not members['Chip Desc'].startswith('node %d ' % node) or (' %d (' % chip) not in members['Chip Desc']:
                                ck.fail('chip position / node are not taken from the stated bytes', rp | {'actual': members['Chip Desc']}, 'sig_fields')
                            if ('(%d)[%d] ' % (inst, bit)) not in members['Signature']:
                                ck.fail('signature instance / bit are not taken from the stated bytes', rp | {'actual': members['Signature']}, 'sig_fields')
                            # names come from the chip data file when one exists for the model (looked up case-insensitively)
                            cd = next((x for x in chips if int(x['model_ec']['id'], 16) == a), None)
                            if cd is not None and 'desc' in cd['model_ec'] and ('(%s)' % cd['model_ec']['desc']) not in members['Chip Desc']:
                                ck.fail('the chip description is not taken from the chip data file that exists for the model', rp | {'actual': members['Chip Desc']}, 'sig_chipdata')
                            if cd is not None and 'type' in cd['model_ec'] and (' %s %d (' % (cd['model_ec']['type'], chip)) not in members['Chip Desc']:
                                ck.fail('the chip type is not taken from the chip data file that exists for the model', rp | {'actual': members['Chip Desc']}, 'sig_chipdata')
                            if not chips and real != nodata:
                                ck.fail('without chip data the raw numbers are not shown', rp | {'actual': real, 'expected': nodata}, 'sig_nodata')
                        if real != model:
                            ck.disagree('get_signature differs from model', rp | {'impl': real, 'model': model})
                    elif m[0] == 'src':
                        _, rc, a, b, c = m
                        real = jsonio.canon(json.loads(sp.parseSRCToJson(rc, '0', '0', '0', '0', '%08X' % a, '%08X' % b, '%08X' % c, '0'), object_pairs_hook=jsonio.pairs_hook))
                        model = jsonio.canon(jsonio.dec_j(r, pairs=True))
                        ck.case(key=(rnd, rc, a, b, c))
                        ck.count('src parser')
                        if real != model:
                            ck.disagree('srcparsers.oe500 differs from model', {'op': 'oe500src', 'refcode': rc, 'words': [a, b, c], 'impl': real, 'model': model})
                    else:
                        _, sub, data = m
                        try:
                            txt = ud.parseUDToJson(sub, 1, memoryview(data))
                            real = ('json', jsonio.canon(json.loads(txt, object_pairs_hook=jsonio.pairs_hook)))
                        except Exception as e:  # noqa
                            real = ('raises', None)
                        if r.status == 'unsupported':
                            ck.skip('float')
                            continue
                        model = ('json', jsonio.canon(jsonio.dec_j(r, pairs=True))) if r.status == 'ok' else ('raises', None)
                        ck.case(key=(rnd, sub, data) if real[0] == 'json' else None, sample={'subtype': sub, 'data': data.hex()[:48]})
                        ck.count('ud subtype %d -> %s' % (sub, real[0]))
                        rp = {'op': 'oe500 parseUDToJson', 'subtype': sub, 'data_hex': data.hex(), 'chip_data': chips}
                        if sub == 2 and real[0] == 'json':
                            # every register line carries exactly its data bytes
                            lines = dict(real[1][1])['Register Dump']
                            want = regdump_data(data)
                            got = [bytes.fromhex(l.split(') ', 1)[1].replace(' ', '')) for l in lines if l.startswith('  ')]
                            if got != want:
                                ck.fail('register dump does not list every register with exactly its data bytes', rp, 'regdump_data')
                        if real != model:
                            ck.disagree('udparsers.oe500 differs from model', rp | {'impl': str(real)[:300], 'model': str(model)[:300]})
                        # the same section INSIDE a PEL, as User Data and as Extended User Data, with a version that differs from the subtype:
                        # the section shows what the parser gives for exactly (subtype, version, payload)
                        if real[0] == 'json' and data and rng.random() < 0.2:
                            for kind in ('User Data', 'Extended User Data'):
                                ver = rng.choice([1, 2, 3, 5])
                                sec = pelbuild.UD(data, sub=sub, ver=ver, comp=0xE500) if kind == 'User Data' else pelbuild.ED(data, creator=b'O', sub=sub, ver=ver, comp=0xE500)
                                pel = pelbuild.pel([pelbuild.UH(), sec], eid=0x0C200001)
                                try:
                                    want = json.loads(ud.parseUDToJson(sub, ver, memoryview(data)), object_pairs_hook=jsonio.pairs_hook)
                                except Exception:  # noqa
                                    continue
                                dec = apel.real_decode(pel)
                                ck.count('hardware-diagnostics section inside a PEL (%s)' % kind)
                                rp2 = rp | {'op': 'oe500 section in a PEL', 'section': kind, 'version': ver}
                                shown = dict(dec[2][1]).get(kind) if dec[0] == 'doc' else None
                                if shown is None:
                                    ck.fail('a PEL with a hardware-diagnostics %s section is not decoded' % kind, rp2 | {'actual': str(dec[:3])[:300]}, 'pel_section')
                                    continue
                                members = dict(shown[1])
                                wantc = jsonio.canon(want)
                                bad = [k for k, v in wantc[1] if members.get(k) != v] if isinstance(wantc, tuple) and wantc[0] == 'obj' else ([] if members.get('Data') == wantc else ['Data'])
                                if bad:
                                    ck.fail('a hardware-diagnostics section inside a PEL does not show what its parser gives for (subtype, version, payload)',
                                            rp2 | {'members': bad[:4]}, 'pel_section')
                # ---- SRC words 6..8 of a BMC hardware-diagnostics code are described also when a hostboot code of the same component was decoded before
                a1, b1, c1 = pick_sig(rng, chips)
                words = [0, 0, 0, 0, a1, b1, c1, 0]
                later = pelbuild.pel([pelbuild.UH(), pelbuild.SRC(asc=b'BD10E510', words=words)], creator=b'O', eid=0x0C200010)
                first_ = pelbuild.pel([pelbuild.UH(), pelbuild.SRC(asc=b'BC10E510', words=words)], creator=b'O', eid=0x0C200011)
                apel.reset_caches()
                alone = apel.real_decode(later)
                apel.reset_caches()
                apel.real_decode(first_)
                after = apel.real_decode(later)
                ck.case(key=('src-after-hostboot', rnd))
                ck.count('BMC code decoded after a hostboot code of the same component')
                if alone[:3] != after[:3]:
                    ck.fail('the signature shown for SRC words 6..8 depends on a hostboot reference code decoded before', {'op': 'history', 'history': [first_.hex(), later.hex()], 'alone': str(alone[2])[:300], 'after': str(after[2])[:300]}, 'src_history')
                # ---- a sample of the same calls in an interpreter with assertions disabled (python -O): same results
                import subprocess
                oreqs, onorm = [], []
                for m in [x for x in meta if x is not None][::max(1, len(meta) // 40)]:
                    try:
                        if m[0] == 'sig':
                            oreqs.append(['sig', m[1], m[2], m[3]]); onorm.append(json.loads(json.dumps(ParserData().get_signature(m[1], m[2], m[3]))))
                        elif m[0] == 'ud':
                            oreqs.append(['ud', m[1], m[2].hex()]); onorm.append(json.loads(ud.parseUDToJson(m[1], 1, memoryview(m[2]))))
                        else:
                            oreqs.append(['src', m[1], '%08X' % m[2], '%08X' % m[3], '%08X' % m[4]])
                            onorm.append(json.loads(sp.parseSRCToJson(m[1], '0', '0', '0', '0', '%08X' % m[2], '%08X' % m[3], '%08X' % m[4], '0')))
                    except Exception as e:  # noqa
                        onorm.append(['<raises>', type(e).__name__])
                pr = subprocess.run([common.PY, '-O', '-W', 'ignore', '-B', os.path.join(os.path.dirname(os.path.abspath(__file__)), 'opthw.py'), tmp],
                                    input=''.join(json.dumps(q) + '\n' for q in oreqs).encode(), stdout=subprocess.PIPE, stderr=subprocess.PIPE, env=common.child_env(), timeout=300)
                olines = pr.stdout.decode().split('\n')[:-1]
                if pr.returncode != 0 or len(olines) != len(oreqs):
                    ck.fail('the hardware-diagnostics decoders did not finish in a python -O interpreter', {'op': 'optimised-batch', 'exit': pr.returncode, 'stderr': pr.stderr.decode()[-300:]}, 'opt_batch')
                else:
                    for q, want, l in zip(oreqs, onorm, olines):
                        ck.case(key=('-O', rnd, json.dumps(q)))
                        ck.count('hardware diagnostics under python -O')
                        if json.loads(l) != want:
                            ck.fail('a hardware-diagnostics decoder gives a different result when assertions are disabled (python -O)',
                                    {'op': 'optimised', 'case': json.dumps(q)[:300], 'optimise': True, 'normal': str(want)[:200], 'under_O': l[:200]}, 'differs_O')
                # ---- a chip data file rewritten IN PLACE between two decodes of one process: names come from the file as it is NOW
                if chips and 'desc' in chips[0]['model_ec']:
                    a0 = int(chips[0]['model_ec']['id'], 16)
                    target = os.path.realpath(os.path.join(tmp, 'chip0.json'))
                    before = ParserData().get_signature('%08X' % a0, '00010200', '00010203')
                    changed = json.loads(json.dumps(chips[0]))
                    changed['model_ec']['desc'] = 'REWRITTEN ' + changed['model_ec']['desc']
                    st = os.stat(target)
                    with open(target, 'w') as f:
                        json.dump(changed, f)
                    os.utime(target, ns=(st.st_atime_ns, st.st_mtime_ns))
                    after = ParserData().get_signature('%08X' % a0, '00010200', '00010203')
                    ck.case(key=('rewritten chip data', rnd))
                    ck.count('chip data file rewritten in place between decodes')
                    if ('(REWRITTEN ' + chips[0]['model_ec']['desc'] + ')') not in str(after.get('Chip Desc')):
                        ck.fail('after a chip data file was rewritten in place, a later decode in the same process still shows the old description',
                                {'op': 'rewritten-chip-data', 'words': ['%08X' % a0, '00010200', '00010203'], 'before': str(before)[:200], 'after': str(after)[:200]}, 'stale_chipdata')
            finally:
                shutil.rmtree(tmp, ignore_errors=True)
    finally:
        hwdata.__file__ = orig
    return ck.finish(RULE, TRUSTED, ASSUME)


def regdump_data(data):
    out = []
    (n,) = struct.unpack('>I', data[:4])
    i = 4
    for _ in range(n):
        nr = struct.unpack('>I', data[i + 7:i + 11])[0]
        i += 11
        for _ in range(nr):
            sz = data[i + 4]
            out.append(data[i + 5:i + 5 + sz])
            i += 5 + sz
    return out


def replay(path):
    rp = json.load(open(path))
    print(json.dumps(rp, indent=1)[:3000])
    return 0
