"""C02 — header-type sections display exactly the values encoded in the log."""
import json

import apel
import common
from c01 import compare
from common import Check, lean_batch

TRUSTED = ['Lean 4.33.0 kernel (+ leanchecker in the thorough tier)',
           'axioms: propext, Classical.choice, Quot.sound only (audited per theorem)',
           'harness/extract.py (live name tables compiled into the driver, pinned against golden tables), harness/c02.py + apel.py, Drv.lean protocol parsing',
           'compiled driver peldrv agrees with the kernel reading of the same definitions']
ASSUME = ['str.format / bytes.hex / bytes.decode / str.strip are modelled, not verified',
          'the component-id registry files are an environment parameter (fixture registry installed into comp_id.componentIDs)']
RULE = ('cases = PELs whose optional sections are EH / MT / LP, with every numeric field drawn from boundary sets (0, 1, 2^k-1, 2^k, max), '
        'every name-table key and its neighbours, all creator ids incl. PHYP ASCII component ids, a fixture component-id registry, target '
        'counts 0..255 and name lengths 0..255; plus non-ASCII / invalid UTF-8 text for the correspondence only; non-trivial = any; '
        'distinct by bytes')
COMP_IDS = {'O': {'2000': 'bmc-logging', 'E500': 'hw-diags', '0000': 'zero'}, 'B': {'0100': 'hb-main', 'FFFF': 'all-ones'}}


def run(tier, seed):
    ck = Check('C02', tier, seed)
    ck.proof = common.build_and_audit('C02', thorough=(tier == 'thorough'))
    if not ck.proof['driver_ok']:
        return ck.finish(RULE, TRUSTED, ASSUME)
    from pel.peltool import pel_values as pv
    rng = ck.rng
    thorough = tier == 'thorough'
    keys = {nm: sorted(getattr(pv, nm)) for nm in ['subsystemValues', 'severityValues', 'eventTypeValues', 'eventScopeValues', 'transmissionStates']}
    env = apel.PluginEnv(allow=True, comp_ids=COMP_IDS).install()
    try:
        pels, wf = [], []
        for i in range(2500 if thorough else 500):
            p = apel.gen_pel(rng, max_sections=0)
            p['ph']['creator'] = rng.choice([ord(c) for c in 'BCHKLMOPST'] + [ord('H'), ord('H'), ord('O'), ord('B'), ord('Z'), ord('h'), 0, 0x7f])
            for h in (p['ph']['hdr'], p['uh']['hdr']):
                h['comp'] = rng.choice([0x2000, 0xE500, 0x0000, 0x0100, 0xFFFF, 0x4142, 0x4100, 0x0041, 0x7E7E, rng.randrange(65536)])
            u = p['uh']

            def around(ks, bits):
                k = rng.choice(ks)
                return rng.choice([k, k, (k + 1) % (1 << bits), (k - 1) % (1 << bits), rng.randrange(1 << bits)])
            u['subsys'] = around(keys['subsystemValues'], 8)
            u['sev'] = around(keys['severityValues'], 8)
            u['etype'] = around(keys['eventTypeValues'], 8)
            u['scope'] = around(keys['eventScopeValues'], 8)
            u['states'] = (around(keys['transmissionStates'], 8)) | (around(keys['transmissionStates'], 8) << 8) | (rng.randrange(65536) << 16 if rng.random() < 0.5 else 0)
            u['af'] = rng.choice([0, 0xFFFF, 1 << rng.randrange(16), rng.randrange(65536), 0x8000 | 0x2000, 0x4D20])
            secs = []
            for _ in range(rng.choice([0, 1, 2, 3])):
                sec = apel.gen_section(rng)
                while sec['kind'] not in ('eh', 'mt', 'lp'):
                    sec = apel.gen_section(rng)
                sec['hdr']['comp'] = rng.choice([0x2000, 0xE500, 0x4142, rng.randrange(65536)])
                secs.append(sec)
            p['sections'] = secs
            ok = True
            if i % 5 == 4 and secs:
                # leave the property's domain (printable text): the model must still follow the code
                sec = rng.choice(secs)
                fld = rng.choice([k for k in ('mtm', 'sn', 'fw', 'subfw', 'sym', 'name') if k in sec and len(sec[k]) >= 2] or ['none'])
                if fld != 'none':
                    b = bytearray(sec[fld])
                    enc = rng.choice(['é'.encode(), '😀'.encode(), b'\xff', b'\xc0\x80', b'\xed\xa0\x80', 'ü'.encode()[:1]])
                    b[:len(enc)] = enc[:len(b)]
                    sec[fld] = bytes(b[:len(sec[fld])])
                    ok = False
            pels.append(p)
            wf.append(ok)
        # designed: text fields that contain what a JSON aligner looks for (quote, colon, runs of blanks), always taken through the command-line routes
        forced = set()
        for name_, sym_ in ((b'db "east":  standby', b'A":   B'), (b'":    x', b'k": {  "v":    1}')):
            p = apel.gen_pel(rng, max_sections=0)
            p['ph']['creator'] = ord('O')
            p['sections'] = [{'kind': 'lp', 'hdr': apel.gen_hdr(rng), 'primary': 1, 'logId': 2, 'name': name_, 'targets': [1, 2], 'pad': 0},
                             {'kind': 'eh', 'hdr': apel.gen_hdr(rng), 'mtm': b'9105-22A', 'sn': b'SN12345     ', 'fw': b'FW  "1":   060  ', 'subfw': b'sub":  1        ', 'resv': 0,
                              'refTime': apel.gen_ts(rng), 'resv3': b'\0\0\0', 'sym': sym_}]
            pels.append(p)
            wf.append(True)
            forced.add(id(p))
        replies = lean_batch([env.tokens()] + ['pelspec %s %s x' % (apel.tok_cfg(), apel.tok_pel(p)) for p in pels])[1:]
        for p, ok, r in zip(pels, wf, replies):
            data = r.bytes()
            model = apel.dec_outcome(r)
            spec = apel.dec_spec(r)
            real = apel.real_decode(data)
            ck.case(key=data, sample={'creator': chr(p['ph']['creator']), 'sections': [s['kind'] for s in p['sections']], 'in_domain': ok})
            ck.count('creator %s' % ('PHYP' if p['ph']['creator'] == ord('H') else 'other'))
            ck.count('in domain' if ok else 'outside domain (non-ASCII text): correspondence only -> %s' % real[0])
            for s in p['sections']:
                ck.count('kind ' + s['kind'])
            compare(ck, p, data, real, model, spec if ok else None, label='hdr', env_kwargs=dict(allow=True, comp_ids=COMP_IDS), extra={'force_routes': id(p) in forced})
    finally:
        env.uninstall()
    return ck.finish(RULE, TRUSTED, ASSUME)


def replay(path):
    rp = json.load(open(path))
    print(json.dumps(rp, indent=1)[:3000])
    return 0
