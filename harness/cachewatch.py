"""
C19: observation of the decoder's process-wide tables and the tie to the model of their update rules.

The five pieces of state that survive a decode are module globals of the code under test:
    pel.peltool.parse_user_data.userDataParsers      (site 'ud')
    pel.peltool.src.srcParsers                       (site 'src')
    pel.peltool.src.calloutParsers                   (site 'callout')
    srcparsers.osrc.osrc.osrcParsers                 (site 'osrc')
    pel.peltool.comp_id.componentIDs / attemptedToParseCompIDs   (site 'compid')
`Watch.install()` replaces each dict by a dict subclass that records every `name in table` test (for `componentIDs`: every
truth test `if not componentIDs`) — the code keeps using them as its tables — and `importlib` as seen from the three modules by
a shim that records `import_module` calls.  From the record of one decode come
  * the ORDERED list of look-ups (site, module) the decode performed — the input of the driver op `caches`, i.e. of the model's
    `stepCaches`,
  * a cross-check of the record itself: a module is imported exactly when its name was just found not to be a key.
`tables()` reads the real dictionaries (key -> None / module present; attempted flag; componentIDs).
"""
import importlib
import sys

import apel
from common import tt, tlist

PKG = {'ud': 'udparsers', 'src': 'srcparsers', 'callout': 'calloutparsers', 'osrc': 'srcparsers'}
# modules shipped with the repository that a decode may reach (any behaviour: only their presence matters for the tables)
SHIPPED_UD = ('m2c00', 'oe500')
SHIPPED_SRC = ('oe500',)
SHIPPED_CALLOUT = ('o',)


def short(site, key):
    """'udparsers.x1111.x1111' -> 'x1111'; 'calloutparsers.xcallouts.xcallouts' -> 'x' (the names the model's environment uses)"""
    pkg = PKG[site]
    rest = key[len(pkg) + 1:] if isinstance(key, str) else ''
    name = rest[:(len(rest) - 1) // 2]
    # a key of another shape is something the code under test did (an observation, compared with the model like any other name):
    # it is handed on under a name no module of the model's environment has
    if not isinstance(key, str) or not key.startswith(pkg + '.') or rest != name + '.' + name:
        return '?%s' % (key,)
    if site == 'callout':
        if not name.endswith('callouts'):
            return '?%s' % (key,)
        name = name[:-len('callouts')]
    return name


class LogDict(dict):
    def __init__(self, site, log, init=()):
        dict.__init__(self, init)
        self.site, self.log = site, log

    def __contains__(self, k):
        hit = dict.__contains__(self, k)
        self.log.append(('lookup', self.site, k, hit))
        return hit


class CompDict(dict):
    def __init__(self, log, init=()):
        dict.__init__(self, init)
        self.log = log

    def __bool__(self):
        full = len(self) > 0
        self.log.append(('lookup', 'compid', None, full))
        return full


class ImportShim:
    """`importlib` as seen from one module of the code under test"""

    def __init__(self, log):
        self.log = log

    def import_module(self, name, package=None):
        self.log.append(('import', name))
        return importlib.import_module(name, package)

    def __getattr__(self, a):
        return getattr(importlib, a)


class Watch:
    # the process-wide state the model describes (PelModel/Plugins.lean): module -> names
    STATE = (('parse_user_data', ('userDataParsers',)), ('src', ('srcParsers', 'calloutParsers')), ('osrc', ('osrcParsers',)),
             ('comp_id', ('componentIDs', 'attemptedToParseCompIDs')))

    def __init__(self):
        self.log = []
        self.mods = None
        self.available = True     # False: the code under test no longer has the state variables the model describes
        self.why = None

    def install(self):
        """after PluginEnv.install() (which re-executes comp_id and clears the tables)"""
        from pel.peltool import parse_user_data, src, comp_id
        osrc = importlib.import_module('srcparsers.osrc.osrc')
        self.log = []
        have = {'parse_user_data': parse_user_data, 'src': src, 'osrc': osrc, 'comp_id': comp_id}
        missing = ['%s.%s' % (m, n) for m, names in self.STATE for n in names
                   if not hasattr(have[m], n) or (n != 'attemptedToParseCompIDs' and not isinstance(getattr(have[m], n), dict))]
        if missing:
            self.available = False
            self.why = 'not there (or not a dict): ' + ', '.join(missing)
            return self
        self.mods = (parse_user_data, src, comp_id, osrc)
        parse_user_data.userDataParsers = LogDict('ud', self.log, parse_user_data.userDataParsers)
        src.srcParsers = LogDict('src', self.log, src.srcParsers)
        src.calloutParsers = LogDict('callout', self.log, src.calloutParsers)
        osrc.osrcParsers = LogDict('osrc', self.log, osrc.osrcParsers)
        comp_id.componentIDs = CompDict(self.log, comp_id.componentIDs)
        shim = ImportShim(self.log)
        parse_user_data.importlib = shim
        src.importlib = shim
        osrc.importlib = shim
        return self

    def uninstall(self):
        if not self.mods:
            return
        parse_user_data, src, comp_id, osrc = self.mods
        parse_user_data.userDataParsers = dict(parse_user_data.userDataParsers)
        src.srcParsers = dict(src.srcParsers)
        src.calloutParsers = dict(src.calloutParsers)
        osrc.osrcParsers = dict(osrc.osrcParsers)
        if isinstance(comp_id.componentIDs, CompDict):
            comp_id.componentIDs = dict(comp_id.componentIDs)
        for m in (parse_user_data, src, osrc):
            m.importlib = importlib
        self.mods = None

    def rewatch_comp_ids(self):
        """after comp_id was re-executed (apel.reset_comp_ids)"""
        if not self.mods:
            return
        comp_id = self.mods[2]
        comp_id.componentIDs = CompDict(self.log, comp_id.componentIDs)

    def take(self):
        ev = list(self.log)
        del self.log[:]
        return ev

    def tables(self):
        if not self.mods:
            return None
        parse_user_data, src, comp_id, osrc = self.mods
        out = {}
        for site, d in (('ud', parse_user_data.userDataParsers), ('src', src.srcParsers), ('callout', src.calloutParsers),
                        ('osrc', osrc.osrcParsers)):
            out[site] = {short(site, k): v is not None for k, v in d.items()}
        out['attempted'] = bool(comp_id.attemptedToParseCompIDs)
        out['comp'] = {k: dict(v) for k, v in comp_id.componentIDs.items()}
        return out

    def entries(self):
        if not self.mods:
            return
        parse_user_data, src, comp_id, osrc = self.mods
        for site, d in (('ud', parse_user_data.userDataParsers), ('src', src.srcParsers), ('callout', src.calloutParsers),
                        ('osrc', osrc.osrcParsers)):
            for k, v in d.items():
                yield site, k, v


def lookups_of(events):
    """the ordered look-ups (site, name as the model knows it) of a record"""
    return [(e[1], None if e[1] == 'compid' else short(e[1], e[2])) for e in events if e[0] == 'lookup']


def record_problems(events):
    """the record must read: `name in table` False -> import_module(name), and no import without that"""
    bad = []
    pending = None
    for e in events:
        if e[0] == 'lookup':
            if pending is not None:
                bad.append('%s was not a key and was not imported' % pending)
                pending = None
            if e[1] != 'compid' and not e[3]:
                pending = e[2]
        else:
            if pending != e[1]:
                bad.append('%s imported, the table was asked for %s' % (e[1], pending))
            pending = None
    if pending is not None:
        bad.append('%s was not a key and was not imported' % pending)
    return bad


# what a None entry must mean, observably (the model's `cache_contents` is sharper for osrc: ModuleNotFoundError only)
NONE_MEANS = {'ud': ImportError, 'src': Exception, 'callout': Exception, 'osrc': Exception}


def entries_not_import_results(watch, verified):
    """the direct oracle: import every key again, with the real importlib.  An entry None must belong to a module whose import
    fails (user data: with an ImportError, because anything else is shown differently by a fresh process), a module entry must be
    the module the import yields."""
    bad = []
    for site, k, v in watch.entries():
        ident = (site, k, id(v))
        if ident in verified:
            continue
        try:
            m = importlib.import_module(k)
        except NONE_MEANS[site]:
            ok = v is None
        except Exception:
            ok = False
        else:
            ok = v is m
        if ok:
            verified.add(ident)
        else:
            bad.append('%s[%s] = %s' % (site, k, 'None' if v is None else 'module'))
    return bad


# ------------------------------------------------------------------ the model side

def tok_lookup(l):
    return 'compid' if l[0] == 'compid' else '%s %s' % (l[0], tt(l[1]))


def env_tokens(ud_fix, src_fix, co_fix, conf):
    """the import system for the op `caches`: behaviours of the modules that can be imported, why the others cannot,
    the configuration directory [(file name, {id: name})] in listing order or None"""
    def udb(b):
        return {'echo': 'echo', 'none': 'none'}.get(b[0]) or ('raises ' + tt(b[1]) if b[0] in ('raises', 'raises_import') else
                                                              'importraises ' + tt(b[1]) if b[0] == 'import_raises' else 'text ' + tt(b[1]))

    def srcb(b):
        return b[0] if b[0] in ('echo', 'raises') else 'raises' if b[0] == 'raises_import' else 'text ' + tt(b[1])

    def cob(b):
        return 'raises' if b[0] == 'raises' else 'table 0'
    uds = [(n, udb(b)) for n, b in ud_fix.items() if b[0] not in ('import_error', 'import_mnf')] + [(n, 'echo') for n in SHIPPED_UD if n not in ud_fix]
    srcs = [(n, srcb(b)) for n, b in src_fix.items() if b[0] not in apel.IMPORT_FAULT] + [(n, 'echo') for n in SHIPPED_SRC if n not in src_fix]
    src_faults = [(n, apel.IMPORT_FAULT[b[0]]) for n, b in src_fix.items() if b[0] in apel.IMPORT_FAULT]
    cos = [(n, cob(b)) for n, b in co_fix.items() if b[0] not in apel.IMPORT_FAULT] + [(n, 'table 0') for n in SHIPPED_CALLOUT if n not in co_fix]
    co_faults = [(n, apel.IMPORT_FAULT[b[0]]) for n, b in co_fix.items() if b[0] in apel.IMPORT_FAULT]

    def pair(kv):
        return tt(kv[0]) + ' ' + kv[1]
    conf_tok = '0' if conf is None else '1 ' + tlist(conf, lambda f: tt(f[0]) + ' ' + tlist(f[1].items(), lambda x: tt(x[0]) + ' ' + tt(x[1])))
    return ' '.join([tlist(uds, pair), tlist(srcs, pair), tlist(src_faults, pair), tlist(cos, pair), tlist(co_faults, pair), conf_tok])


def request(env_tok, lookups):
    return 'caches %s %s' % (env_tok, tlist(lookups, tok_lookup))


def parse_tables(r):
    """reply of `caches` -> the same shape as Watch.tables()"""
    if not r.ok:
        raise RuntimeError('caches: ' + r.raw[:200])
    out = {}
    for site in ('ud', 'src', 'callout', 'osrc'):
        d = {}
        for _ in range(r.num()):
            k = r.text()
            d[k] = bool(r.num())
        out[site] = d
    out['attempted'] = bool(r.num())
    comp = {}
    for _ in range(r.num()):
        k = r.text()
        m = {}
        for _ in range(r.num()):
            a = r.text()
            m[a] = r.text()
        comp[k] = m
    out['comp'] = comp
    return out


def diff_tables(real, model):
    out = []
    for site in ('ud', 'src', 'callout', 'osrc'):
        for k in sorted(set(real[site]) | set(model[site])):
            a, b = real[site].get(k, 'no entry'), model[site].get(k, 'no entry')
            if a != b:
                def show(x):
                    return x if x == 'no entry' else ('module' if x else 'None')
                out.append('%s[%s]: code %s, model %s' % (site, k, show(a), show(b)))
    if real['attempted'] != model['attempted']:
        out.append('attemptedToParseCompIDs: code %s, model %s' % (real['attempted'], model['attempted']))
    if real['comp'] != model['comp']:
        out.append('componentIDs: code %r, model %r' % (real['comp'], model['comp']))
    return out
