"""
Translator for constants and tables: imports the LIVE modules of /repo and writes
lean/PelGen/Live.lean.  Every value is an `Option`: `none` means the source name no longer exists
(reported as PIN-UNAVAILABLE; not a violation by itself, the behavioural correspondence still covers it).
PelProps/Pins*.lean proves that every available live constant equals the constant the specs use.
"""
import importlib
import os
import sys

sys.dont_write_bytecode = True
VERIF = os.path.dirname(os.path.dirname(os.path.abspath(__file__)))
REPO = os.environ.get('VERIF_REPO', '/repo')
sys.path.insert(0, os.path.join(REPO, 'modules'))

out = []
unavailable = []


def fetch(mod, path):
    m = importlib.import_module(mod)
    v = m
    for p in path.split('.'):
        v = getattr(v, p)
    return v


def lean_text(s):
    return '[' + ', '.join(str(ord(c)) for c in s) + ']'


def emit(name, ty, getter, render):
    try:
        v = getter()
        out.append('def %s : Option (%s) := some (%s)' % (name, ty, render(v)))
    except Exception as e:  # noqa
        unavailable.append('%s (%s: %s)' % (name, type(e).__name__, e))
        out.append('def %s : Option (%s) := none' % (name, ty))


def nat(v):
    if isinstance(v, bool) or not isinstance(v, int) or v < 0:
        raise TypeError('not a natural number: %r' % (v,))
    return str(v)


def enumval(v):
    return nat(v.value)


def text(v):
    if not isinstance(v, str):
        raise TypeError('not a str')
    return lean_text(v)


def bytes_(v):
    return '[' + ', '.join(str(x) for x in bytes(v)) + ']'


def natlist(v):
    return '[' + ', '.join(nat(x) for x in v) + ']'


def textlist(v):
    return '[' + ', '.join(text(x) for x in v) + ']'


def nat_text_table(v):
    return '[' + ', '.join('(%s, %s)' % (nat(k), text(x)) for k, x in v.items()) + ']'


def text_text_table(v):
    return '[' + ', '.join('(%s, %s)' % (text(k), text(x)) for k, x in v.items()) + ']'


def text_nat_table(v):
    return '[' + ', '.join('(%s, %s)' % (text(k), nat(x)) for k, x in v.items()) + ']'


N, T = 'Nat', 'List Nat'
# --- C13 / C17: hex-dump templates
emit('hexDefaultFormat', T, lambda: fetch('pel.hexdump', 'DEFAULT_LINE_FORMAT'), text)
emit('hexBmcFormat', T, lambda: fetch('io_drawer.dump', 'HEX_DUMP_LINE_FORMATS')[0], text)
emit('hexPreFormat', T, lambda: fetch('io_drawer.dump', 'HEX_DUMP_LINE_FORMATS')[1], text)
emit('hexFormatCount', N, lambda: len(fetch('io_drawer.dump', 'HEX_DUMP_LINE_FORMATS')), nat)
emit('traceHeaderStart', T, lambda: fetch('io_drawer.dump', 'TRACE_BUFFER_HEADER_START'), bytes_)
emit('traceBufferNames', 'List (List Nat)', lambda: fetch('io_drawer.trace', 'TraceBufferHeader.BUFFER_NAMES'), textlist)
emit('dividerLine', T, lambda: fetch('io_drawer.dump', 'DIVIDER_LINE'), text)
# --- C07: selection constants
emit('hiddenActionFlag', N, lambda: fetch('pel.peltool.pel_types', 'ActionFlagsValues.hiddenActionFlag'), enumval)
emit('reportFlag', N, lambda: fetch('pel.peltool.pel_types', 'ActionFlagsValues.reportFlag'), enumval)
emit('serviceActionFlag', N, lambda: fetch('pel.peltool.pel_types', 'ActionFlagsValues.serviceActionFlag'), enumval)
emit('infoSeverity', N, lambda: fetch('pel.peltool.pel_types', 'SeverityValues.infoSeverity'), enumval)
emit('critSysTermSeverity', N, lambda: fetch('pel.peltool.pel_types', 'SeverityValues.critSysTermSeverity'), enumval)
emit('severityGroupValues', 'List (List Nat × Nat)', lambda: fetch('pel.peltool.pel_values', 'severityGroupValues'), text_nat_table)
# --- C01/C02/C03: section ids, names and the published tables
emit('sectionNames', 'List (List Nat × List Nat)', lambda: fetch('pel.peltool.pel_values', 'sectionNames'), text_text_table)
emit('creatorIDs', 'List (List Nat × List Nat)', lambda: fetch('pel.peltool.pel_values', 'creatorIDs'), text_text_table)
for nm in ['subsystemValues', 'severityValues', 'eventTypeValues', 'eventScopeValues', 'actionFlagsValues',
           'transmissionStates', 'failingComponentType', 'calloutPriorityValues']:
    emit(nm, 'List (Nat × List Nat)', (lambda nm=nm: fetch('pel.peltool.pel_values', nm)), nat_text_table)
for nm in ['privateHeader', 'userHeader', 'primarySRC', 'secondarySRC', 'extendedUserHeader', 'failingMTMS',
           'impactedPart', 'userData', 'extUserData']:
    emit('sid_' + nm, N, (lambda nm=nm: fetch('pel.peltool.pel_types', 'SectionID.' + nm)), enumval)
for nm in ['additionalSections', 'hypDumpInit', 'i5OSServiceEventBit', 'virtualProgressSRC']:
    emit('hf_' + nm, N, (lambda nm=nm: fetch('pel.peltool.src', 'HeaderFlags.' + nm)), enumval)
for nm in ['terminateFwErr', 'deconfigured', 'guarded']:
    emit('es_' + nm, N, (lambda nm=nm: fetch('pel.peltool.src', 'ErrorStatusFlags.' + nm)), enumval)
for nm in ['pnSupplied', 'ccinSupplied', 'maintProcSupplied', 'snSupplied']:
    emit('fru_' + nm, N, (lambda nm=nm: fetch('pel.peltool.src', 'Flags.' + nm)), enumval)
for nm in ['json', 'cbor', 'text', 'custom']:
    emit('udf_' + nm, N, (lambda nm=nm: fetch('pel.peltool.parse_user_data', 'UserDataFormat.' + nm)), enumval)
for nm in ['bmcError', 'powerError', 'hostbootError']:
    emit('srcType_' + nm, T, (lambda nm=nm: fetch('pel.peltool.pel_types', 'SRCType.' + nm).value), text)
# --- C14 / C15 / C16 / C18
for nm in ['ILOG_ENTRY_SIZE', 'ERROR_MASK', 'ERROR_VALUE', 'REPORTED_MASK', 'REPORTED_VALUE']:
    emit('ilog_' + nm, N, (lambda nm=nm: fetch('io_drawer.ilog', nm)), nat)
emit('trace_HDR_SIZE', N, lambda: fetch('io_drawer.trace', 'TraceBufferHeader.SIZE'), nat)
for nm in ['FIXED_SIZE', 'MAX_DATA_LEN', 'TYPE_FIELDTRACE', 'TYPE_FIELDBIN', 'MAX_ARGS']:
    emit('trace_' + nm, N, (lambda nm=nm: fetch('io_drawer.trace', 'TraceEntry.' + nm)), nat)
for nm in ['SUB_TYPE_HLOG', 'SUB_TYPE_ILOG', 'SUB_TYPE_TRACE']:
    emit('m2c00_' + nm, N, (lambda nm=nm: fetch('udparsers.m2c00.m2c00', nm)), nat)
emit('drawerVersions', 'List (List Nat × Nat)',
     lambda: {d.name: d.user_data_version for d in fetch('io_drawer.drawer_type', 'DRAWER_TYPES')}, text_nat_table)

body = ('/- GENERATED by harness/extract.py from the live modules of the repository under test.\n'
        '   Do not edit: rewritten on every check run. -/\n'
        'namespace Pel.Live\n' + '\n'.join(out) + '\nend Pel.Live\n')
path = os.path.join(VERIF, 'lean', 'PelGen', 'Live.lean')
old = open(path).read() if os.path.exists(path) else None
if old != body:
    with open(path, 'w') as f:
        f.write(body)
for u in unavailable:
    print('PIN-UNAVAILABLE ' + u)
print('extracted %d constants, %d unavailable' % (len(out), len(unavailable)))

# --- source-to-Lean translators (harness/trans_*.py -> lean/PelGen/Gen*.lean), see harness/pytrans.py
import glob
sys.path.insert(0, os.path.join(VERIF, 'harness'))
ngen = 0
for tp in sorted(glob.glob(os.path.join(VERIF, 'harness', 'trans_*.py'))):
    mod = importlib.import_module(os.path.basename(tp)[:-3])
    gen = mod.generate(REPO, VERIF)          # -> pytrans.GenFile (definitions collected, nothing raised)
    for u in gen.write(build=os.environ.get('VERIF_TRANS_NOBUILD') != '1'):
        print('TRANSLATION-UNAVAILABLE ' + u)
    ngen += len(gen.defs)
print('translated %d functions from the source text' % ngen)
