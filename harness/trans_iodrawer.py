"""
Source-to-Lean translator, stream `iodrawer`: pure helper functions of the I/O-drawer decoders and of the hardware
diagnostics data wrapper (properties C14, C15, C16, C20).  Output: lean/PelGen/GenIoDrawer.lean; the ties are proved in
lean/PelProps/TieC14|TieC15|TieC16|TieC20.lean (lemmas: lean/PelProofs/TieIoDrawer.lean).

The translator walks the AST of the CURRENT source text.  Everything that decides behaviour comes from the AST: integer
and string literals (masks, moduli, widths, slice bounds, format strings, dictionary keys), the VALUES of module / class
constants (read from their defining assignment), comparison and arithmetic operators, the order of statements and of `if`
branches, which default belongs to which look-up.  Local variables are renamed x1, x2, ... in binding order, so their
names do not matter; `self.<member>` names are resolved through `__init__` (see below), so they do not matter either.
Anything not listed here raises pytrans.Untranslatable (-> `none`, TRANSLATION-UNAVAILABLE).

TRUSTED NAME MAP / IDIOM TABLE  (Python  ->  Lean; `IoSem.` = lean/PelModel/IoDrawerSem.lean, everything else = the model)
---------------------------------------------------------------------------------------------------------------------
values
  int known to be >= 0 (parameters that come from get_int / int(..,16), literals, + * // % & | ^ << >> of those)  -> Nat
  a - b, -a                                            -> Int (both sides cast); // and % only by a POSITIVE literal
  x & ~m                                               -> IoSem.andNot x m
  a < b, <=, >, >=                                      -> decide (a < b) ... (on Int as soon as one side is an Int)
  a == b, a != b                                        -> (a == b), (a != b);   x is None / is not None -> .isNone / .isSome
  `is not None` on a member that the model does not make optional (TraceEntry.data of a read entry)   -> true
  and / or / not on bools                              -> && || !  (operands are pure: no short-circuit effect)
  truth value of an int / Optional / str               -> (x != 0) / .isSome / !x.isEmpty
  str literal                                          -> list of code points;  b''  -> []
  f'{v:SPEC}', '...' % (..), '...'.format(..)          -> pieces joined with ++ ; {v} {v:d} %d %s str(v) -> natDec v,
       {v:0Wd} -> fmtDec0 W v, {v:Wd} -> fmtDecSp W v, {v:0WX} -> fmtHex W v, {v:0{E}X} -> fmtHex E v (Int: IoSem.natDecI ...)
  t[a:b] (literal bounds)                              -> IoSem.slice t a b
  t.lower() / t.upper()                                -> lowerT t / upperT t
  t.rstrip(c) / t.lstrip(c)  (one-character literal)   -> rstripChar c t / lstripChar c t
  str(b, encoding='ascii', errors='ignore')            -> IoSem.asciiIgnore b
  int(t, base=16)                                      -> parseHexText t   (t is made of hex digits: guaranteed by _check_hex)
  memoryview(x), tuple(x), list(x)                     -> x
  (f(p) for p in xs if c)  inside tuple()/list()       -> (xs.filter (fun p => c)).map (fun p => f)
  format_timestamp(t)                                  -> formatTimestamp t
classes (members are resolved by POSITION, never by name)
  PTETableEntry.__init__(p0..p4): a member assigned from parameter 0/1/2 is e.pattern / e.fmt / e.params (3, 4 unused);
       further assignments in __init__ are evaluated symbolically (the 1..4 filter of the parameters; the compiled pattern);
       re.compile(X.replace('*', '.'), re.IGNORECASE).fullmatch(t) -> IoSem.wildFullmatch X t
  TraceString.__init__(p0,p1,p2): member assigned from parameter 0/1/2 is t.hash / t.fmt / t.location
  TraceEntry.__init__: the i-th `self.m = None` is the i-th field of the model structure TraceEntry
       (tbh tbl length tag hash line data); TraceBufferHeader.__init__: the i-th is the i-th field of IoSem.TraceHeaderPy
  TraceStringFile / PTETable: the member initialised with [] in __init__ is the list the loader fills (parameter `ss` / `tbl`)
  self.CONST / Class.CONST / module CONST              -> the literal in its (unique) defining assignment
  self._is_exact_match / _is_reported_error_pte / matches / get_message  -> isExactMatch e / isReportedError / pteMatches e / pteMessage e
  x.is_match(h) / x.is_partial_match(h) / x.get_message(args) -> (x.hash == h) / isPartialMatch x h / pyFmtOrRaw x.fmt args
  self.is_binary_trace()                               -> isBinaryTrace e
  table.get_entry(p)                                   -> getEntry tbl p
streams (pel.datastream.DataStream, trusted semantics in IoSem)
  DataStream(d, byte_order='big', is_signed=False)     -> IoSem.Stream.new d
  s.check_range(n) / s.get_int(n) / s.get_mem(n) / s.inc_index(n) -> IoSem.checkRange / getInt / getMem / incIndex (AssertionError = .raised)
  s.index                                              -> st.index
  reader methods `read(self, stream) -> bool`: `return True` -> .ok (members, stream), `return False` -> .no
loops
  for x in xs: body     -> IoSem.forEach xs state (fun x state => body)   (state = the variables the body assigns; break / continue / return)
  for _ in range(n): body (loop variable unused)       -> IoSem.repeatN n state body
  while s.check_range(n): body                         -> IoSem.whileLoop fuel state (fun state => if check then body else break);
       fuel = bytes of s + 1 is the translator's GUESS and is not trusted: if it is too small the result is .unknown, which no tie accepts
  xs.append(v) / xs.extend(ys)                         -> xs ++ [v] / xs ++ ys
  if x is not None: A else: B   (x holds an Optional)   -> match x with | some v => A[v] | none => B
  x: T = e                                             -> x = e
decoder entry points (the file-name parameter is not modelled: the model takes the loaded table as a parameter)
  table = PTETable(path); table.get_entry(p); entry.get_message(p) -> tbl; getEntry tbl p; pteMessage entry p (none = .unknown)
  get_hlog_fields(path)                                -> fields; f.<i-th member of the namedtuple HistoryLogField> -> f.1 / f.2
       (checked: get_hlog_fields builds its entries with one positional HistoryLogField(name, size) call)
  hexdump(d)                                           -> hexdump16 d
hardware diagnostics (ParserData)
  self._data[k]  (_data = the member __init__ initialises with {})  -> IoSem.dataGet cd k
  D["model_ec"]["type"|"desc"], D["attn_types"][k], D["signatures"|"registers"][k][0], ...[k][1][j]
                                                       -> .bind (·.type|·.desc), .bind (·.attnTypes) + lookupTT, .bind (·.signatures|·.registers) + lookup3 + .1, + .2 + lookupTT
  try: v = CHAIN [; v = f(v)]  except KeyError: v = d  -> ((CHAIN).map f).getD d
  try: m = F % args  except Exception: m = F           -> pyFmtOrRaw F args   (none = format outside the modelled subset)
  self._check_hex(t, n)  (statement)                   -> if IoSem.checkHex t n then ... else none      (none = AssertionError)
  self._check_int(v, n)  (statement)                   -> if IoSem.checkInt v n then ... else none
  self.get_chip_desc / get_sig_desc / get_attn_desc    -> IoSem.chipDescA / sigDescA / attnDescA cd (the model function behind its assertions)
  out = OrderedDict(); out[K] = v ...; return out      -> J.obj [(K, .str v), ...] in assignment order
"""
import ast
import re
import string

import pytrans
from pytrans import Untranslatable as U

NAT, INT, BOOL, TEXT, BYTES, UNIT, STREAM, NONE = 'nat', 'int', 'bool', 'text', 'bytes', 'unit', 'stream', 'none'


def Opt(t):
    return ('opt', t)


def Lst(t):
    return ('list', t)


def Struct(n):
    return ('struct', n)


LEAN_TY = {NAT: 'Nat', INT: 'Int', BOOL: 'Bool', TEXT: 'Pel.Text', BYTES: 'Pel.Bytes', STREAM: 'IoSem.Stream'}


class V:
    """a typed Lean term; `sym` = translator-level value that has no Lean term of its own"""

    def __init__(self, t, ty, raises=False, sym=None):
        self.t, self.ty, self.raises, self.sym = t, ty, raises, sym


def lit_text(sv):
    return '(' + pytrans.lean_text(sv) + ' : Pel.Text)' if sv == '' else pytrans.lean_text(sv)


def where(node):
    return 'line %d' % getattr(node, 'lineno', 0)


# ---------------------------------------------------------------------------------------------------------------------
# module / class facts read from the AST

class Module:
    def __init__(self, repo, rel):
        self.rel = rel
        import warnings
        with warnings.catch_warnings():
            warnings.simplefilter('ignore')          # invalid escape sequences in the regex literals of the modules
            self.tree = pytrans.load_module_ast(repo, rel)
        for n in ast.walk(self.tree):
            if isinstance(n, (ast.Global, ast.Nonlocal)):
                raise U('%s uses global/nonlocal' % rel)

    def _consts(self, body):
        seen = {}
        for st in body:
            names = []
            if isinstance(st, ast.Assign):
                for t in st.targets:
                    for n in ast.walk(t):
                        if isinstance(n, ast.Name):
                            names.append(n.id)
            elif isinstance(st, (ast.AugAssign, ast.AnnAssign)) and isinstance(st.target, ast.Name):
                names.append(st.target.id)
            for nm in names:
                seen.setdefault(nm, []).append(st)
        return seen

    def const(self, name, cls=None):
        """value of a module-level (or class-level) constant: its unique defining assignment must be `NAME = <int literal>`"""
        body = self.tree.body
        if cls is not None:
            body = self.cls(cls).body
        defs = self._consts(body).get(name)
        if not defs:
            return None
        scope = self.tree if cls is None else self.cls(cls)
        stores = [n for n in ast.walk(scope) if (isinstance(n, ast.Name) and n.id == name and isinstance(n.ctx, (ast.Store, ast.Del)))
                  or (cls is not None and isinstance(n, ast.Attribute) and n.attr == name and isinstance(n.ctx, (ast.Store, ast.Del)))]
        if len(stores) != 1:
            raise U('constant %s is assigned in more than one place' % name)
        if len(defs) != 1 or not isinstance(defs[0], ast.Assign) or len(defs[0].targets) != 1 or not isinstance(defs[0].targets[0], ast.Name):
            raise U('constant %s is not defined by one plain assignment' % name)
        return pytrans.const_int(defs[0].value)

    def cls(self, name):
        found = [n for n in self.tree.body if isinstance(n, ast.ClassDef) and n.name == name]
        if len(found) != 1:
            raise U('class %s not found (or defined twice)' % name)
        if found[0].decorator_list or found[0].keywords:
            raise U('class %s has decorators/keywords' % name)
        return found[0]

    def fn(self, qual):
        parts = qual.split('.')
        body = self.tree.body if len(parts) == 1 else self.cls(parts[0]).body
        found = [n for n in body if isinstance(n, (ast.FunctionDef, ast.AsyncFunctionDef)) and n.name == parts[-1]]
        if len(found) != 1 or not isinstance(found[0], ast.FunctionDef):
            raise U('function %s not found (or defined twice)' % qual)
        f = found[0]
        if f.decorator_list:
            raise U('%s has decorators' % qual)
        a = f.args
        if a.vararg or a.kwarg or a.kwonlyargs or a.posonlyargs or a.defaults or a.kw_defaults:
            raise U('%s: unexpected argument list' % qual)
        return f


def params_of(f, n_expected, is_method):
    names = [a.arg for a in f.args.args]
    if is_method:
        if not names or names[0] != 'self':
            raise U('%s: first parameter is not self' % f.name)
        names = names[1:]
    if len(names) != n_expected:
        raise U('%s: %d parameters expected, %d found' % (f.name, n_expected, len(names)))
    if len(set(names)) != len(names):
        raise U('%s: duplicate parameter' % f.name)
    return names


# ---------------------------------------------------------------------------------------------------------------------
# the translator of one function body

class Tr:
    def __init__(self, mod, cls=None, mode='pure'):
        self.mod = mod
        self.cls = cls                   # class name or None
        self.mode = mode                 # 'pure' | 'opt' (none = exception) | 'check' (Bool: returns normally) | 'rd' (IoSem.Res)
        self.n = 0
        self.nst = 0
        self.loops = []                  # stack of state-key lists
        self.struct_fields = {}          # struct name -> {attr: (lean field, type)}
        self.struct_methods = {}         # struct name -> {method: fn(tr, recv V, args [V]) -> V}
        self.self_methods = {}           # method name -> fn(tr, args [V]) -> V
        self.funcs = {}                  # global function name -> fn(tr, args, kwargs) -> V
        self.reader = None               # for `read` methods: (constructor text builder)
        self.data_root = None            # Lean term for self._data's owner (`cd`)
        self.data_attr = None
        self.ret_ty = None

    # --- names
    def fresh(self):
        self.n += 1
        return 'x%d' % self.n

    def fresh_st(self):
        self.nst += 1
        return 'st%d' % self.nst

    # --- casts
    def as_int(self, v, node=None):
        if v.ty == INT:
            return v.t
        if v.ty == NAT:
            return '(%s : Int)' % v.t if re.fullmatch(r'\d+', v.t) else '((%s : Nat) : Int)' % v.t
        raise U('integer expected at %s' % where(node))

    def need(self, v, ty, node=None):
        if v.ty != ty:
            raise U('%s expected, %s found at %s' % (ty, v.ty, where(node)))
        return v

    # --- constants
    def const_lookup(self, name, cls=None):
        val = self.mod.const(name, cls)
        if val is None:
            return None
        if val < 0:
            raise U('negative constant %s' % name)
        return V(str(val), NAT)

    # --- expressions ------------------------------------------------------------------------------------------------
    def expr(self, node, env):
        m = getattr(self, 'e_' + type(node).__name__, None)
        if m is None:
            raise U('expression %s at %s' % (type(node).__name__, where(node)))
        return m(node, env)

    def e_Constant(self, node, env):
        c = node.value
        if c is None:
            return V('none', NONE)
        if isinstance(c, bool):
            return V('true' if c else 'false', BOOL)
        if isinstance(c, int):
            if c < 0:
                raise U('negative literal')
            return V(str(c), NAT)
        if isinstance(c, str):
            return V(lit_text(c), TEXT)
        if isinstance(c, bytes):
            return V('([%s] : Pel.Bytes)' % ', '.join(str(b) for b in c), BYTES)
        raise U('literal %r at %s' % (c, where(node)))

    def e_Name(self, node, env):
        if node.id in env:
            return env[node.id]
        v = self.const_lookup(node.id)
        if v is None:
            raise U('unknown name %s at %s' % (node.id, where(node)))
        return v

    def e_Attribute(self, node, env):
        base = node.value
        if isinstance(base, ast.Name) and base.id == 'self' and 'self' not in env:
            key = ('self', node.attr)
            if key in env:
                v = env[key]
                if v.ty == 'opaque':
                    raise U('member %s is not part of the model' % node.attr)
                if self.cls and self.mod.const(node.attr, self.cls) is not None:
                    raise U('%s is both a member and a class constant' % node.attr)
                return v
            if self.cls:
                v = self.const_lookup(node.attr, self.cls)
                if v is not None:
                    return v
            raise U('unknown member self.%s at %s' % (node.attr, where(node)))
        if isinstance(base, ast.Name) and base.id not in env and self.cls == base.id:
            v = self.const_lookup(node.attr, self.cls)
            if v is not None:
                return v
        bv = self.expr(base, env)
        if bv.ty == STREAM:
            if node.attr == 'index':
                return V('%s.index' % bv.t, NAT)
            if node.attr == 'size':
                return V('%s.data.length' % bv.t, NAT)
        if isinstance(bv.ty, tuple) and bv.ty[0] == 'struct':
            fm = self.struct_fields.get(bv.ty[1], {})
            if node.attr in fm:
                lf, ty = fm[node.attr]
                return V('%s.%s' % (bv.t, lf), ty)
        raise U('attribute .%s at %s' % (node.attr, where(node)))

    def pos_literal(self, node, env):
        v = self.expr(node, env)
        if v.ty == NAT and re.fullmatch(r'\d+', v.t) and int(v.t) > 0:
            return v
        raise U('// and % need a positive literal divisor (%s)' % where(node))

    def e_BinOp(self, node, env):
        op = type(node.op).__name__
        if op == 'Mod' and (isinstance(node.left, ast.Constant) and isinstance(node.left.value, str)):
            return self.percent(node, env)
        if op == 'BitAnd' and isinstance(node.right, ast.UnaryOp) and isinstance(node.right.op, ast.Invert):
            a = self.need(self.expr(node.left, env), NAT, node)
            b = self.need(self.expr(node.right.operand, env), NAT, node)
            return V('(IoSem.andNot %s %s)' % (a.t, b.t), NAT)
        a = self.expr(node.left, env)
        if op in ('FloorDiv', 'Mod'):
            b = self.pos_literal(node.right, env)
            sym = '/' if op == 'FloorDiv' else '%'
            if a.ty == NAT:
                return V('(%s %s %s)' % (a.t, sym, b.t), NAT)
            if a.ty == INT:
                return V('(%s %s (%s : Int))' % (a.t, sym, b.t), INT)
            raise U('arithmetic on %s at %s' % (a.ty, where(node)))
        b = self.expr(node.right, env)
        if op == 'Add' and a.ty == b.ty and a.ty in (TEXT, BYTES):
            return V('(%s ++ %s)' % (a.t, b.t), a.ty)
        if op == 'Sub':
            return V('(%s - %s)' % (self.as_int(a, node), self.as_int(b, node)), INT)
        if op in ('Add', 'Mult'):
            sym = '+' if op == 'Add' else '*'
            if a.ty == NAT and b.ty == NAT:
                return V('(%s %s %s)' % (a.t, sym, b.t), NAT)
            return V('(%s %s %s)' % (self.as_int(a, node), sym, self.as_int(b, node)), INT)
        bit = {'BitAnd': '&&&', 'BitOr': '|||', 'BitXor': '^^^', 'LShift': '<<<', 'RShift': '>>>'}
        if op in bit:
            self.need(a, NAT, node)
            self.need(b, NAT, node)
            return V('(%s %s %s)' % (a.t, bit[op], b.t), NAT)
        raise U('operator %s at %s' % (op, where(node)))

    def e_UnaryOp(self, node, env):
        if isinstance(node.op, ast.Not):
            return V('(!%s)' % self.cond(node.operand, env), BOOL)
        if isinstance(node.op, ast.USub):
            return V('(-%s)' % self.as_int(self.expr(node.operand, env), node), INT)
        raise U('unary operator at %s' % where(node))

    def e_BoolOp(self, node, env):
        vs = [self.expr(x, env) for x in node.values]
        for v in vs:
            self.need(v, BOOL, node)
        sym = ' && ' if isinstance(node.op, ast.And) else ' || '
        return V('(' + sym.join(v.t for v in vs) + ')', BOOL)

    def e_Compare(self, node, env):
        operands = [node.left] + list(node.comparators)
        parts = []
        for i, op in enumerate(node.ops):
            parts.append(self.compare1(op, operands[i], operands[i + 1], env, node))
        return V(parts[0] if len(parts) == 1 else '(' + ' && '.join(parts) + ')', BOOL)

    def compare1(self, op, ln, rn, env, node):
        opn = type(op).__name__
        a, b = self.expr(ln, env), self.expr(rn, env)
        if opn in ('Is', 'IsNot'):
            if b.ty != NONE:
                raise U('`is` is only understood with None (%s)' % where(node))
            if isinstance(a.ty, tuple) and a.ty[0] == 'opt':
                return '(%s).%s' % (a.t, 'isNone' if opn == 'Is' else 'isSome')
            if a.ty in (BYTES, TEXT, NAT) or (isinstance(a.ty, tuple) and a.ty[0] in ('struct', 'list')):
                return 'false' if opn == 'Is' else 'true'
            raise U('`is None` on %s at %s' % (a.ty, where(node)))
        order = {'Lt': '<', 'LtE': '≤', 'Gt': '>', 'GtE': '≥'}
        if opn in order:
            if a.ty == NAT and b.ty == NAT:
                return '(decide (%s %s %s))' % (a.t, order[opn], b.t)
            return '(decide (%s %s %s))' % (self.as_int(a, node), order[opn], self.as_int(b, node))
        if opn in ('Eq', 'NotEq'):
            sym = '==' if opn == 'Eq' else '!='
            if a.ty == b.ty and a.ty in (NAT, TEXT, BYTES, BOOL, INT):
                return '(%s %s %s)' % (a.t, sym, b.t)
            if {a.ty, b.ty} == {NAT, INT}:
                return '(%s %s %s)' % (self.as_int(a, node), sym, self.as_int(b, node))
            raise U('== between %s and %s at %s' % (a.ty, b.ty, where(node)))
        raise U('comparison %s at %s' % (opn, where(node)))

    def truthy(self, v, node):
        if v.ty == BOOL:
            return v.t
        if v.ty == NAT:
            return '(%s != 0)' % v.t
        if v.ty == INT:
            return '(%s != (0 : Int))' % v.t
        if isinstance(v.ty, tuple) and v.ty[0] == 'opt':
            return '(%s).isSome' % v.t
        if v.ty in (TEXT, BYTES) or (isinstance(v.ty, tuple) and v.ty[0] == 'list'):
            return '(!(%s).isEmpty)' % v.t
        raise U('truth value of %s at %s' % (v.ty, where(node)))

    def cond(self, node, env):
        """Bool term for the truth value of an expression"""
        if isinstance(node, ast.BoolOp):
            sym = ' && ' if isinstance(node.op, ast.And) else ' || '
            return '(' + sym.join(self.cond(x, env) for x in node.values) + ')'
        if isinstance(node, ast.UnaryOp) and isinstance(node.op, ast.Not):
            return '(!%s)' % self.cond(node.operand, env)
        return self.truthy(self.expr(node, env), node)

    def e_IfExp(self, node, env):
        c = self.cond(node.test, env)
        a, b = self.expr(node.body, env), self.expr(node.orelse, env)
        if a.ty != b.ty:
            raise U('conditional expression with different types at %s' % where(node))
        return V('(if %s then %s else %s)' % (c, a.t, b.t), a.ty)

    def e_Tuple(self, node, env):
        vs = [self.expr(x, env) for x in node.elts]
        if len(vs) < 2:
            raise U('short tuple at %s' % where(node))
        return V('(' + ', '.join(v.t for v in vs) + ')', ('tuple', tuple(v.ty for v in vs)))

    def e_List(self, node, env):
        if node.elts:
            vs = [self.expr(x, env) for x in node.elts]
            if any(v.ty != vs[0].ty for v in vs):
                raise U('mixed list at %s' % where(node))
            return V('[' + ', '.join(v.t for v in vs) + ']', Lst(vs[0].ty))
        return V('([] : List _)', Lst(None))

    def e_Subscript(self, node, env):
        sl = node.slice
        if isinstance(sl, ast.Slice):
            if sl.step is not None:
                raise U('slice step')
            v = self.expr(node.value, env)
            if v.ty not in (TEXT, BYTES) and not (isinstance(v.ty, tuple) and v.ty[0] == 'list'):
                raise U('slice of %s at %s' % (v.ty, where(node)))
            lo = 0 if sl.lower is None else pytrans.const_int(sl.lower)
            if lo < 0:
                raise U('negative slice bound')
            if sl.upper is None:
                return V('(List.drop %d %s)' % (lo, v.t), v.ty)
            hi = pytrans.const_int(sl.upper)
            if hi < 0:
                raise U('negative slice bound')
            return V('(IoSem.slice %s %d %d)' % (v.t, lo, hi), v.ty)
        if self.is_data_chain(node):
            raise U('dictionary look-up outside try/except KeyError at %s' % where(node))
        v = self.expr(node.value, env)
        if isinstance(v.ty, tuple) and v.ty[0] == 'list' and v.ty[1] is not None:
            i = self.expr(sl, env)
            return V('(IoSem.index? %s %s)' % (v.t, self.as_int(i, node)), v.ty[1], raises=True)   # raises: the term is an Option
        raise U('subscript at %s' % where(node))

    def e_JoinedStr(self, node, env):
        pieces = []
        for part in node.values:
            if isinstance(part, ast.Constant) and isinstance(part.value, str):
                pieces.append(('lit', part.value))
            elif isinstance(part, ast.FormattedValue):
                if part.conversion != -1:
                    raise U('!r/!s/!a conversion')
                pieces.append(('val', self.expr(part.value, env), self.fspec(part.format_spec, env)))
            else:
                raise U('f-string part')
        return self.join_pieces(pieces, node)

    def fspec(self, spec, env):
        """format spec -> (zero flag, width: None | int | V, type letter or '')"""
        if spec is None:
            return (False, None, '')
        if not isinstance(spec, ast.JoinedStr):
            raise U('format spec')
        vals = spec.values
        if all(isinstance(x, ast.Constant) for x in vals):
            return self.parse_spec(''.join(x.value for x in vals))
        if (len(vals) == 3 and isinstance(vals[0], ast.Constant) and vals[0].value == '0' and isinstance(vals[1], ast.FormattedValue)
                and vals[1].conversion == -1 and vals[1].format_spec is None and isinstance(vals[2], ast.Constant) and vals[2].value in ('X', 'x', 'd')):
            w = self.need(self.expr(vals[1].value, env), NAT, spec)
            return (True, w, vals[2].value)
        raise U('nested format spec of an unknown shape')

    @staticmethod
    def parse_spec(text):
        m = re.fullmatch(r'(0?)([1-9][0-9]*)?([dXxs]?)', text)
        if not m:
            raise U('format spec %r' % text)
        return (m.group(1) == '0', int(m.group(2)) if m.group(2) else None, m.group(3))

    def fmt_value(self, v, spec, node):
        zero, width, ty = spec
        if v.ty == TEXT:
            if ty in ('', 's') and width is None and not zero:
                return v.t
            raise U('format spec on a string at %s' % where(node))
        if v.ty not in (NAT, INT):
            raise U('formatting a value of type %s at %s' % (v.ty, where(node)))
        if ty == 's':
            if width is not None or zero:
                raise U('%s with width')
            ty = ''
        w = None if width is None else (width.t if isinstance(width, V) else str(width))
        suffix = 'I' if v.ty == INT else ''
        pre = 'IoSem.' if v.ty == INT else ''
        if ty in ('', 'd'):
            if w is None:
                return '(%snatDec%s %s)' % (pre, suffix, v.t)
            return '(%s%s%s %s %s)' % (pre, 'fmtDec0' if zero else 'fmtDecSp', suffix, w, v.t)
        if ty == 'X':
            if w is None:
                return '(%sfmtHex%s 1 %s)' % (pre, suffix, v.t)
            if zero:
                return '(%sfmtHex%s %s %s)' % (pre, suffix, w, v.t)
        if ty == 'x' and v.ty == NAT:
            if w is None:
                return '(fmtHexL 1 %s)' % v.t
            if zero:
                return '(fmtHexL %s %s)' % (w, v.t)
        raise U('format spec at %s' % where(node))

    def join_pieces(self, pieces, node):
        out = []
        for p in pieces:
            if p[0] == 'lit':
                if p[1]:
                    out.append(pytrans.lean_text(p[1]))
            else:
                out.append(self.fmt_value(p[1], p[2], node))
        if not out:
            return V('([] : Pel.Text)', TEXT)
        return V('(' + ' ++ '.join(out) + ')', TEXT)

    def percent(self, node, env):
        fmt = node.left.value
        if isinstance(node.right, ast.Tuple):
            args = [self.expr(x, env) for x in node.right.elts]
        else:
            args = [self.expr(node.right, env)]
            if isinstance(args[0].ty, tuple):
                raise U('% with a non-literal tuple')
        pieces, i = [], 0
        # strict scan: every % must start a conversion we know
        k = 0
        lit = ''
        while k < len(fmt):
            c = fmt[k]
            if c != '%':
                lit += c
                k += 1
                continue
            m = re.compile(r'%(?:(%)|(0?)([1-9][0-9]*)?([diuXxs]))').match(fmt, k)
            if not m:
                raise U('% conversion in %r' % fmt)
            k = m.end()
            if m.group(1):
                lit += '%'
                continue
            pieces.append(('lit', lit))
            lit = ''
            if i >= len(args):
                raise U('not enough arguments for format string')
            ty = m.group(4)
            ty = 'd' if ty in 'diu' else ty
            a = args[i]
            if ty != 's' and a.ty == TEXT:
                raise U('%%%s of a string' % ty)
            pieces.append(('val', a, (m.group(2) == '0', int(m.group(3)) if m.group(3) else None, ty)))
            i += 1
        pieces.append(('lit', lit))
        if i != len(args):
            raise U('not all arguments converted')
        return self.join_pieces(pieces, node)

    def str_format(self, fmtnode, args, kwargs, env, node):
        if kwargs:
            raise U('.format with keywords')
        fmt = fmtnode.value
        vs = [self.expr(a, env) for a in args]
        pieces, auto = [], 0
        kinds = {('auto' if field == '' else 'manual') for _, field, _, _ in string.Formatter().parse(fmt) if field is not None}
        if len(kinds) > 1:
            raise U('.format mixes automatic and manual field numbering')
        for lit, field, spec, conv in string.Formatter().parse(fmt):
            pieces.append(('lit', lit))
            if field is None:
                continue
            if conv is not None or (spec and ('{' in spec)):
                raise U('.format conversion / nested spec')
            if field == '':
                idx = auto
                auto += 1
            elif field.isdigit():
                idx = int(field)
            else:
                raise U('.format field %r' % field)
            if idx >= len(vs):
                raise U('.format index')
            pieces.append(('val', vs[idx], self.parse_spec(spec or '')))
        return self.join_pieces(pieces, node)

    # generator expression inside tuple()/list()
    def genexp(self, node, env):
        if len(node.generators) != 1:
            raise U('nested comprehension')
        g = node.generators[0]
        if g.is_async or not isinstance(g.target, ast.Name):
            raise U('comprehension target')
        xs = self.expr(g.iter, env)
        if not (isinstance(xs.ty, tuple) and xs.ty[0] == 'list' and xs.ty[1] is not None):
            raise U('comprehension over %s' % (xs.ty,))
        v = self.fresh()
        env2 = dict(env)
        env2[g.target.id] = V(v, xs.ty[1])
        term = xs.t
        for c in g.ifs:
            term = '(%s.filter (fun %s => %s))' % (term, v, self.cond(c, env2))
        elt = self.expr(node.elt, env2)
        if elt.raises:
            return V('(optAll (%s.map (fun %s => %s)))' % (term, v, elt.t), Lst(elt.ty), raises=True)
        if not (isinstance(node.elt, ast.Name) and node.elt.id == g.target.id):
            term = '(%s.map (fun %s => %s))' % (term, v, elt.t)
        return V(term, Lst(elt.ty))

    def e_GeneratorExp(self, node, env):
        raise U('generator expression outside tuple()/list()')

    # --- calls
    def e_Call(self, node, env):
        f = node.func
        kw = {k.arg: k.value for k in node.keywords}
        if None in kw:
            raise U('**kwargs')
        if isinstance(f, ast.Name) and f.id not in env:
            return self.call_global(f.id, node.args, kw, env, node)
        if isinstance(f, ast.Attribute):
            if isinstance(f.value, ast.Name) and f.value.id == 'self' and 'self' not in env and ('self', f.attr) not in env:
                if kw:
                    raise U('keyword arguments in self.%s()' % f.attr)
                h = self.self_methods.get(f.attr)
                if h is None:
                    raise U('call of self.%s() at %s' % (f.attr, where(node)))
                return h(self, [self.expr(a, env) for a in node.args], node)
            if isinstance(f.value, ast.Constant) and isinstance(f.value.value, str) and f.attr == 'format':
                return self.str_format(f.value, node.args, kw, env, node)
            recv = self.expr(f.value, env)
            return self.call_method(recv, f.attr, node.args, kw, env, node)
        raise U('call at %s' % where(node))

    def call_global(self, name, args, kw, env, node):
        if name in self.funcs:
            return self.funcs[name](self, args, kw, env, node)
        if name in ('tuple', 'list', 'memoryview') and len(args) == 1 and not kw:
            if isinstance(args[0], (ast.GeneratorExp, ast.ListComp)) and name != 'memoryview':
                return self.genexp(args[0], env)
            v = self.expr(args[0], env)
            if v.ty in (BYTES, TEXT) or (isinstance(v.ty, tuple) and v.ty[0] == 'list'):
                return v
            raise U('%s() of %s' % (name, v.ty))
        if name == 'str':
            if len(args) == 1 and not kw:
                v = self.expr(args[0], env)
                if v.ty == NAT:
                    return V('(natDec %s)' % v.t, TEXT)
                if v.ty == INT:
                    return V('(IoSem.natDecI %s)' % v.t, TEXT)
                if v.ty == TEXT:
                    return v
                raise U('str() of %s' % (v.ty,))
            if len(args) == 1 and set(kw) == {'encoding', 'errors'} and pytrans.const_str(kw['encoding']) == 'ascii' and pytrans.const_str(kw['errors']) == 'ignore':
                v = self.need(self.expr(args[0], env), BYTES, node)
                return V('(IoSem.asciiIgnore %s)' % v.t, TEXT)
            raise U('str() call at %s' % where(node))
        if name == 'int':
            base = None
            if len(args) == 2 and not kw:
                base = pytrans.const_int(args[1])
            elif len(args) == 1 and set(kw) == {'base'}:
                base = pytrans.const_int(kw['base'])
            if base == 16:
                v = self.need(self.expr(args[0], env), TEXT, node)
                return V('(parseHexText %s)' % v.t, NAT)
            raise U('int() call at %s' % where(node))
        if name == 'len' and len(args) == 1 and not kw:
            v = self.expr(args[0], env)
            if v.ty in (TEXT, BYTES) or (isinstance(v.ty, tuple) and v.ty[0] == 'list'):
                return V('(%s).length' % v.t, NAT)
        raise U('call of %s() at %s' % (name, where(node)))

    def call_method(self, recv, name, args, kw, env, node):
        if kw:
            raise U('keyword arguments in .%s()' % name)
        if recv.ty == TEXT:
            if name in ('lower', 'upper') and not args:
                return V('(%s %s)' % ('lowerT' if name == 'lower' else 'upperT', recv.t), TEXT)
            if name in ('rstrip', 'lstrip') and len(args) == 1:
                c = pytrans.const_str(args[0])
                if len(c) != 1:
                    raise U('strip with several characters')
                return V('(%s %d %s)' % ('rstripChar' if name == 'rstrip' else 'lstripChar', ord(c), recv.t), TEXT)
            if name == 'replace' and len(args) == 2 and pytrans.const_str(args[0]) == '*' and pytrans.const_str(args[1]) == '.':
                return V('‹dotpat›', 'dotpat', sym=recv)
        if recv.ty == 'wildre' and name == 'fullmatch' and len(args) == 1:
            t = self.need(self.expr(args[0], env), TEXT, node)
            return V('(IoSem.wildFullmatch %s %s)' % (recv.sym.t, t.t), Opt(UNIT))
        if recv.ty == 're' and name == 'compile' and len(args) == 2:
            p = self.expr(args[0], env)
            flag = pytrans.dotted(args[1])
            if p.ty == 'dotpat' and flag == 're.IGNORECASE':
                return V('‹wildre›', 'wildre', sym=p.sym)
            raise U('re.compile of an unknown shape')
        if recv.ty == STREAM:
            raise U('stream operation %s inside an expression at %s' % (name, where(node)))
        if isinstance(recv.ty, tuple) and recv.ty[0] == 'struct':
            h = self.struct_methods.get(recv.ty[1], {}).get(name)
            if h is not None:
                return h(self, recv, [self.expr(a, env) for a in args], node)
        if (isinstance(recv.ty, tuple) and recv.ty[0] == 'tuple' and name == 'to_bytes') or (recv.ty == NAT and name == 'to_bytes'):
            if len(args) == 2 and pytrans.const_str(args[1]) == 'big':
                n = pytrans.const_int(args[0])
                f = node.func.value
                if (isinstance(f, ast.BinOp) and isinstance(f.op, ast.BitAnd) and isinstance(f.right, ast.Constant)
                        and f.right.value == 256 ** n - 1 and n > 0):
                    return V('(IoSem.toBytesBE %d %s)' % (n, recv.t), Lst(NAT))
                raise U('to_bytes of a value that is not masked to its width')
        raise U('method .%s() on %s at %s' % (name, recv.ty, where(node)))

    # dictionary chains of ParserData ---------------------------------------------------------------------------------
    def is_data_chain(self, node):
        while isinstance(node, ast.Subscript):
            node = node.value
        return (self.data_attr is not None and isinstance(node, ast.Attribute) and isinstance(node.value, ast.Name)
                and node.value.id == 'self' and node.attr == self.data_attr)

    def chain(self, node, env):
        """Subscript chain rooted in self._data -> (Option-valued Lean term, kind)"""
        if not isinstance(node, ast.Subscript):
            return (None, 'root')
        base, kind = self.chain(node.value, env)
        key = node.slice
        if kind == 'root':
            k = self.need(self.expr(key, env), TEXT, node)
            return ('(IoSem.dataGet %s %s)' % (self.data_root, k.t), 'chip')
        if isinstance(key, ast.Constant) and isinstance(key.value, str):
            ks = key.value
            if kind == 'chip' and ks == 'model_ec':
                return (base, 'mec')
            if kind == 'mec' and ks in ('type', 'desc'):
                return ('(%s.bind (·.%s))' % (base, ks), 'text')
            if kind == 'chip' and ks == 'attn_types':
                return ('(%s.bind (·.attnTypes))' % base, 'tt')
            if kind == 'chip' and ks in ('signatures', 'registers'):
                return ('(%s.bind (·.%s))' % (base, ks), 't3')
            raise U('dictionary key %r at %s' % (ks, where(node)))
        if isinstance(key, ast.Constant) and isinstance(key.value, int) and kind == 'pair':
            if key.value == 0:
                return ('(%s.map (·.1))' % base, 'text')
            if key.value == 1:
                return ('(%s.map (·.2))' % base, 'tt')
            raise U('index %r of a signature/register entry' % key.value)
        k = self.need(self.expr(key, env), TEXT, node)
        if kind == 'tt':
            return ('(%s.bind (fun m => lookupTT m %s))' % (base, k.t), 'text')
        if kind == 't3':
            return ('(%s.bind (fun m => lookup3 m %s))' % (base, k.t), 'pair')
        raise U('look-up in %s at %s' % (kind, where(node)))

    # --- statements -------------------------------------------------------------------------------------------------
    STREAM_OPS = ('check_range', 'get_int', 'get_mem', 'inc_index')

    def block(self, stmts, env, k):
        if not stmts:
            return k(env)
        st, rest = stmts[0], stmts[1:]
        if isinstance(st, (ast.Return, ast.Break, ast.Continue)) and rest:
            raise U('statements after return/break/continue at %s' % where(st))
        m = getattr(self, 's_' + type(st).__name__, None)
        if m is None:
            raise U('statement %s at %s' % (type(st).__name__, where(st)))
        return m(st, env, lambda e: self.block(rest, e, k))

    def in_loop(self, t):
        return '(IoSem.Step.ret %s)' % t if self.loops else t

    def raise_term(self, node):
        if self.mode == 'opt':
            return self.in_loop('none')
        if self.mode == 'rd':
            return self.in_loop('IoSem.Res.raised')
        if self.mode == 'check':
            return self.in_loop('false')
        raise U('the statement at %s may raise' % where(node))

    def ret_term(self, t):
        if self.mode == 'opt':
            t = '(some %s)' % t
        elif self.mode == 'rd':
            t = '(IoSem.Res.ok %s)' % t
        return self.in_loop(t)

    def fall_off(self, env):
        if self.mode == 'check':
            return self.in_loop('true')
        raise U('the function can end without a return statement')

    def is_stream_call(self, node, env):
        return (isinstance(node, ast.Call) and isinstance(node.func, ast.Attribute) and isinstance(node.func.value, ast.Name)
                and node.func.value.id in env and env[node.func.value.id].ty == STREAM and node.func.attr in self.STREAM_OPS)

    def stream_op(self, node, env):
        """-> (Lean term of type IoSem.Res _, python name of the stream, op)"""
        if self.mode != 'rd':
            raise U('stream operation in a function that is not translated as a reader (%s)' % where(node))
        if node.keywords or len(node.args) != 1:
            raise U('stream operation with unexpected arguments at %s' % where(node))
        sname = node.func.value.id
        n = self.as_int(self.expr(node.args[0], env), node)
        op = node.func.attr
        lean = {'check_range': 'checkRange', 'get_int': 'getInt', 'get_mem': 'getMem', 'inc_index': 'incIndex'}[op]
        return '(IoSem.%s %s %s)' % (lean, env[sname].t, n), sname, op

    def bind_res(self, op, var, rest):
        return '(%s %s fun %s =>\n%s)' % ('IoSem.Res.bindStep' if self.loops else 'IoSem.Res.bind', op, var, rest)

    def bind_stream_value(self, node, env, use):
        """get_int / get_mem: binds value and new stream, then `use(env2, V)`"""
        op, sname, kind = self.stream_op(node, env)
        if kind not in ('get_int', 'get_mem'):
            raise U('%s does not produce a value (%s)' % (kind, where(node)))
        r, x, st2 = self.fresh(), self.fresh(), self.fresh_st()
        env2 = dict(env)
        env2[sname] = V(st2, STREAM)
        rest = use(env2, V(x, NAT if kind == 'get_int' else BYTES))
        return self.bind_res(op, r, 'let %s := %s.1; let %s := %s.2;\n%s' % (x, r, st2, r, rest))

    def bind_raising(self, v, node, use):
        """v.t is an Option: none = exception (raises=True) or the callee left the modelled subset (raises='unknown')"""
        if self.mode == 'rd' and v.raises == 'unknown':
            x = self.fresh()
            return self.bind_res('(IoSem.Res.ofOpt %s)' % v.t, x, use(V(x, v.ty)))
        if self.mode != 'opt' or self.loops:
            raise U('the expression at %s may raise' % where(node))
        x = self.fresh()
        return '(Option.bind %s fun %s =>\n%s)' % (v.t, x, use(V(x, v.ty)))

    def s_Pass(self, st, env, k):
        return k(env)

    def s_Return(self, st, env, k):
        if self.mode == 'check':
            if st.value is not None and not (isinstance(st.value, ast.Constant) and st.value.value is None):
                raise U('return with a value in a checking function')
            return self.in_loop('true')
        if st.value is None:
            raise U('bare return at %s' % where(st))
        if self.reader is not None:
            if isinstance(st.value, ast.Constant) and st.value.value is True:
                return self.in_loop('(IoSem.Res.ok (%s, %s))' % (self.reader['build'](self, env), env[self.reader['stream']].t))
            if isinstance(st.value, ast.Constant) and st.value.value is False:
                return self.in_loop('IoSem.Res.no')
            raise U('a reader must return True or False (%s)' % where(st))
        v = self.expr(st.value, env)
        if v.raises:
            return self.bind_raising(v, st, lambda x: self.ret_term(self.check_ret(x, st)))
        return self.ret_term(self.check_ret(v, st))

    def check_ret(self, v, node):
        if v.ty == 'jobj':
            items = []
            for key, val in v.sym:
                if val.ty != TEXT:
                    raise U('dictionary value of type %s' % (val.ty,))
                items.append('(%s, J.str %s)' % (pytrans.lean_text(key), val.t))
            t = '(J.obj [%s])' % ', '.join(items)
            ty = 'jobj'
        else:
            t, ty = v.t, v.ty
        if self.ret_ty is not None and isinstance(self.ret_ty, tuple) and self.ret_ty[0] == 'opt':
            if ty == NONE:
                return 'none'
            if ty == self.ret_ty[1]:
                return '(some %s)' % t
            if isinstance(ty, tuple) and ty[0] == 'opt' and ty[1] in (None, self.ret_ty[1]):
                return t
            raise U('returns %s where an optional %s is expected (%s)' % (ty, self.ret_ty[1], where(node)))
        if self.ret_ty is not None:
            ok = ty == self.ret_ty or (isinstance(ty, tuple) and isinstance(self.ret_ty, tuple) and ty[0] == 'list' and self.ret_ty[0] == 'list'
                                       and (ty[1] is None or ty[1] == self.ret_ty[1]))
            if not ok:
                raise U('returns %s where %s is expected (%s)' % (ty, self.ret_ty, where(node)))
        return t

    def target_key(self, tgt, env):
        if isinstance(tgt, ast.Name):
            if tgt.id == 'self':
                raise U('assignment to self')
            return tgt.id
        if (isinstance(tgt, ast.Attribute) and isinstance(tgt.value, ast.Name) and tgt.value.id == 'self' and 'self' not in env
                and self.allow_self_assign):
            if self.loops:
                raise U('member assignment inside a loop')
            return ('self', tgt.attr)
        raise U('assignment target at %s' % where(tgt))

    allow_self_assign = False

    def s_Assign(self, st, env, k):
        if len(st.targets) != 1:
            raise U('chained assignment at %s' % where(st))
        tgt, rhs = st.targets[0], st.value
        if isinstance(tgt, ast.Subscript) and isinstance(tgt.value, ast.Name) and tgt.value.id in env and env[tgt.value.id].ty == 'jobj':
            name = tgt.value.id
            key = pytrans.const_str(tgt.slice)
            if self.loops:
                raise U('dictionary item assignment inside a loop')
            if any(key == k0 for k0, _ in env[name].sym):
                raise U('dictionary key %r assigned twice' % key)

            def put(v):
                env2 = dict(env)
                env2[name] = V('‹obj›', 'jobj', sym=env[name].sym + [(key, v)])
                return k(env2)
            v = self.expr(rhs, env)
            if v.raises:
                return self.bind_raising(v, st, put)
            x = self.fresh()
            return 'let %s := %s;\n%s' % (x, v.t, put(V(x, v.ty)))
        key = self.target_key(tgt, env)

        def bound(env2, v):
            env2 = dict(env2)
            env2[key] = v
            return k(env2)
        if self.is_stream_call(rhs, env):
            return self.bind_stream_value(rhs, env, bound)
        if isinstance(rhs, ast.Call) and isinstance(rhs.func, ast.Name) and rhs.func.id == 'OrderedDict' and 'OrderedDict' not in env and not rhs.args and not rhs.keywords:
            return bound(env, V('‹obj›', 'jobj', sym=[]))
        v = self.expr(rhs, env)
        if v.ty in ('dotpat', 'wildre', 'jobj', 're'):
            return bound(env, v)
        if v.raises:
            return self.bind_raising(v, st, lambda x: bound(env, x))
        old = env.get(key)
        if v.ty == NONE:
            # a variable that holds None or a value: an Option on the Lean side
            v = V('none', old.ty if old is not None and isinstance(old.ty, tuple) and old.ty[0] == 'opt' else Opt(None))
        elif old is not None and isinstance(old.ty, tuple) and old.ty[0] == 'opt' and not (isinstance(v.ty, tuple) and v.ty[0] == 'opt'):
            if old.ty[1] is not None and old.ty[1] != v.ty:
                raise U('%s assigned to a variable that holds an optional %s' % (v.ty, old.ty[1]))
            v = V('(some %s)' % v.t, Opt(v.ty))
        if v.ty == STREAM:
            x = self.fresh_st()
        else:
            x = self.fresh()
        return 'let %s := %s;\n%s' % (x, v.t, bound(env, V(x, v.ty)))

    def s_AnnAssign(self, st, env, k):
        # `x: int = e`: the annotation has no effect at run time
        if st.value is None or not st.simple or not isinstance(st.target, ast.Name):
            raise U('annotated assignment at %s' % where(st))
        fake = ast.Assign(targets=[st.target], value=st.value)
        ast.copy_location(fake, st)
        return self.s_Assign(fake, env, k)

    def s_AugAssign(self, st, env, k):
        if not isinstance(st.target, ast.Name):
            raise U('augmented assignment target at %s' % where(st))
        cur = self.e_Name(st.target, env)
        if cur.ty not in (NAT, INT, TEXT):
            raise U('augmented assignment to a %s' % (cur.ty,))
        fake = ast.Assign(targets=[ast.Name(id=st.target.id, ctx=ast.Store())],
                          value=ast.BinOp(left=ast.Name(id=st.target.id, ctx=ast.Load()), op=st.op, right=st.value))
        ast.copy_location(fake, st)
        ast.fix_missing_locations(fake)
        if st.target.id not in env:
            raise U('augmented assignment to an unbound name')
        return self.s_Assign(fake, env, k)

    def s_Assert(self, st, env, k):
        # the message expression is only evaluated when the assertion fails: whatever it does, the function raises
        return '(if %s then\n%s\nelse %s)' % (self.cond(st.test, env), k(env), self.raise_term(st))

    def s_Expr(self, st, env, k):
        call = st.value
        if not isinstance(call, ast.Call):
            raise U('expression statement at %s' % where(st))
        if self.is_stream_call(call, env):
            op, sname, kind = self.stream_op(call, env)
            if kind != 'inc_index':
                raise U('result of %s discarded at %s' % (kind, where(st)))
            st2 = self.fresh_st()
            env2 = dict(env)
            env2[sname] = V(st2, STREAM)
            return self.bind_res(op, st2, k(env2))
        f = call.func
        if isinstance(f, ast.Attribute) and isinstance(f.value, ast.Name) and f.value.id in env and f.attr in ('append', 'extend'):
            name = f.value.id
            lst = env[name]
            if not (isinstance(lst.ty, tuple) and lst.ty[0] == 'list') or call.keywords or len(call.args) != 1:
                raise U('%s at %s' % (f.attr, where(st)))

            def push(env2, v):
                if f.attr == 'append':
                    ety = v.ty
                    t = '(%s ++ [%s])' % (env2[name].t, v.t)
                else:
                    if not (isinstance(v.ty, tuple) and v.ty[0] == 'list'):
                        raise U('extend with %s' % (v.ty,))
                    ety = v.ty[1]
                    t = '(%s ++ %s)' % (env2[name].t, v.t)
                if lst.ty[1] is not None and ety != lst.ty[1]:
                    raise U('list element of type %s added to a list of %s' % (ety, lst.ty[1]))
                x = self.fresh()
                env3 = dict(env2)
                env3[name] = V(x, Lst(ety))
                return 'let %s := %s;\n%s' % (x, t, k(env3))
            if self.is_stream_call(call.args[0], env):
                return self.bind_stream_value(call.args[0], env, push)
            v = self.expr(call.args[0], env)
            if v.raises:
                return self.bind_raising(v, st, lambda x: push(env, x))
            return push(env, v)
        if isinstance(f, ast.Attribute) and isinstance(f.value, ast.Name) and f.value.id == 'self' and 'self' not in env:
            h = self.self_checks.get(f.attr)
            if h is not None and not call.keywords:
                c = h(self, [self.expr(a, env) for a in call.args], call)
                return '(if %s then\n%s\nelse %s)' % (c, k(env), self.raise_term(st))
        raise U('call statement at %s' % where(st))

    self_checks = {}

    def s_If(self, st, env, k):
        body, orelse = pytrans.strip_docstring(st.body), pytrans.strip_docstring(st.orelse)
        if not body:
            raise U('empty if body')
        t, neg = st.test, False
        if isinstance(t, ast.UnaryOp) and isinstance(t.op, ast.Not) and self.is_stream_call(t.operand, env):
            t, neg = t.operand, True
        if self.is_stream_call(t, env):
            op, sname, kind = self.stream_op(t, env)
            if kind != 'check_range':
                raise U('%s as a condition at %s' % (kind, where(st)))
            c = self.fresh()
            return self.bind_res(op, c, '(if %s then\n%s\nelse\n%s)' % ('(!%s)' % c if neg else c, self.block(body, env, k), self.block(orelse, env, k)))
        tt = st.test
        if (isinstance(tt, ast.Compare) and len(tt.ops) == 1 and isinstance(tt.ops[0], (ast.Is, ast.IsNot)) and isinstance(tt.left, ast.Name)
                and isinstance(tt.comparators[0], ast.Constant) and tt.comparators[0].value is None and tt.left.id in env
                and isinstance(env[tt.left.id].ty, tuple) and env[tt.left.id].ty[0] == 'opt' and env[tt.left.id].ty[1] is not None):
            # `if x is not None:` on an optional value: inside the branch x is the value itself
            name = tt.left.id
            x = self.fresh()
            env_some = dict(env)
            env_some[name] = V(x, env[name].ty[1])
            some_b, none_b = (body, orelse) if isinstance(tt.ops[0], ast.IsNot) else (orelse, body)
            return '(match %s with\n| some %s =>\n%s\n| none =>\n%s)' % (env[name].t, x, self.block(some_b, env_some, k), self.block(none_b, env, k))
        c = self.cond(st.test, env)
        return '(if %s then\n%s\nelse\n%s)' % (c, self.block(body, env, k), self.block(orelse, env, k))

    # --- loops
    def mutated(self, body):
        out = set()
        for st in body:
            for n in ast.walk(st):
                if isinstance(n, ast.Assign):
                    for t in n.targets:
                        for m in ast.walk(t):
                            if isinstance(m, ast.Name):
                                out.add(m.id)
                            if isinstance(m, ast.Attribute):
                                raise U('member / item assignment inside a loop at %s' % where(n))
                elif isinstance(n, (ast.AugAssign, ast.AnnAssign)):
                    if not isinstance(n.target, ast.Name):
                        raise U('assignment target inside a loop at %s' % where(n))
                    out.add(n.target.id)
                elif isinstance(n, (ast.For, ast.comprehension)):
                    for m in ast.walk(n.target):
                        if isinstance(m, ast.Name):
                            out.add(m.id)
                elif isinstance(n, ast.Call) and isinstance(n.func, ast.Attribute) and isinstance(n.func.value, ast.Name):
                    if n.func.attr in ('append', 'extend', 'get_int', 'get_mem', 'inc_index', 'insert', 'pop', 'remove', 'clear', 'sort', 'reverse', 'update'):
                        out.add(n.func.value.id)
                elif isinstance(n, (ast.NamedExpr, ast.Delete, ast.With, ast.Import, ast.ImportFrom)):
                    raise U('statement kind inside a loop at %s' % where(n))
        return out

    @staticmethod
    def proj(s, i, n):
        if n == 1:
            return s
        return '%s%s' % (s, '.2' * i + ('.1' if i < n - 1 else ''))

    def unpack(self, s, keys, env):
        env2, lets = dict(env), ''
        for i, key in enumerate(keys):
            old = env[key]
            x = self.fresh_st() if old.ty == STREAM else self.fresh()
            lets += 'let %s := %s; ' % (x, self.proj(s, i, len(keys)))
            env2[key] = V(x, old.ty)
        return env2, (lets + '\n' if lets else '')

    def pack(self, keys, env):
        if not keys:
            return '()'
        if len(keys) == 1:
            return env[keys[0]].t
        return '(' + ', '.join(env[key].t for key in keys) + ')'

    def step(self, kind, env):
        return '(IoSem.Step.%s %s)' % (kind, self.pack(self.loops[-1], env))

    def s_Break(self, st, env, k):
        if not self.loops:
            raise U('break outside a loop')
        return self.step('brk', env)

    def s_Continue(self, st, env, k):
        if not self.loops:
            raise U('continue outside a loop')
        return self.step('next', env)

    def s_For(self, st, env, k):
        if st.orelse:
            raise U('for/else')
        if not isinstance(st.target, ast.Name):
            raise U('loop target at %s' % where(st))
        body = pytrans.strip_docstring(st.body)
        if not body:
            raise U('empty loop body')
        mut = self.mutated(body)
        if st.target.id in mut:
            raise U('the loop variable is assigned in the loop body')
        keys = [key for key in env if isinstance(key, str) and key in mut]
        for key in keys:
            if env[key].ty in ('jobj', 'dotpat', 'wildre', NONE):
                raise U('%s changed inside a loop' % key)
        env_in = {key: v for key, v in env.items() if not (isinstance(key, str) and key == st.target.id)}
        s1, s2 = self.fresh(), self.fresh()
        it = st.iter
        if isinstance(it, ast.Call) and isinstance(it.func, ast.Name) and it.func.id == 'range' and 'range' not in env:
            if it.keywords or len(it.args) != 1:
                raise U('range() with several arguments')
            n = self.need(self.expr(it.args[0], env), NAT, it)
            for b in body:
                for m in ast.walk(b):
                    if isinstance(m, ast.Name) and m.id == st.target.id:
                        raise U('the body uses the loop variable of a range() loop')
            head, lam = 'IoSem.repeatN %s' % n.t, 'fun %s' % s1
            env_b = dict(env_in)
        else:
            xs = self.expr(it, env)
            if not (isinstance(xs.ty, tuple) and xs.ty[0] == 'list' and xs.ty[1] is not None):
                raise U('loop over %s at %s' % (xs.ty, where(st)))
            x = self.fresh()
            head, lam = 'IoSem.forEach %s' % xs.t, 'fun %s %s' % (x, s1)
            env_b = dict(env_in)
            env_b[st.target.id] = V(x, xs.ty[1])
        env_b, lets_b = self.unpack(s1, keys, env_b)
        self.loops.append(keys)
        try:
            body_t = self.block(body, env_b, lambda e: self.step('next', e))
        finally:
            self.loops.pop()
        env_a, lets_a = self.unpack(s2, keys, env_in)
        r = self.fresh()
        ret_case = '(IoSem.Step.ret %s)' % r if self.loops else r
        return ('(IoSem.LoopOut.elim (fun %s => %s) (fun %s =>\n%s%s)\n(%s %s (%s =>\n%s%s)))'
                % (r, ret_case, s2, lets_a, k(env_a), head, self.pack(keys, env), lam, lets_b, body_t))

    def s_While(self, st, env, k):
        if st.orelse:
            raise U('while/else')
        if not self.is_stream_call(st.test, env) or st.test.func.attr != 'check_range':
            raise U('while loop whose condition is not stream.check_range(n) at %s' % where(st))
        body = pytrans.strip_docstring(st.body)
        if not body:
            raise U('empty loop body')
        sname = st.test.func.value.id
        mut = self.mutated(body) | {sname}
        keys = [key for key in env if isinstance(key, str) and key in mut]
        for key in keys:
            if env[key].ty in ('jobj', 'dotpat', 'wildre', NONE):
                raise U('%s changed inside a loop' % key)
        s1, s2, c = self.fresh(), self.fresh(), self.fresh()
        env_b, lets_b = self.unpack(s1, keys, env)
        self.loops.append(keys)
        try:
            op, _, _ = self.stream_op(st.test, env_b)
            inner = '(if %s then\n%s\nelse\n%s)' % (c, self.block(body, env_b, lambda e: self.step('next', e)), self.step('brk', env_b))
            body_t = self.bind_res(op, c, inner)
        finally:
            self.loops.pop()
        env_a, lets_a = self.unpack(s2, keys, env)
        r = self.fresh()
        ret_case = '(IoSem.Step.ret %s)' % r if self.loops else r
        fuel = '(%s.data.length + 1)' % env[sname].t          # not trusted: too little fuel gives .unknown, which no tie accepts
        return ('(IoSem.LoopOut.elimW %s (fun %s => %s) (fun %s =>\n%s%s)\n(IoSem.whileLoop %s %s (fun %s =>\n%s%s)))'
                % (self.in_loop('IoSem.Res.unknown'), r, ret_case, s2, lets_a, k(env_a), fuel, self.pack(keys, env), s1, lets_b, body_t))

    # --- try idioms
    def s_Try(self, st, env, k):
        if st.orelse or st.finalbody or len(st.handlers) != 1:
            raise U('try statement of an unknown shape at %s' % where(st))
        h = st.handlers[0]
        if h.name is not None or not isinstance(h.type, ast.Name):
            raise U('except clause at %s' % where(st))
        body, hb = pytrans.strip_docstring(st.body), pytrans.strip_docstring(h.body)
        if len(hb) != 1 or not isinstance(hb[0], ast.Assign) or len(hb[0].targets) != 1 or not isinstance(hb[0].targets[0], ast.Name):
            raise U('except body at %s' % where(st))
        name = hb[0].targets[0].id
        for b in body:
            if not (isinstance(b, ast.Assign) and len(b.targets) == 1 and isinstance(b.targets[0], ast.Name) and b.targets[0].id == name):
                raise U('try body at %s' % where(st))
        if not body:
            raise U('empty try body')

        def bound(v):
            env2 = dict(env)
            env2[name] = v
            return k(env2)
        if h.type.id == 'KeyError':
            if not self.is_data_chain(body[0].value):
                raise U('try/except KeyError around something that is not a look-up in the chip data (%s)' % where(st))
            term, kind = self.chain(body[0].value, env)
            if kind != 'text':
                raise U('look-up that ends in a %s' % kind)
            ty = TEXT
            for b in body[1:]:
                x = self.fresh()
                env2 = dict(env)
                env2[name] = V(x, ty)
                e = self.expr(b.value, env2)
                if e.raises or e.ty not in (TEXT, NAT):
                    raise U('statement inside try at %s' % where(b))
                term, ty = '(%s.map (fun %s => %s))' % (term, x, e.t), e.ty
            d = self.expr(hb[0].value, env)
            if d.raises or d.ty != ty:
                raise U('default of type %s for a look-up of type %s (%s)' % (d.ty, ty, where(st)))
            x = self.fresh()
            return 'let %s := (%s.getD %s);\n%s' % (x, term, d.t, bound(V(x, ty)))
        if h.type.id == 'Exception':
            if len(body) != 1:
                raise U('try body at %s' % where(st))
            e = body[0].value
            if not (isinstance(e, ast.BinOp) and isinstance(e.op, ast.Mod)):
                raise U('try/except Exception around something that is not a % format (%s)' % where(st))
            if ast.dump(e.left) != ast.dump(hb[0].value):
                raise U('the fallback is not the format string (%s)' % where(st))
            f = self.need(self.expr(e.left, env), TEXT, st)
            a = self.expr(e.right, env)
            if a.raises or a.ty != Lst(NAT):
                raise U('format arguments of type %s' % (a.ty,))
            return self.bind_raising(V('(pyFmtOrRaw %s %s)' % (f.t, a.t), TEXT, raises='unknown'), st, bound)
        raise U('except %s' % h.type.id)


# ---------------------------------------------------------------------------------------------------------------------
# helpers for the targets

def fun_term(binders, body):
    return 'fun %s =>\n%s' % (' '.join(binders), body)


def translate(tr, f, env, binders):
    body = pytrans.strip_docstring(f.body)
    return fun_term(binders, tr.block(body, env, tr.fall_off))


def simple_body(f):
    return pytrans.strip_docstring(f.body)


def analyse_data_init(tr, clsname, param_vs):
    """symbolic execution of the __init__ of a data class: {member: V}; parameter i is bound to param_vs[i]"""
    f = tr.mod.fn(clsname + '.__init__')
    check_member_writes(tr.mod, clsname, ('__init__',))
    names = params_of(f, len(param_vs), True)
    env = dict(zip(names, param_vs))
    env['re'] = V('‹re›', 're')
    saved = tr.allow_self_assign
    tr.allow_self_assign = True
    try:
        for st in simple_body(f):
            if not isinstance(st, ast.Assign) or len(st.targets) != 1:
                raise U('%s.__init__: statement at %s' % (clsname, where(st)))
            key = tr.target_key(st.targets[0], env)
            v = tr.expr(st.value, env)
            if v.raises:
                raise U('%s.__init__: statement at %s may raise' % (clsname, where(st)))
            env[key] = v
    finally:
        tr.allow_self_assign = saved
    return {key: v for key, v in env.items() if isinstance(key, tuple)}


def check_member_writes(mod, clsname, allowed):
    """members of the class are only assigned in the methods named in `allowed` (the model treats them as fixed afterwards)"""
    for item in mod.cls(clsname).body:
        if isinstance(item, (ast.FunctionDef, ast.AsyncFunctionDef)) and item.name not in allowed:
            for n in ast.walk(item):
                if isinstance(n, ast.Attribute) and isinstance(n.ctx, (ast.Store, ast.Del)) and isinstance(n.value, ast.Name) and n.value.id == 'self':
                    raise U('%s.%s assigns self.%s' % (clsname, item.name, n.attr))
                if isinstance(n, ast.Call) and isinstance(n.func, ast.Name) and n.func.id in ('setattr', 'delattr', 'vars'):
                    raise U('%s.%s uses %s()' % (clsname, item.name, n.func.id))


def analyse_none_init(mod, clsname):
    """__init__(self) that only declares members: `self.m = None` ... -> member names in order"""
    f = mod.fn(clsname + '.__init__')
    check_member_writes(mod, clsname, ('__init__', 'read'))
    params_of(f, 0, True)
    out = []
    for st in simple_body(f):
        ok = (isinstance(st, ast.Assign) and len(st.targets) == 1 and isinstance(st.targets[0], ast.Attribute)
              and isinstance(st.targets[0].value, ast.Name) and st.targets[0].value.id == 'self'
              and isinstance(st.value, ast.Constant) and st.value.value is None)
        if not ok or st.targets[0].attr in out:
            raise U('%s.__init__: statement at %s' % (clsname, where(st)))
        out.append(st.targets[0].attr)
    return out


def list_member(mod, clsname, kind=ast.List):
    """the member that __init__ initialises with [] (the list the loader fills; kind=ast.Dict: with {}); it is assigned nowhere else in the class"""
    f = mod.fn(clsname + '.__init__')
    found = []
    for st in f.body:
        if (isinstance(st, ast.Assign) and len(st.targets) == 1 and isinstance(st.targets[0], ast.Attribute) and isinstance(st.targets[0].value, ast.Name)
                and st.targets[0].value.id == 'self' and isinstance(st.value, kind) and not (st.value.elts if kind is ast.List else st.value.keys)):
            found.append(st.targets[0].attr)
    if len(found) != 1:
        raise U('%s.__init__ does not initialise exactly one member with %s' % (clsname, '[]' if kind is ast.List else '{}'))
    n = 0
    for node in ast.walk(mod.cls(clsname)):
        targets = node.targets if isinstance(node, ast.Assign) else [node.target] if isinstance(node, (ast.AugAssign, ast.AnnAssign)) else []
        for t in targets:
            for m in ([t] if kind is ast.Dict else ast.walk(t)):      # the loader fills the dictionary by item assignment
                if isinstance(m, ast.Attribute) and m.attr == found[0]:
                    n += 1
    if n != 1:
        raise U('%s.%s is assigned more than once' % (clsname, found[0]))
    return found[0]


def nat_args(n, fmt):
    def h(tr, args, node):
        if len(args) != n:
            raise U('%d arguments expected at %s' % (n, where(node)))
        for a in args:
            tr.need(a, NAT, node)
        return fmt % tuple(a.t for a in args)
    return h


TRACE_ENTRY_FIELDS = [('tbh', NAT), ('tbl', NAT), ('length', NAT), ('tag', NAT), ('hash', NAT), ('line', NAT), ('data', BYTES)]
TRACE_HEADER_FIELDS = [('ver', NAT), ('hdrLen', NAT), ('timeFlg', NAT), ('endianFlg', NAT), ('comp', TEXT), ('size', NAT), ('timesWrap', NAT), ('nextFree', NAT)]
PTE_PARAMS = lambda: [V('e.pattern', TEXT), V('e.fmt', TEXT), V('e.params', Lst(NAT)), V('‹file›', 'opaque'), V('‹line›', 'opaque')]
TS_PARAMS = lambda t: [V(t + '.hash', NAT), V(t + '.fmt', TEXT), V(t + '.location', TEXT)]


def data_stream_ctor(tr, args, kw, env, node):
    if len(args) != 1 or set(kw) != {'byte_order', 'is_signed'} or pytrans.const_str(kw['byte_order']) != 'big':
        raise U('DataStream(...) at %s' % where(node))
    sg = kw['is_signed']
    if not (isinstance(sg, ast.Constant) and sg.value is False):
        raise U('DataStream(..., is_signed=...) at %s' % where(node))
    d = tr.need(tr.expr(args[0], env), BYTES, node)
    return V('(IoSem.Stream.new %s)' % d.t, STREAM)


def fn_format_timestamp(tr, args, kw, env, node):
    if kw or len(args) != 1:
        raise U('format_timestamp(...) at %s' % where(node))
    v = tr.need(tr.expr(args[0], env), NAT, node)
    return V('(formatTimestamp %s)' % v.t, TEXT)


def bind_params(tr, f, tys, is_method):
    names = params_of(f, len(tys), is_method)
    env, binders = {}, []
    for nm, ty in zip(names, tys):
        if ty == 'opaque':
            env[nm] = V('‹%s›' % nm, 'opaque', sym=nm)
            continue
        x = tr.fresh_st() if ty == STREAM else tr.fresh()
        env[nm] = V(x, ty)
        binders.append('(%s : %s)' % (x, LEAN_TY[ty] if ty in LEAN_TY else 'List Nat'))
    return env, binders


# ---------------------------------------------------------------------------------------------------------------------
# the targets

def t_format_timestamp(repo):
    mod = Module(repo, 'io_drawer/utils.py')
    tr = Tr(mod)
    tr.ret_ty = TEXT
    f = mod.fn('format_timestamp')
    env, b = bind_params(tr, f, [NAT], False)
    return translate(tr, f, env, b)


def pte_tr(repo, mode='pure'):
    mod = Module(repo, 'io_drawer/ilog.py')
    tr = Tr(mod, 'PTETableEntry', mode)
    fields = analyse_data_init(tr, 'PTETableEntry', PTE_PARAMS())

    def exact(tr, args, node):
        return V(nat_args(1, '(isExactMatch e %s)')(tr, args, node), BOOL)

    def reported(tr, args, node):
        return V(nat_args(1, '(isReportedError %s)')(tr, args, node), BOOL)
    tr.self_methods = {'_is_exact_match': exact, '_is_reported_error_pte': reported}
    return mod, tr, fields


def t_pte(repo, name, ret, mode='pure'):
    def go():
        mod, tr, fields = pte_tr(repo, mode)
        tr.ret_ty = ret
        f = mod.fn('PTETableEntry.' + name)
        env, b = bind_params(tr, f, [NAT], True)
        env.update(fields)
        return translate(tr, f, env, ['(e : PteEntry)'] + b)
    return go


def t_pte_reported(repo):
    mod, tr, fields = pte_tr(repo)
    tr.ret_ty = BOOL
    f = mod.fn('PTETableEntry._is_reported_error_pte')
    env, b = bind_params(tr, f, [NAT], True)
    env.update(fields)
    return translate(tr, f, env, b)        # no `e`: the model function does not look at the entry


def t_get_entry(repo):
    mod = Module(repo, 'io_drawer/ilog.py')
    tr = Tr(mod, 'PTETable')
    tr.ret_ty = Opt(Struct('PteEntry'))
    tr.struct_methods['PteEntry'] = {'matches': lambda tr, recv, args, node: V(nat_args(1, '(pteMatches ' + recv.t + ' %s)')(tr, args, node), BOOL)}
    f = mod.fn('PTETable.get_entry')
    env, b = bind_params(tr, f, [NAT], True)
    env[('self', list_member(mod, 'PTETable'))] = V('tbl', Lst(Struct('PteEntry')))
    return translate(tr, f, env, ['(tbl : List PteEntry)'] + b)


def ts_struct(tr):
    """TraceString as the element type of the string list: members and methods"""
    fields = analyse_data_init(tr, 'TraceString', [V('‹0›', ('param', 0)), V('‹1›', ('param', 1)), V('‹2›', ('param', 2))])
    names = [('hash', NAT), ('fmt', TEXT), ('location', TEXT)]
    fm = {}
    for (_, attr), v in fields.items():
        if isinstance(v.ty, tuple) and v.ty[0] == 'param':
            fm[attr] = names[v.ty[1]]
    tr.struct_fields['TraceString'] = fm
    tr.struct_methods['TraceString'] = {
        'is_match': lambda tr, recv, args, node: V(nat_args(1, '(' + recv.t + '.hash == %s)')(tr, args, node), BOOL),
        'is_partial_match': lambda tr, recv, args, node: V(nat_args(1, '(isPartialMatch ' + recv.t + ' %s)')(tr, args, node), BOOL)}


def t_ts(repo, name, ret, argty, mode='pure'):
    def go():
        mod = Module(repo, 'io_drawer/trace.py')
        tr = Tr(mod, 'TraceString', mode)
        tr.ret_ty = ret
        fields = analyse_data_init(tr, 'TraceString', TS_PARAMS('t'))
        f = mod.fn('TraceString.' + name)
        env, b = bind_params(tr, f, [argty], True)
        env.update(fields)
        return translate(tr, f, env, ['(t : TraceString)'] + b)
    return go


def t_get_trace_string(repo):
    mod = Module(repo, 'io_drawer/trace.py')
    tr = Tr(mod, 'TraceStringFile')
    tr.ret_ty = Opt(Struct('TraceString'))
    ts_struct(tr)
    f = mod.fn('TraceStringFile.get_trace_string')
    env, b = bind_params(tr, f, [NAT], True)
    env[('self', list_member(mod, 'TraceStringFile'))] = V('ss', Lst(Struct('TraceString')))
    return translate(tr, f, env, ['(ss : List TraceString)'] + b)


def te_tr(repo, mode):
    mod = Module(repo, 'io_drawer/trace.py')
    tr = Tr(mod, 'TraceEntry', mode)
    attrs = analyse_none_init(mod, 'TraceEntry')
    if len(attrs) != len(TRACE_ENTRY_FIELDS):
        raise U('TraceEntry.__init__ declares %d members, the model structure has %d' % (len(attrs), len(TRACE_ENTRY_FIELDS)))
    tr.self_methods = {'is_binary_trace': lambda tr, args, node: V(nat_args(0, '(isBinaryTrace e)')(tr, args, node), BOOL)}
    tr.funcs['DataStream'] = data_stream_ctor
    return mod, tr, attrs


def t_te(repo, name, ret, mode):
    def go():
        mod, tr, attrs = te_tr(repo, mode)
        tr.ret_ty = ret
        f = mod.fn('TraceEntry.' + name)
        env, b = bind_params(tr, f, [], True)
        for a, (lf, ty) in zip(attrs, TRACE_ENTRY_FIELDS):
            env[('self', a)] = V('e.' + lf, ty)
        return translate(tr, f, env, ['(e : TraceEntry)'] + b)
    return go


def t_reader(repo, clsname, fields, ctor):
    def go():
        mod = Module(repo, 'io_drawer/trace.py')
        tr = Tr(mod, clsname, 'rd')
        attrs = analyse_none_init(mod, clsname)
        if len(attrs) != len(fields):
            raise U('%s.__init__ declares %d members, %d expected' % (clsname, len(attrs), len(fields)))
        tr.allow_self_assign = True
        f = mod.fn(clsname + '.read')
        env, b = bind_params(tr, f, [STREAM], True)
        sname = list(env)[0]
        for a in attrs:
            env[('self', a)] = V('‹unset›', 'unset')

        def build(tr, env):
            parts = []
            for a, (lf, ty) in zip(attrs, fields):
                v = env[('self', a)]
                if v.ty != ty and not (ty == TEXT and v.ty == TEXT):
                    raise U('member %s holds a %s when the reader returns True (%s expected)' % (a, v.ty, ty))
                parts.append('%s := %s' % (lf, v.t))
            return '({ %s } : %s)' % (', '.join(parts), ctor)
        tr.reader = {'build': build, 'stream': sname}
        return translate(tr, f, env, b)
    return go


def hw_tr(repo, mode):
    mod = Module(repo, 'pel/hwdiags/parserdata.py')
    tr = Tr(mod, 'ParserData', mode)
    tr.data_attr, tr.data_root = list_member(mod, 'ParserData', ast.Dict), 'cd'

    def chk(lean):
        def h(tr, args, node):
            if len(args) != 2:
                raise U('check with %d arguments' % len(args))
            tr.need(args[0], TEXT if lean == 'checkHex' else NAT, node)
            tr.need(args[1], NAT, node)
            return '(IoSem.%s %s %s)' % (lean, args[0].t, args[1].t)
        return h
    tr.self_checks = {'_check_hex': chk('checkHex'), '_check_int': chk('checkInt')}

    def callee(lean, tys, ret):
        def h(tr, args, node):
            if len(args) != len(tys):
                raise U('%d arguments expected at %s' % (len(tys), where(node)))
            for a, ty in zip(args, tys):
                tr.need(a, ty, node)
            return V('(IoSem.%s cd %s)' % (lean, ' '.join(a.t for a in args)), ret, raises=True)
        return h
    tr.self_methods = {'get_chip_desc': callee('chipDescA', [TEXT, NAT, NAT], TEXT),
                       'get_sig_desc': callee('sigDescA', [TEXT, TEXT, NAT, NAT], TEXT),
                       'get_attn_desc': callee('attnDescA', [TEXT, NAT], TEXT)}
    return mod, tr


def t_hw(repo, name, tys, ret, mode='opt', cd=True):
    def go():
        mod, tr = hw_tr(repo, mode)
        tr.ret_ty = ret
        f = mod.fn('ParserData.' + name)
        env, b = bind_params(tr, f, tys, True)
        return translate(tr, f, env, (['(cd : List ChipData)'] if cd else []) + b)
    return go


def fn_hexdump(tr, args, kw, env, node):
    if kw or len(args) != 1:
        raise U('hexdump(...) at %s' % where(node))
    v = tr.need(tr.expr(args[0], env), BYTES, node)
    return V('(hexdump16 %s)' % v.t, Lst(TEXT))


def opaque_arg_ctor(term, ty):
    """f(path) where path is the (unmodelled) file-name parameter: the value the model takes as a parameter instead"""
    def h(tr, args, kw, env, node):
        if kw or len(args) != 1:
            raise U('call at %s' % where(node))
        v = tr.expr(args[0], env)
        if v.ty != 'opaque':
            raise U('the argument at %s is not the file-name parameter' % where(node))
        return V(term, ty)
    return h


def t_parse_ilog(repo):
    mod = Module(repo, 'io_drawer/ilog.py')
    tr = Tr(mod, None, 'rd')
    tr.ret_ty = Lst(TEXT)
    tr.funcs['DataStream'] = data_stream_ctor
    tr.funcs['format_timestamp'] = fn_format_timestamp
    tr.funcs['PTETable'] = opaque_arg_ctor('tbl', Struct('PTETable'))
    tr.struct_methods['PTETable'] = {
        'get_entry': lambda tr, recv, args, node: V(nat_args(1, '(getEntry tbl %s)')(tr, args, node), Opt(Struct('PteEntry')))}
    tr.struct_methods['PteEntry'] = {
        'get_message': lambda tr, recv, args, node: V(nat_args(1, '(pteMessage ' + recv.t + ' %s)')(tr, args, node), TEXT, raises='unknown')}
    f = mod.fn('parse_ilog_data')
    env, b = bind_params(tr, f, [BYTES, 'opaque'], False)
    return translate(tr, f, env, ['(tbl : List PteEntry)'] + b)


def namedtuple_fields(mod, name):
    """NAME = namedtuple('NAME', ('a', 'b', ...)) at module level -> member names in order"""
    defs = [st for st in mod.tree.body if isinstance(st, ast.Assign) and any(isinstance(t, ast.Name) and t.id == name for t in st.targets)]
    if len(defs) != 1 or len(defs[0].targets) != 1:
        raise U('%s is not defined by one assignment' % name)
    c = defs[0].value
    if not (isinstance(c, ast.Call) and isinstance(c.func, ast.Name) and c.func.id == 'namedtuple' and len(c.args) == 2 and not c.keywords
            and isinstance(c.args[1], (ast.Tuple, ast.List))):
        raise U('%s is not a namedtuple' % name)
    return [pytrans.const_str(e) for e in c.args[1].elts]


def t_parse_hlog(repo):
    mod = Module(repo, 'io_drawer/hlog.py')
    tr = Tr(mod, None, 'rd')
    tr.ret_ty = Lst(TEXT)
    tr.funcs['DataStream'] = data_stream_ctor
    tr.funcs['hexdump'] = fn_hexdump
    tr.funcs['get_hlog_fields'] = opaque_arg_ctor('fields', Lst(Struct('HlogField')))
    members = namedtuple_fields(mod, 'HistoryLogField')
    if len(members) != 2:
        raise U('HistoryLogField has %d members' % len(members))
    tr.struct_fields['HlogField'] = {members[0]: ('1', TEXT), members[1]: ('2', NAT)}
    # get_hlog_fields builds the entries as HistoryLogField(name, size): checked here so that the positions mean what the model means
    g = mod.fn('get_hlog_fields')
    ctor = [n for n in ast.walk(g) if isinstance(n, ast.Call) and isinstance(n.func, ast.Name) and n.func.id == 'HistoryLogField']
    if len(ctor) != 1 or ctor[0].keywords or len(ctor[0].args) != 2:
        raise U('get_hlog_fields does not build its entries with one positional HistoryLogField(name, size) call')
    f = mod.fn('parse_hlog_data')
    env, b = bind_params(tr, f, [BYTES, 'opaque'], False)
    return translate(tr, f, env, ['(fields : List HlogField)'] + b)


TARGETS = [
    # Lean name                 Lean type                                                   translation
    ('io_format_timestamp',     'Nat → Text',                                               lambda repo: (lambda: t_format_timestamp(repo))),
    ('io_pte_is_reported_error', 'Nat → Bool',                                              lambda repo: (lambda: t_pte_reported(repo))),
    ('io_pte_is_exact_match',   'PteEntry → Nat → Bool',                                    lambda repo: t_pte(repo, '_is_exact_match', BOOL)),
    ('io_pte_matches',          'PteEntry → Nat → Bool',                                    lambda repo: t_pte(repo, 'matches', BOOL)),
    ('io_pte_get_message',      'PteEntry → Nat → Option Text',                             lambda repo: t_pte(repo, 'get_message', TEXT, 'opt')),
    ('io_get_entry',            'List PteEntry → Nat → Option PteEntry',                    lambda repo: (lambda: t_get_entry(repo))),
    ('io_parse_ilog_data',      'List PteEntry → Bytes → IoSem.Res (List Text)',            lambda repo: (lambda: t_parse_ilog(repo))),
    ('io_parse_hlog_data',      'List HlogField → Bytes → IoSem.Res (List Text)',           lambda repo: (lambda: t_parse_hlog(repo))),
    ('io_ts_is_match',          'TraceString → Nat → Bool',                                 lambda repo: t_ts(repo, 'is_match', BOOL, NAT)),
    ('io_ts_is_partial_match',  'TraceString → Nat → Bool',                                 lambda repo: t_ts(repo, 'is_partial_match', BOOL, NAT)),
    ('io_ts_get_message',       'TraceString → List Nat → Option Text',                     lambda repo: t_ts(repo, 'get_message', TEXT, Lst(NAT), 'opt')),
    ('io_get_trace_string',     'List TraceString → Nat → Option TraceString',              lambda repo: (lambda: t_get_trace_string(repo))),
    ('io_te_is_binary_trace',   'TraceEntry → Bool',                                        lambda repo: t_te(repo, 'is_binary_trace', BOOL, 'pure')),
    ('io_te_get_args',          'TraceEntry → IoSem.Res (List Nat)',                        lambda repo: t_te(repo, 'get_args', Lst(NAT), 'rd')),
    ('io_tbh_read',             'IoSem.Stream → IoSem.Res (IoSem.TraceHeaderPy × IoSem.Stream)',
     lambda repo: t_reader(repo, 'TraceBufferHeader', TRACE_HEADER_FIELDS, 'IoSem.TraceHeaderPy')),
    ('io_te_read',              'IoSem.Stream → IoSem.Res (TraceEntry × IoSem.Stream)',
     lambda repo: t_reader(repo, 'TraceEntry', TRACE_ENTRY_FIELDS, 'TraceEntry')),
    ('hw_check_int',            'Nat → Nat → Bool',                                         lambda repo: t_hw(repo, '_check_int', [NAT, NAT], None, 'check', cd=False)),
    ('hw_get_attn_desc',        'List ChipData → Text → Nat → Option Text',                 lambda repo: t_hw(repo, 'get_attn_desc', [TEXT, NAT], TEXT)),
    ('hw_get_chip_desc',        'List ChipData → Text → Nat → Nat → Option Text',           lambda repo: t_hw(repo, 'get_chip_desc', [TEXT, NAT, NAT], TEXT)),
    ('hw_get_sig_desc',         'List ChipData → Text → Text → Nat → Nat → Option Text',    lambda repo: t_hw(repo, 'get_sig_desc', [TEXT, TEXT, NAT, NAT], TEXT)),
    ('hw_get_signature',        'List ChipData → Text → Text → Text → Option J',            lambda repo: t_hw(repo, 'get_signature', [TEXT, TEXT, TEXT], 'jobj')),
    ('hw_get_reg_data',         'List ChipData → Text → Text → Nat → Option (Text × Text)', lambda repo: t_hw(repo, 'get_reg_data', [TEXT, TEXT, NAT], ('tuple', (TEXT, TEXT)))),
]


def generate(repo, verif):
    gen = pytrans.GenFile(verif, 'GenIoDrawer', ['PelModel.IoDrawerSem'],
                          'io_drawer/utils.py, ilog.py, trace.py, hlog.py, pel/hwdiags/parserdata.py')
    for name, ty, mk in TARGETS:
        def thunk(mk=mk):
            return mk(repo)()
        gen.emit(name, ty, thunk)
    return gen


if __name__ == '__main__':
    import os
    import sys
    repo = os.environ.get('VERIF_REPO', '/repo')
    g = generate(repo, os.path.dirname(os.path.dirname(os.path.abspath(__file__))))
    sys.stdout.write(g.render())
