"""
The whole command INSIDE a BMC (`inBMC = os.path.isdir("/var/lib/phosphor-logging/extensions/pels/logs/")`): no `-p`, `-A` selects
`…/logs/archive`, which is a SUBDIRECTORY of the log directory.  Model: `Pel.runMainBmc` (PelModel/Bmc.lean) = the outside-BMC command
on the fixed directory; theorems `C11.bmc_command_readonly`, `bmc_other_directory_untouched`, `bmc_command_delete_exact`.

The real `peltool.main()` runs in-process, end to end, on REAL files: the two fixed path names cannot be created in the sandbox, so
`os` and `open` AS SEEN FROM THE MODULE `pel.peltool.peltool` are replaced by thin proxies that map the prefix
`/var/lib/phosphor-logging/extensions/pels/logs` to `<root>/bmc/logs` and otherwise call the real functions (nothing is faked: the walk,
the `isdir`/`isfile` answers, the removals and the written files are the operating system's).  The whole `<root>` is snapshotted before and
after, and compared with the model's resulting BMC; the C11 frame conditions are judged on the real run from the command line alone.
"""
import builtins
import os
import shutil
import tempfile

import apel
import clirun
import mainrun
import pelbuild
import toprun
from common import lean_batch, tb, tlist, tt

BMC_LOGS = '/var/lib/phosphor-logging/extensions/pels/logs'


class _PathProxy:
    def __init__(self, tr):
        self._tr = tr

    def isdir(self, p):
        return os.path.isdir(self._tr(p))

    def isfile(self, p):
        return os.path.isfile(self._tr(p))

    def exists(self, p):
        return os.path.exists(self._tr(p))

    def getmtime(self, p):
        return os.path.getmtime(self._tr(p))

    def getsize(self, p):
        return os.path.getsize(self._tr(p))

    def islink(self, p):
        return os.path.islink(self._tr(p))

    def __getattr__(self, name):
        return getattr(os.path, name)


class _OsProxy:
    ONE = ('remove', 'unlink', 'listdir', 'scandir', 'stat', 'lstat', 'mkdir', 'makedirs', 'rmdir', 'access', 'utime', 'chmod', 'truncate')
    TWO = ('rename', 'replace', 'link', 'symlink')

    def __init__(self, tr):
        self._tr = tr
        self.path = _PathProxy(tr)

    def walk(self, top, *a, **kw):
        return os.walk(self._tr(top), *a, **kw)      # yields real directory names: joined paths then need no translation

    def __getattr__(self, name):
        real = getattr(os, name)
        if name in self.ONE:
            return lambda p, *a, **kw: real(self._tr(p), *a, **kw)
        if name in self.TWO:
            return lambda p, q, *a, **kw: real(self._tr(p), self._tr(q), *a, **kw)
        return real


class BmcShim:
    """inside the `with`: the module peltool sees a BMC whose log directory is <root>/bmc/logs"""

    def __init__(self, root):
        self.real = os.path.join(root, 'bmc', 'logs')

    def tr(self, p):
        if isinstance(p, str) and p.startswith(BMC_LOGS):
            return self.real + p[len(BMC_LOGS):]
        return p

    def __enter__(self):
        from pel.peltool import peltool
        self.mod = peltool
        self.old_os = peltool.os
        self.had_open = 'open' in vars(peltool)
        self.old_open = vars(peltool).get('open')
        peltool.os = _OsProxy(self.tr)
        peltool.open = lambda p, *a, **kw: builtins.open(self.tr(p), *a, **kw)
        return self

    def __exit__(self, *exc):
        self.mod.os = self.old_os
        if self.had_open:
            self.mod.open = self.old_open
        else:
            del self.mod.open
        return False


def new_bmc(logs, log_subdirs=None, archive=None, archive_subdirs=None, ffile=None, exclude=None, out=None):
    return {'logs': list(logs), 'log_subdirs': log_subdirs or {}, 'archive': archive, 'archive_subdirs': archive_subdirs or {},
            'ffile': ffile, 'exclude': exclude, 'out': out, 'files': list(logs)}


def _mk(parent, tree):
    for name, content in tree.items():
        p = os.path.join(parent, name)
        os.makedirs(p)
        if isinstance(content, dict):
            _mk(p, content)
        else:
            for n, d in content:
                with open(os.path.join(p, n), 'wb') as f:
                    f.write(d)


def materialise(b):
    root = tempfile.mkdtemp(prefix='pelbmc_')
    logs = os.path.join(root, 'bmc', 'logs')
    os.makedirs(logs)
    for n, d in b['logs']:
        with open(os.path.join(logs, n), 'wb') as f:
            f.write(d)
    _mk(logs, b['log_subdirs'])
    if b['archive'] is not None:
        ar = os.path.join(logs, 'archive')
        os.makedirs(ar)
        for n, d in b['archive']:
            with open(os.path.join(ar, n), 'wb') as f:
                f.write(d)
        _mk(ar, b['archive_subdirs'])
    if b['ffile'] is not None:
        os.makedirs(os.path.join(root, 'in'))
        with open(os.path.join(root, 'in', 'one.pel'), 'wb') as f:
            f.write(b['ffile'])
    if b['exclude'] is not None:
        with open(os.path.join(root, 'ex.txt'), 'w', newline='') as f:
            f.write(b['exclude'])
    if b['out'] is not None:
        os.makedirs(os.path.join(root, 'out'))
        for n, d in b['out']:
            with open(os.path.join(root, 'out', n), 'wb') as f:
                f.write(d)
    return root


def _walk1(path):
    for _, ds, fs in os.walk(path):
        return list(fs), sorted(ds)
    return [], []


def _tfiles(path, names):
    return tlist([(n, open(os.path.join(path, n), 'rb').read()) for n in names], lambda f: tt(f[0]) + ' ' + tb(f[1]))


class BmcRun:
    def __init__(self, b, sym_args, archive, rng, tag):
        self.b, self.tag, self.archive = b, tag, archive
        self.w = b
        self.root = materialise(b)
        self.args = toprun.concrete(sym_args, self.root)
        self.args['path'] = None
        self.argv = mainrun.to_argv(self.args, rng) + (['-A'] if archive else [])
        if rng:
            rng.shuffle(self.argv) if False else None
        logs = os.path.join(self.root, 'bmc', 'logs')
        ar = os.path.join(logs, 'archive')
        lf, ld = _walk1(logs)
        af, ad = _walk1(ar) if os.path.isdir(ar) else ([], [])
        a = self.args
        ffile = open(a['file'], 'rb').read() if a['file'] and os.path.isfile(a['file']) else None
        ex = open(a['srcExclude'], newline='').read() if a['srcExclude'] and os.path.isfile(a['srcExclude']) else None
        o = a['outputDir']
        out = _tfiles(o, clirun.walk_files(o)) if o and os.path.isdir(o) else None
        self.request = 'runmainbmc %d %s %s %s %s %s %s %s %s' % (
            int(archive), toprun.args_tokens(self.args), _tfiles(logs, lf), tlist([d for d in ld if d != 'archive'], tt),
            ('1 ' + _tfiles(ar, af)) if os.path.isdir(ar) else '0', tlist(ad, tt),
            ('1 ' + tb(ffile)) if ffile is not None else '0', ('1 ' + tt(ex)) if ex is not None else '0', ('1 ' + out) if out is not None else '0')
        self.before = clirun.snapshot(self.root)
        with BmcShim(self.root):
            self.stdout, self.stderr, self.code = clirun.run_main(self.argv)
        self.after = clirun.snapshot(self.root)
        shutil.rmtree(self.root, ignore_errors=True)

    def rp(self, extra=None):
        show = lambda x: x.replace(self.root, '<root>') if isinstance(x, str) else x  # noqa
        d = {'op': 'runmainbmc', 'argv': [show(x) for x in self.argv], 'case': self.tag, 'mode': 'inside a BMC (log directory mapped to <root>/bmc/logs)',
             'top_level': [n for n, _ in self.b['logs']], 'files': [(n, x.hex()) for n, x in self.b['logs']] if len(self.b['logs']) <= 8 else '(%d files)' % len(self.b['logs']),
             'archive': None if self.b['archive'] is None else [n for n, _ in self.b['archive']],
             'exit': self.code, 'stdout': self.stdout[:300], 'stderr': show(self.stderr[-300:])}
        if extra:
            d.update(extra)
        return d

    def removed(self):
        return sorted(set(self.before) - set(self.after))

    def added(self):
        return sorted(set(self.after) - set(self.before))

    def changed(self):
        return sorted(k for k in self.before if k in self.after and self.before[k] != self.after[k])


def parse_result(r):
    def ropt(f):
        return f() if r.num() else None

    def rfiles():
        return [(r.text(), r.bytes()) for _ in range(r.num())]
    m = {'stdout': r.text(), 'diagnostics': r.num(), 'message': ropt(r.text), 'exit': r.num()}
    m['logs'] = rfiles()
    m['log_subdirs'] = [r.text() for _ in range(r.num())]
    m['archive'] = ropt(rfiles)
    m['archive_subdirs'] = [r.text() for _ in range(r.num())]
    m['file'] = ropt(r.bytes)
    m['exclude'] = ropt(r.text)
    m['out'] = ropt(rfiles)
    assert r.done(), r.raw[:200]
    return m


def expected_tree(run, m):
    before, root = run.before, run.root
    exp = dict(before)

    def put(pre, files):
        for k in [k for k, v in before.items() if k.startswith(pre) and '/' not in k[len(pre):] and v[0] == 'file']:
            del exp[k]
        for n, b in files:
            exp[pre + n] = ('file', toprun.sha(b))
    put('bmc/logs/', m['logs'])
    if m['archive'] is not None:
        put('bmc/logs/archive/', m['archive'])
    f = run.args['file']
    if f and f.startswith(root):
        rel = os.path.relpath(f, root)
        exp.pop(rel, None)
        if m['file'] is not None:
            exp[rel] = ('file', toprun.sha(m['file']))
    o = run.args['outputDir']
    if o and o.startswith(root) and m['out'] is not None:
        put(os.path.relpath(o, root) + '/', m['out'])
    return exp


def effects_failures(run):
    """C11 inside a BMC, judged from the command line and the real tree alone"""
    a, out = run.args, []
    removed, added, changed = run.removed(), run.added(), run.changed()
    work = 'bmc/logs/archive/' if run.archive else 'bmc/logs/'
    other_top = lambda k: (k.startswith('bmc/logs/') and '/' not in k[len('bmc/logs/'):]) if run.archive else k.startswith('bmc/logs/archive/')  # noqa
    touched = removed + added + changed
    if any(other_top(k) for k in touched):
        out.append(('bmc_other_directory', ('with -A something in the log directory changed' if run.archive else 'without -A something in the archive changed') + ': %s' % [k for k in touched if other_top(k)][:3]))
    deep = [k for k in touched if k.startswith(work) and '/' in k[len(work):] and not (not run.archive and k.startswith('bmc/logs/archive/'))]
    if deep:
        out.append(('bmc_subdirs', 'something inside a subdirectory of the directory worked on changed: %s' % deep[:3]))
    if not a['delete'] and not a['deleteAll'] and not a['clean'] and not a['json']:
        if touched:
            out.append(('bmc_readonly', 'inside a BMC a command line without -d / -D / --clean / --json changed the tree: %s' % touched[:3]))
        return out
    tops = {k for k, v in run.before.items() if k.startswith(work) and '/' not in k[len(work):] and v[0] == 'file'}
    act = 'file' if a['file'] else next((m for m in mainrun.MODES[1:] if a[m]), 'nothing')
    if act == 'deleteAll':
        if added or changed or set(removed) != tops:
            out.append(('bmc_delete_all', '-D inside a BMC did not remove exactly the top-level regular files of the %s' % ('archive' if run.archive else 'log directory')))
    elif act == 'delete':
        pid = toprun.p8(a['delete'])
        cands = sorted(t for t in tops if pid and pid in os.path.basename(t))
        if added or changed or len(removed) > 1 or (removed and removed[0] not in cands) or (cands and not removed):
            out.append(('bmc_delete_exact', '-d inside a BMC did not remove exactly one top-level file whose name contains the id (candidates %s, removed %s)' % (cands[:3], removed[:3])))
    elif act not in ('file', 'json'):
        if touched:
            out.append(('bmc_lower_priority', 'the tree changed although the command line reaches %s' % act))
    return out


def check_bmc(ck, tier):
    rng = ck.rng
    thorough = tier == 'thorough'
    env = apel.PluginEnv(allow=True).install()
    runs = []
    try:
        for _ in range(30 if thorough else 10):
            w, d = toprun.gen_world(rng, env, thorough=thorough)
            pid = ('%08X' % d[0][1]['ph']['eid']) if d else '00001234'
            sample = w['files'][0][1] if w['files'] else pelbuild.pel([pelbuild.UH()])
            kind = rng.random()
            archive = None if kind < 0.2 else [] if kind < 0.3 else [('arch_%s' % pid, sample), ('older', b'data')] + ([('x_%s.pel' % pid, sample)] if rng.random() < 0.5 else [])
            b = new_bmc(w['files'], {'nested': {'deeper': [('%s.pel' % pid, b'zz')]}} if rng.random() < 0.6 else {}, archive,
                        {'sub': [('%s_in_sub' % pid, b'q')]} if archive is not None and rng.random() < 0.5 else {}, w['ffile'], w['exclude'], w['out'])
            fixed = [['deleteAll'], ['delete'], ['list', 'deleteAll'], ['all'], ['count'], ['json'], ['json', 'clean'], ['pelID'], ['delete', 'deleteAll'], ['file', 'clean'], []]
            for modes in rng.sample(fixed, 11 if thorough else 5):
                a = toprun.gen_args(rng, d, modes, empty_rate=0.0)
                if a['outputDir'] in ('@P',):
                    a['outputDir'] = '@O'
                if 'delete' in modes and rng.random() < 0.8:
                    a['delete'] = rng.choice([pid, '0x' + pid.lower()])
                if rng.random() < 0.6:
                    a['every'] = True
                runs.append(BmcRun(b, a, rng.random() < 0.5, rng, 'bmc:' + '+'.join(modes)))
        replies = lean_batch([env.tokens()] + [r_.request for r_ in runs])[1:]
    finally:
        env.uninstall()
    for run, r in zip(runs, replies):
        if not r.ok:
            ck.disagree('runmainbmc: the driver rejected the request: ' + r.raw[:200], run.rp())
            continue
        m = parse_result(r)
        ck.case(key=('bmc', run.tag, run.archive, tuple(x for x in run.argv if not x.startswith(run.root)), tuple(run.b['logs'])) if (run.stdout or run.removed() or run.added()) else None)
        ck.count('bmc %s%s -> exit %d%s' % (run.tag, ' -A' if run.archive else '', run.code, ', files removed' if run.removed() else ''))
        diffs = []
        if run.code == -999:
            ck.disagree('inside a BMC: the real command did not return', run.rp())
            continue
        if run.stdout != m['stdout']:
            diffs.append(('stdout', {'impl': run.stdout[:200], 'model': m['stdout'][:200]}))
        if run.code != m['exit']:
            diffs.append(('exit status', {'impl': run.code, 'model': m['exit']}))
        if m['message'] is not None and (m['message'] + '\n') not in run.stderr:
            diffs.append(('sys.exit message', {'impl': run.stderr[-200:], 'model': m['message']}))
        exp = expected_tree(run, m)
        if exp != run.after:
            diffs.append(('resulting tree', toprun.tree_diff(exp, run.after)))
        for k, dd in diffs:
            ck.disagree('the whole command inside a BMC differs from runMainBmc: %s' % k, run.rp({'difference': dd}))
        for key, what in effects_failures(run):
            ck.fail('whole command: ' + what, run.rp({'removed': run.removed()[:5], 'added': run.added()[:5], 'changed': run.changed()[:5]}), key)
    ck.notes.append('inside a BMC: %d command lines run end to end on real trees (path names mapped) with the real peltool.main(), compared with Pel.runMainBmc' % len(runs))
    return len(runs)
