"""C17 — an I/O drawer dump is split into ILOG and trace regions that partition it."""
import json
import os
import shutil
import struct
import tempfile

import common
import iod
from common import Check, lean_batch, tb, tt, tlist
from c15 import enc_entry

TRUSTED = ['Lean 4.33.0 kernel (+ leanchecker in the thorough tier)',
           'axioms: propext, Classical.choice, Quot.sound only (audited per theorem)',
           'harness/extract.py (pins), harness/c17.py (generators, comparison), Drv.lean protocol parsing',
           'compiled driver peldrv agrees with the kernel reading of the same definitions']
ASSUME = ['bytes.find and sorted() are modelled (findSub, insertion sort), not verified',
          '"recognised header" is read as the first occurrence of each of the six 8-byte patterns (start bytes + name)',
          'the stand-alone ILOG/trace decoders are those of C14/C15; both tables are loaded by the loaders of the model (C14/C15) from the shipped file lines']
RULE = ('cases = dump byte strings with random placements/orderings/subsets of the six buffer headers (none, adjacent, offset 0, '
        'duplicates, names without the start bytes), and the same bytes rendered in both hex-dump text formats with short last '
        'lines and noise lines; non-trivial = at least one recognised header; distinct by bytes')
START = b'\x02\x20\x01\x42'
NAMES = [b'IICS', b'IICM', b'POWR', b'FANS', b'INFO', b'ERRL']
DIVIDER = '-' * 73


def regions_by_statement(data):
    offs = sorted(o for o in (data.find(START + n) for n in NAMES) if o != -1)
    ilog = data[:offs[0]] if offs else data
    traces = [data[o:(offs[i + 1] if i + 1 < len(offs) else len(data))] for i, o in enumerate(offs)]
    return ilog, traces


def gen_dump(rng):
    parts = []
    n_ilog = rng.choice([0, 0, 8, 16, 40, rng.randrange(0, 100)])
    ilog = b''.join(struct.pack('>HHI', rng.randrange(65536), rng.randrange(65536), rng.choice([0x01040000, 0xE2082690, 0xE20C2690, rng.randrange(2 ** 32)]))
                    for _ in range(n_ilog // 8)) + bytes(rng.randrange(256) for _ in range(n_ilog % 8))
    if rng.random() < 0.2:
        ilog += rng.choice(NAMES)            # a name without the start bytes inside ILOG data
    if rng.random() < 0.1:
        ilog += START + b'XXXX'              # start bytes with an unknown name
    parts.append(ilog)
    names = rng.sample(NAMES, rng.randrange(0, 7))
    if names and rng.random() < 0.2:
        names.append(rng.choice(names))      # the same name twice
    for nm in names:
        es = [(rng.randrange(65536), rng.randrange(65536), rng.choice([0x4654, 0x4644]), rng.randrange(2 ** 32), rng.randrange(1000),
               bytes(rng.randrange(256) for _ in range(rng.choice([0, 4, 5, 8]))), b'') for _ in range(rng.randrange(0, 4))]
        body = b''.join(enc_entry(e) for e in es)
        if rng.random() < 0.2:
            body = body[:rng.randrange(0, len(body) + 1)]
        hdr = START + nm.ljust(12, b'\0') + bytes(4) + struct.pack('>III', rng.choice([32 + len(body), 0, 2 ** 32 - 1]), rng.randrange(9), 0)
        if rng.random() < 0.15:
            hdr = hdr[:rng.randrange(8, 32)]   # adjacent / truncated headers
            body = b''
        parts.append(hdr + body)
    return b''.join(parts)


def run(tier, seed):
    ck = Check('C17', tier, seed)
    ck.proof = common.build_and_audit('C17', thorough=(tier == 'thorough'))
    if not ck.proof['driver_ok']:
        return ck.finish(RULE, TRUSTED, ASSUME)
    from io_drawer import dump as dp
    from io_drawer import ilog as il
    from io_drawer import trace as tr
    rng = ck.rng
    thorough = tier == 'thorough'
    tmp = tempfile.mkdtemp(prefix='c17_')
    try:
        reqs, meta = [], []
        drawers = []
        for name, (hdr, sf) in iod.drawer_files().items():
            # both tables are loaded by the MODEL's loaders from the file lines (header file / string file -> decode runs inside the model)
            reqs.append('deftblfile ' + iod.tok_lines(iod.file_lines(hdr))); meta.append(None)
            reqs.append('defstrfile ' + iod.tok_lines(iod.file_lines(sf))); meta.append(None)
            drawers.append((name, hdr, sf))
        dumps = []
        for _ in range(600 if thorough else 120):
            dumps.append(gen_dump(rng))
        dumps += [b'', b'\0', START + b'INFO', START + b'INFO' + START + b'FANS', b'abc' + START + b'ERRL' + bytes(40)]
        # a dump longer than 64 KiB (an ILOG region of empty entries, then whatever gen_dump gives): as a BMC-format file its four-digit
        # address column wraps around
        big = bytes(8 * (8192 + rng.randrange(1, 40))) + (gen_dump(rng) or START + b'INFO')
        dumps.append(big)
        renders = []
        for d in dumps:
            did = rng.randrange(len(drawers))
            reqs.append('dump %d %d %s' % (did, did, tb(d)))
            meta.append(('dump', did, d))
            if d and (rng.random() < 0.5 or d is big):
                # (the dump longer than 64 KiB in BOTH line formats: they differ in characters per line, so a limit counted in characters cuts them at different sizes)
                for k, pad in (((1, False), (1, True), (2, False), (2, True)) if d is big else ((rng.choice([1, 2]), rng.random() < 0.5),)):
                    reqs.append('render %d %d %s' % (k, int(pad), tb(d)))
                    meta.append(('render', did, d, k, pad))
        # dump files whose data bytes are the delimiter characters of the OTHER line format (':', '<', '>', blanks, hex digits):
        # they show up in the character column, where no format may be recognised by them
        for k in (1, 2):
            for _ in range(12 if thorough else 4):
                d = bytearray(gen_dump(rng) or b'\x01')
                for _ in range(rng.randrange(1, 6)):
                    d[rng.randrange(min(len(d), 48))] = rng.choice(b':<> 0A')
                if rng.random() < 0.5:
                    d[rng.randrange(min(len(d), 16))] = 0x3A
                d = bytes(d)
                did = rng.randrange(len(drawers))
                reqs.append('render %d %d %s' % (k, int(rng.random() < 0.5), tb(d)))
                meta.append(('render', did, d, k, False))
        replies = lean_batch(reqs)
        opt_calls = []
        filereqs, filemeta = [], []
        for m, r in zip(meta, replies):
            if m is None:
                continue
            if m[0] == 'dump':
                _, did, d = m
                name, hdr, sf = drawers[did]
                real = dp.parse_dump_data(memoryview(d), hdr, sf)
                if d and rng.random() < 0.3:
                    # the same bytes handed over as a slice of a larger buffer (a section inside a log): only the slice counts
                    pre, post = gen_dump(rng)[:rng.randrange(0, 90)], gen_dump(rng)[:rng.randrange(0, 90)]
                    sl = dp.parse_dump_data(memoryview(pre + d + post)[len(pre):len(pre) + len(d)], hdr, sf)
                    ck.count('dump handed over as a slice of a larger buffer')
                    if sl != real:
                        ck.fail('decoding a dump that is a slice of a larger buffer differs from decoding the same bytes on their own',
                                {'op': 'dump', 'drawer': name, 'data_hex': d.hex()[:4000], 'before_hex': pre.hex(), 'after_hex': post.hex()}, 'slice')
                if len(opt_calls) < (60 if thorough else 25) and len(d) < 5000 and rng.random() < 0.3:
                    opt_calls.append(('dump', d, [hdr, sf], real))
                ilog, traces = regions_by_statement(d)
                ck.case(key=d if traces else None, sample={'drawer': name, 'len': len(d), 'headers': len(traces)})
                ck.count('headers=%d' % min(len(traces), 3))
                rp = {'op': 'dump', 'drawer': name, 'data_hex': d.hex()}
                # property on the real code
                if not d:
                    if real != []:
                        ck.fail('empty dump produces output', rp | {'actual': real[:3]}, 'empty')
                else:
                    if ilog + b''.join(traces) != d:
                        raise AssertionError('oracle bug')
                    expect = ['ILOG', ''] + il.parse_ilog_data(memoryview(ilog), hdr) + ['', DIVIDER, '']
                    for t in traces:
                        expect += ['Trace', ''] + tr.parse_trace_data(memoryview(t), sf) + ['', DIVIDER, '']
                    if real != expect:
                        k = next((i for i in range(min(len(real), len(expect))) if real[i] != expect[i]), min(len(real), len(expect)))
                        ck.fail('dump output is not the stand-alone decodings of the partition regions', rp | {'first_difference': k, 'expected': expect[k:k + 2], 'actual': real[k:k + 2]}, 'composition')
                if not r.ok:
                    ck.skip(r.raw[:40])
                    continue
                model = r.lines()
                regs = [r.bytes() for _ in range(r.num())]
                if d and (regs[0] != ilog or regs[1:] != traces):
                    ck.disagree('model regions differ from the regions of the statement', rp)
                if model != real:
                    ck.disagree('parse_dump_data differs from model', rp | {'impl': real[:6], 'model': model[:6]})
            else:
                _, did, d, k, pad = m
                lines = r.lines()
                text = []
                for ln in lines:
                    if rng.random() < 0.1:
                        text.append(rng.choice(['', '# IO drawer dump', 'garbage line', '   ']))
                    text.append(ln)
                name, hdr, sf = drawers[did]
                path = os.path.join(tmp, 'dump.txt')
                eol = rng.choice(['\n', '\n', '\r\n'])
                with open(path, 'w', newline='') as f:
                    f.write(eol.join(text) + (eol if rng.random() < 0.7 else ''))
                rp = {'op': 'dumpfile', 'drawer': name, 'format': k, 'padded': pad, 'data_hex': d.hex() if len(d) < 4000 else d[:64].hex() + '... (%d bytes)' % len(d), 'text': text[:50]}
                try:
                    real_file = dp.parse_dump_file(path, hdr, sf)
                except Exception as e:  # noqa  -- what the decoder does with a dump file is an outcome
                    real_file = ['<%s: %s>' % (type(e).__name__, str(e)[:100])]
                real_raw = dp.parse_dump_data(memoryview(d), hdr, sf)
                ck.case(key=('file', k, pad, d), sample={'format': 'bmc' if k == 1 else 'pre-bmc', 'padded': pad, 'len': len(d)})
                ck.count('file fmt=%d pad=%s' % (k, pad))
                if real_file != real_raw:
                    ck.fail('decoding a dump file differs from decoding its raw bytes', rp, 'file_equals_raw')
                filereqs.append('dumpfile %d %d %s' % (did, did, tlist([t + '\n' for t in text], tt)))
                filemeta.append((rp, real_file))
        # model of parse_dump_file (needs the tables again in a fresh driver run)
        pre = [q for q, m in zip(reqs, meta) if m is None]
        rep2 = lean_batch(pre + filereqs)[len(pre):]
        for (rp, real_file), r in zip(filemeta, rep2):
            if not r.ok:
                ck.skip(r.raw[:40])
                continue
            if r.lines() != real_file:
                ck.disagree('parse_dump_file differs from model', rp)
        iod.check_optimised(ck, opt_calls, 'dump samples')
        # ---- table files that are rewritten between two decodes in one process (same path, other content): every region is decoded with the
        # tables that are in the files NOW, exactly as the stand-alone decoders would
        import re as _re
        hdrs, sfs = [h for _, h, _ in drawers], [s_ for _, _, s_ in drawers]
        if len(drawers) >= 2:
            ptes = []
            for h in hdrs:
                found = _re.findall(r'"([0-9A-Fa-f*]{8})"', open(h, errors='replace').read())
                ptes += [int(pt.replace('*', rng.choice('0123456789ABCDEF')), 16) for pt in rng.sample(found, min(len(found), 80))]
            hashes = []
            for s_ in sfs:
                hashes += [int(x) for x in _re.findall(r'^\s*([0-9]{1,9})\|\|', open(s_, errors='replace').read(), _re.M)][:12]
            ilog = b''.join(struct.pack('>HHI', i, i, v) for i, v in enumerate(ptes, 1))
            body = b''.join(struct.pack('>HHHHII', 1, i, 4, 0x4654, hv, 7) + b'\0\0\0\x2a' + struct.pack('>I', 24) for i, hv in enumerate(hashes, 1))
            sample = ilog + START + b'INFO'.ljust(12, b'\0') + bytes(4) + struct.pack('>III', 32 + len(body), 1, 0) + body
            iod.check_rewritten_table_file(ck, 'dump_pte', hdrs, lambda pth: dp.parse_dump_data(memoryview(sample), pth, sfs[0]), rng, 6 if thorough else 2)
            iod.check_rewritten_table_file(ck, 'dump_strs', sfs, lambda pth: dp.parse_dump_data(memoryview(sample), hdrs[0], pth), rng, 6 if thorough else 2)
        # stand-alone CLI: python -m io_drawer.dump
        for name, hdr, sf in drawers:
            for empty_text in ('', '\n', '# no data lines at all\n\n'):
                path = os.path.join(tmp, 'cli_empty.txt')
                open(path, 'w').write(empty_text)
                rc, out, _err = common.run2([common.PY, '-W', 'ignore', '-m', 'io_drawer.dump', '-t', name, path], env=common.child_env())
                ck.case(key=('cli-empty', name, empty_text))
                ck.count('cli empty input')
                if rc != 0 or out != '':
                    ck.fail('python -m io_drawer.dump prints something for a dump file without data bytes', {'op': 'cli', 'drawer': name, 'text': empty_text, 'rc': rc, 'stdout': out[:100]}, 'cli_empty')
            d = gen_dump(rng) or b'\x01\x02'
            r = lean_batch(['render 1 1 ' + tb(d)])[0]
            rlines = r.lines()
            # only ONE of the two table files given on the command line (the other one is the drawer's own), under file names that read like
            # shell variables / home directories
            other = [x for x in drawers if x[0] != name]
            if other:
                _, ohdr, osf = other[0]
                for extra, eh, es in ((['-d', ohdr], ohdr, sf), (['-s', osf], hdr, osf)):
                    odd = os.path.join(tmp, rng.choice(['$HOME_dump.txt', '${PATH}.txt', '~dump.txt', 'plain.txt']))
                    # (a dump whose ILOG entries and trace hashes occur in the tables, so that the two drawers' tables give different lines)
                    dd_ = sample if 'sample' in dir() else d
                    open(odd, 'w').write('\n'.join(lean_batch(['render 1 1 ' + tb(dd_)])[0].lines()) + '\n')
                    rc1, out1, _e1 = common.run2([common.PY, '-W', 'ignore', '-m', 'io_drawer.dump', '-t', name] + extra + [odd], env=common.child_env())
                    want1 = dp.parse_dump_data(memoryview(dd_), eh, es)
                    got1 = out1.split('\n')
                    if got1 and got1[-1] == '':
                        got1.pop()
                    ck.case(key=('cli-one-table', name, extra[0], os.path.basename(odd), d))
                    ck.count('cli with only %s given' % extra[0])
                    if rc1 != 0 or got1 != want1:
                        ck.fail('python -m io_drawer.dump with only %s given does not decode the regions with that file and the drawer\'s other table' % extra[0],
                                {'op': 'cli', 'drawer': name, 'argv': [extra[0], '<file of the other drawer>', os.path.basename(odd)], 'data_hex': d.hex()[:2000], 'rc': rc1, 'actual': got1[:5], 'expected': want1[:5]}, 'cli_one_table')
            path = os.path.join(tmp, 'cli.txt')
            open(path, 'w').write('\n'.join(rlines) + '\n')
            rc, out, _err = common.run2([common.PY, '-W', 'ignore', '-m', 'io_drawer.dump', '-t', name, path], env=common.child_env())
            real_raw = dp.parse_dump_data(memoryview(d), hdr, sf)
            ck.case(key=('cli', name, d), sample={'cli': 'python -m io_drawer.dump -t ' + name})
            ck.count('cli')
            got = [l for l in out.split('\n')]
            if got and got[-1] == '':
                got.pop()
            if rc != 0 or got != real_raw:
                ck.fail('python -m io_drawer.dump output differs from decoding the raw bytes', {'op': 'cli', 'drawer': name, 'data_hex': d.hex(), 'rc': rc, 'actual': got[:5], 'expected': real_raw[:5]}, 'cli')
    finally:
        shutil.rmtree(tmp, ignore_errors=True)
    return ck.finish(RULE, TRUSTED, ASSUME)


def replay(path):
    rp = json.load(open(path))
    print(json.dumps(rp, indent=1)[:3000])
    return 0
