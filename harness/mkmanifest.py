"""Writes MANIFEST.json from the table below (one place to keep it consistent)."""
import json
import os

VERIF = os.path.dirname(os.path.dirname(os.path.abspath(__file__)))
BASE = ('Lean 4.33.0 kernel; axioms propext/Classical.choice/Quot.sound only (audited with #print axioms on every run; '
        'no sorry/axiom/native_decide); the theorems are about the hand-written Lean model, tied to the code by '
        'regenerated pins (harness/extract.py -> PelGen/Live.lean) and by a differential correspondence run of the '
        'compiled model (peldrv) against the real Python functions; CPython primitives are modelled, not verified. ')

CLAIMED = {
    'C13': dict(
        text='Theorems (all byte strings, all layouts): line count, equal width, offset prefix, parse∘hexdump = id for the '
             'default format and for both I/O-drawer formats (padded or truncated short last line, arbitrary noise lines), '
             '--hex display. Pins: the three live templates equal the proved ones. Correspondence: real hexdump/parse vs the '
             'compiled model on generated layouts, renderings with noise, and garbage lines; property also checked directly '
             'on the real functions.',
        note=BASE + 'Offsets ≥ 2^32 excluded (lines longer than the template). The ASCII column is compared only for width.',
        technique='Lean 4 proof (induction over chunking + segment lemmas for the template scanner) + differential correspondence',
        ref='§4 C13'),
}

PENDING = {
}

ALL = ['C%02d' % i for i in range(1, 21)]


def main():
    checks = []
    for pid in ALL:
        if pid not in CLAIMED:
            continue
        c = CLAIMED[pid]
        checks.append({
            'property_id': pid,
            'quick_cmd': './check %s --tier quick' % pid,
            'thorough_cmd': './check %s --tier thorough' % pid,
            'evidence_file': 'evidence/%s.json' % pid,
            'replay_cmd_template': './check %s --replay {path}' % pid,
            'engine': 'lean-proofs+correspondence',
            'level_claimed': {'category': 'proof', 'text': c['text'], 'design_ref': 'DESIGN.md ' + c['ref']},
            'level_note': c['note'],
            'technique': c['technique'],
        })
    na = [{'property_id': pid, 'reason': PENDING.get(pid, 'not claimed yet: model/proofs/correspondence for this property are still being built (see DESIGN.md §7 build order); the technique applies')}
          for pid in ALL if pid not in CLAIMED]
    m = {
        'version': 1,
        'setup_cmd': 'cd lean && lake build PelModel PelGen peldrv && lake build PelProofs PelProps',
        'hooks': {
            'guard': 'OPENPOWER_PEL_PARSERS_VERIF',
            'enable': 'no instrumentation is compiled into the repository: all observation is external (in-process monkey patching inside the harness, subprocess runs, tree snapshots); the guard variable is unused',
            'baseline_off_cmd': 'cd /repo && /venv/bin/python -m pytest -ra -q -p no:cacheprovider --timeout=900 --continue-on-collection-errors',
            'source_commits': [],
            'add_only': True,
        },
        'engines': [
            {'name': 'lean-proofs', 'path': 'lean/', 'serves_properties': sorted(CLAIMED), 'kind_free_text': 'Lean 4 model (PelModel), lemmas (PelProofs), property theorems + pins (PelProps), regenerated constants (PelGen)'},
            {'name': 'correspondence', 'path': 'harness/', 'serves_properties': sorted(CLAIMED), 'kind_free_text': 'Python harness: generators, real-code adapters, compiled Lean driver peldrv over a line protocol, verdict/evidence'},
        ],
        'checks': checks,
        'notes': 'Repairs of genuine defects are the unguarded "fix:" commits in /repo listed in known_findings.json (fixed entries suppress nothing).',
        'not_applicable': na,
    }
    with open(os.path.join(VERIF, 'MANIFEST.json'), 'w') as f:
        json.dump(m, f, indent=1, ensure_ascii=False)
        f.write('\n')


if __name__ == '__main__':
    main()
