"""Writes MANIFEST.json from the table below (one place to keep it consistent)."""
import json
import os

VERIF = os.path.dirname(os.path.dirname(os.path.abspath(__file__)))
BASE = ('Lean 4.33.0 kernel; axioms propext/Classical.choice/Quot.sound only (audited with #print axioms on every run; '
        'no sorry/axiom/native_decide); the theorems are about the hand-written Lean model, tied to the code by '
        'regenerated pins (harness/extract.py -> PelGen/Live.lean) and by a differential correspondence run of the '
        'compiled model (peldrv) against the real Python functions; CPython primitives are modelled, not verified. ')

CLAIMED = {
    'C13': dict(
        text='Theorems (all byte strings, all layouts): line count, equal width, offset prefix, parse∘hexdump = id for the '
             'default format and for both I/O-drawer formats (padded or truncated short last line, arbitrary noise lines), '
             '--hex display. Pins: the three live templates equal the proved ones. Correspondence: real hexdump/parse vs the '
             'compiled model on generated layouts, renderings with noise, and garbage lines; property also checked directly '
             'on the real functions.',
        note=BASE + 'Offsets ≥ 2^32 excluded (lines longer than the template). The ASCII column is compared only for width.',
        technique='Lean 4 proof (induction over chunking + segment lemmas for the template scanner) + differential correspondence',
        ref='§4 C13'),
}

CLAIMED.update({
    'C07': dict(
        text='Theorems: the early-return chain of considerPEL equals the documented rule for every severity byte, action-flag word, '
             'switch combination and -S list (any order/duplicates); look-ups without options consider every PEL; default set, '
             '--every-pel, monotonicity without --only, group = high hex digit. Pins: the three flag masks, two severities, seven '
             'group digits. Correspondence: real considerPEL on all 256 severities per (flags, config) row; thorough tier is '
             'exhaustive over 64 switch sets x 128 group subsets x 24 flag words; argparse glue through real `peltool -n` runs.',
        note=BASE + 'argparse/Config glue is only exercised, not modelled.',
        technique='Lean 4 proof (boolean case analysis after abstracting the derived predicates) + exhaustive differential correspondence',
        ref='§4 C07'),
    'C14': dict(
        text='Theorems (all tables, all entry sequences, all byte strings via decompose): the decoder loop outputs the heading and one '
             'line per non-zero 8-byte entry in order, trailing partial entry ignored; first-match rule (as is / reported flag cleared); '
             'parameters are the designated PTE bytes; timestamp H:MM:SS / dashes; sequence number and PTE shown parse back. Pins: entry '
             'size and the four masks. Correspondence: both shipped tables (independent header reader vs PTETable; entries hitting every '
             'pattern, reported variants, random) and synthetic tables written to temporary header files.',
        note=BASE + 'The % operator is modelled by pyFmt for the subset used by the shipped tables and is opaque in the theorems; the header-file regex is tied by correspondence only.',
        technique='Lean 4 proof (induction over entries, loop = declarative spec) + differential correspondence',
        ref='§4 C14'),
    'C15': dict(
        text='Theorems: no-header fallback is a lossless dump; header fields come from the stated byte positions; a well-formed entry is read '
             'back exactly; an entry is rejected iff truncated/oversized/trailer mismatch; the loop shows exactly the entries starting before '
             'the declared size and stops at the first unreadable one; string choice = first exact else LAST partial; rendering rule '
             '(warning, dump iff binary/none/partial); end-to-end round trip. Pins: SIZE, FIXED_SIZE, MAX_DATA_LEN, TYPE_FIELDBIN, MAX_ARGS. '
             'Correspondence: shipped and synthetic string files, generated buffers incl. corrupted entries, truncation at every offset.',
        note=BASE + 'The % operator is modelled by pyFmt and opaque in the theorems; the string-file regex and ascii/ignore decoding are tied by correspondence only.',
        technique='Lean 4 proof (well-founded loop = declarative prefix, accumulator invariant for the string choice) + differential correspondence',
        ref='§4 C15'),
    'C16': dict(
        text='Theorems: the dump part is the lossless hex dump of all bytes (parses back); the field loop with its break equals the '
             'declarative rule (offset = sum of preceding widths, stop at first field that does not fit, listed iff non-zero, zero-padded '
             'to twice the width); shown value parses back. Correspondence: both shipped field tables (independent reader) and synthetic ones, '
             'every length from 0 past the full record.',
        note=BASE + 'The header-file regex is tied by correspondence only.',
        technique='Lean 4 proof (induction over the field list with an offset invariant) + differential correspondence',
        ref='§4 C16'),
    'C17': dict(
        text='Theorems: findSub returns the least occurrence; offsets sorted and in range; regions partition the input (ilog ++ traces = data); '
             'each trace region starts at a recognised header; no header pattern occurs before the first boundary; composition = stand-alone '
             'decoders under headings; empty input; decoding a dump file in either text format (padded/truncated last line, noise lines) equals '
             'decoding the raw bytes, with the template auto-detection falling through for pre-BMC text. Pins: start bytes, six names, divider, '
             'two formats. Correspondence: generated dumps vs real parse_dump_data / parse_dump_file / python -m io_drawer.dump; the property is '
             'also checked directly with the real stand-alone decoders on regions computed from the statement.',
        note=BASE + '"Recognised header" = first occurrence of each of the six 8-byte patterns.',
        technique='Lean 4 proof (least-index search, sorted-offset slicing lemma, reuse of the C13 round trips) + differential correspondence',
        ref='§4 C17'),
})

CLAIMED.update({
    'C06': dict(
        text='Theorems (every document, every column): prettyPrint applied to json.dumps equals the structural rendering that adds '
             'spaces only between the colon after a COMPLETE key and the value; the escape-aware key scan stops at the closing quote of the '
             'key whatever it contains; string list elements are never aligned; loads(prettyPrint n (dumps d)) = d for every document with '
             'distinct keys and surrogate-pair-free strings; the --all-pels framing parses back to the list. Correspondence: json.dumps, '
             'prettyPrint and json.loads of CPython compared character for character / value for value with the model on random adversarial '
             'documents, raw lines and mutated texts; the property is checked directly with the real json.loads on the real output.',
        note=BASE + 'Floats/NaN/Infinity are outside the model. The document hypothesis `wf` (distinct keys per object; no high surrogate directly followed by a low surrogate) is what Python dicts and json.loads/bytes.decode produce.',
        technique='Lean 4 proof (escape-aware scan lemma, line classification, recursive-descent parser inversion with a fuel measure) + differential correspondence',
        ref='§4 C06'),
})

CLAIMED.update({
    'C04': dict(
        text='Theorems over the whole path payload -> displayed section (every environment, every payload): each fallback (no module, plugins '
             'disabled, module raises, module returns None, built-in sub-type other than JSON/text, unrecognised section type) shows header keys '
             '(+ Error note) + "Data" = the hex dump of exactly the payload, whose lines parse back to the payload; built-in text = the lines '
             'of the stripped text with only non-printables replaced (loop = split/map spec); built-in JSON object members are all displayed, '
             'other JSON values under Data; round trip for any document printed by json.dumps; never_dropped case analysis. Correspondence: '
             'real parsePEL with fixture parser modules (echo / raise / None / invalid text / valid text) on and off, all creators/components, '
             'payloads of JSON, text, random bytes; the property is also checked directly with the real hexdump.parse on the displayed dump.',
        note=BASE + 'User JSON with floats is outside the model (counted and skipped). A built-in JSON/text payload that is not UTF-8 makes the decoder reject the PEL (cleanly): the model follows the code; the property does not cover that case.',
        technique='Lean 4 proof (case analysis over the dispatch, accumulator-generalised loop lemma, reuse of C06/C13 round trips) + differential correspondence',
        ref='§4 C04'),
    'C20': dict(
        text='Theorems: for all 2^96 signatures in either hex case the chip position/node/attention/signature id/instance/bit used for display '
             'and look-up are exactly the stated byte fields; with no chip data the three strings are the raw numbers; look-ups are case-insensitive; '
             'fall-backs for unknown chip / missing signature; the SRC parser uses words 6..8 and reference-code characters 6..7; signature lists and '
             'register dumps of any shape are listed completely and in order with exactly their data bytes (ungrouping lemma); scratch sections and '
             'callout FFDC reproduce their values. Correspondence: real ParserData / udparsers.oe500 / srcparsers.oe500 with chip-data fixtures '
             '(absent, full, partial) installed through pel.hwdiags.data.__file__.',
        note=BASE + 'Chip data files are assumed well-typed JSON of the documented shape with plain-hex register addresses.',
        technique='Lean 4 proof (hex-word slicing lemmas, reader-chain inductions) + differential correspondence',
        ref='§4 C20'),
})

PENDING = {
}

ALL = ['C%02d' % i for i in range(1, 21)]


def main():
    checks = []
    for pid in ALL:
        if pid not in CLAIMED:
            continue
        c = CLAIMED[pid]
        checks.append({
            'property_id': pid,
            'quick_cmd': './check %s --tier quick' % pid,
            'thorough_cmd': './check %s --tier thorough' % pid,
            'evidence_file': 'evidence/%s.json' % pid,
            'replay_cmd_template': './check %s --replay {path}' % pid,
            'engine': 'lean-proofs+correspondence',
            'level_claimed': {'category': 'proof', 'text': c['text'], 'design_ref': 'DESIGN.md ' + c['ref']},
            'level_note': c['note'],
            'technique': c['technique'],
        })
    na = [{'property_id': pid, 'reason': PENDING.get(pid, 'not claimed yet: model/proofs/correspondence for this property are still being built (see DESIGN.md §7 build order); the technique applies')}
          for pid in ALL if pid not in CLAIMED]
    m = {
        'version': 1,
        'setup_cmd': 'cd lean && lake build PelModel PelGen peldrv && lake build PelProofs PelProps',
        'hooks': {
            'guard': 'OPENPOWER_PEL_PARSERS_VERIF',
            'enable': 'no instrumentation is compiled into the repository: all observation is external (in-process monkey patching inside the harness, subprocess runs, tree snapshots); the guard variable is unused',
            'baseline_off_cmd': 'cd /repo && /venv/bin/python -m pytest -ra -q -p no:cacheprovider --timeout=900 --continue-on-collection-errors',
            'source_commits': [],
            'add_only': True,
        },
        'engines': [
            {'name': 'lean-proofs', 'path': 'lean/', 'serves_properties': sorted(CLAIMED), 'kind_free_text': 'Lean 4 model (PelModel), lemmas (PelProofs), property theorems + pins (PelProps), regenerated constants (PelGen)'},
            {'name': 'correspondence', 'path': 'harness/', 'serves_properties': sorted(CLAIMED), 'kind_free_text': 'Python harness: generators, real-code adapters, compiled Lean driver peldrv over a line protocol, verdict/evidence'},
        ],
        'checks': checks,
        'notes': 'Repairs of genuine defects are the unguarded "fix:" commits in /repo listed in known_findings.json (fixed entries suppress nothing).',
        'not_applicable': na,
    }
    with open(os.path.join(VERIF, 'MANIFEST.json'), 'w') as f:
        json.dump(m, f, indent=1, ensure_ascii=False)
        f.write('\n')


if __name__ == '__main__':
    main()
