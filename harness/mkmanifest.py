"""Writes MANIFEST.json from the table below (one place to keep it consistent)."""
import glob
import json
import os

VERIF = os.path.dirname(os.path.dirname(os.path.abspath(__file__)))
BASE = ('Lean 4.33.0 kernel; axioms propext/Classical.choice/Quot.sound only (audited with #print axioms on every run; '
        'no sorry/axiom/native_decide); the theorems are about the hand-written Lean model, tied to the code by '
        'regenerated pins (harness/extract.py -> PelGen/Live.lean) and by a differential correspondence run of the '
        'compiled model (peldrv) against the real Python functions; CPython primitives are modelled, not verified. ')

CLAIMED = {
    'C13': dict(
        text='Theorems (all byte strings, all layouts): line count, equal width, offset prefix, parse∘hexdump = id for the '
             'default format and for both I/O-drawer formats (padded or truncated short last line, arbitrary noise lines), '
             '--hex display. Pins: the three live templates equal the proved ones. Correspondence: real hexdump/parse vs the '
             'compiled model on generated layouts, renderings with noise, and garbage lines; property also checked directly '
             'on the real functions.',
        note=BASE + 'Offsets ≥ 2^32 excluded (lines longer than the template). The ASCII column is compared only for width.',
        technique='Lean 4 proof (induction over chunking + segment lemmas for the template scanner) + differential correspondence',
        ref='§4 C13'),
}

CLAIMED.update({
    'C07': dict(
        text='Theorems: the early-return chain of considerPEL equals the documented rule for every severity byte, action-flag word, '
             'switch combination and -S list (any order/duplicates); look-ups without options consider every PEL; default set, '
             '--every-pel, monotonicity without --only, group = high hex digit. Pins: the three flag masks, two severities, seven '
             'group digits. Correspondence: real considerPEL on all 256 severities per (flags, config) row; thorough tier is '
             'exhaustive over 64 switch sets x 128 group subsets x 24 flag words; argparse glue through real `peltool -n` runs. '
             'main(): the block of `if args.x: config.x = ...` statements is modelled (mkConfig) and proved to copy every switch, translate -S names in '
             'order with duplicates, and set a look-up id exactly in the five look-up branches, so the default-set and look-up theorems apply to '
             'what main() passes on; the Config built by the real main() is compared member by member on generated command lines.',
        note=BASE + 'The argument parser itself is only exercised (real command lines), not modelled; the model starts from the parsed namespace.',
        technique='Lean 4 proof (boolean case analysis after abstracting the derived predicates) + exhaustive differential correspondence',
        ref='§4 C07'),
    'C14': dict(
        text='Theorems (all tables, all entry sequences, all byte strings via decompose): the decoder loop outputs the heading and one '
             'line per non-zero 8-byte entry in order, trailing partial entry ignored; first-match rule (as is / reported flag cleared); '
             'parameters are the designated PTE bytes; timestamp H:MM:SS / dashes; sequence number and PTE shown parse back. Pins: entry '
             'size and the four masks. The header LOADER is modelled (backtracking regex matcher with re semantics, the three patterns as ASTs, the '
             'in_table line loop, _add_entry) and proved: a printed table loads back to its normal form (pte_header_roundtrip, well-formedness '
             'decidable, incl. the condition on quotes that TBL_ENTRY_RE needs), fullmatch of an entry line in any blank layout yields exactly the five '
             'groups, lines outside the table and non-matching lines contribute nothing, header file -> decoded lines end to end. '
             'Correspondence: Lean loader vs PTETable(path).entries (five fields) on shipped, synthetic and adversarial header files and the three '
             'patterns line by line; decoding with model-loaded tables (entries hitting every pattern, reported variants, random) on shipped and synthetic tables.',
        note=BASE + 'The % operator is modelled by pyFmt for the subset used by the shipped tables and is opaque in the theorems; that the hand-written regex ASTs denote the repo\'s pattern strings, and that the matcher has CPython\'s semantics, is tied by correspondence only.',
        technique='Lean 4 proof (induction over entries, loop = declarative spec) + differential correspondence',
        ref='§4 C14'),
    'C15': dict(
        text='Theorems: no-header fallback is a lossless dump; header fields come from the stated byte positions; a well-formed entry is read '
             'back exactly; an entry is rejected iff truncated/oversized/trailer mismatch; the loop shows exactly the entries starting before '
             'the declared size and stops at the first unreadable one; string choice = first exact else LAST partial; rendering rule '
             '(warning, dump iff binary/none/partial); end-to-end round trip. Pins: SIZE, FIXED_SIZE, MAX_DATA_LEN, TYPE_FIELDBIN, MAX_ARGS. '
             'The string-file LOADER is modelled (backtracking matcher, LINE_RE as an AST, the line loop, _add_trace_string) and proved: a printed file loads back '
             '(string_file_roundtrip; the greedy (.*) cuts at the LAST ||), groups of a line in any layout, non-matching lines are skipped, file -> chosen string. '
             'Correspondence: Lean loader vs TraceStringFile(path).trace_strings on shipped, synthetic and adversarial string files, LINE_RE line by line; '
             'generated buffers incl. corrupted entries, truncation at every offset, decoded with model-loaded string lists.',
        note=BASE + 'The % operator is modelled by pyFmt and opaque in the theorems; that the LINE_RE AST denotes the repo\'s pattern string (and the matcher CPython\'s semantics) and ascii/ignore decoding are tied by correspondence only.',
        technique='Lean 4 proof (well-founded loop = declarative prefix, accumulator invariant for the string choice) + differential correspondence',
        ref='§4 C15'),
    'C16': dict(
        text='Theorems: the dump part is the lossless hex dump of all bytes (parses back); the field loop with its break equals the '
             'declarative rule (offset = sum of preceding widths, stop at first field that does not fit, listed iff non-zero, zero-padded '
             'to twice the width); shown value parses back. The field-table LOADER is modelled (backtracking matcher, the three patterns as ASTs, the line loop) and '
             'proved: a printed table loads back (hlog_header_roundtrip), groups of a field line in any blank layout, lines outside the array and non-matching '
             'lines contribute nothing, header file -> field lines. Correspondence: Lean loader vs get_hlog_fields(path) on shipped, synthetic and adversarial '
             'headers and the three patterns line by line; both shipped field tables and synthetic ones (model-loaded), every length from 0 past the full record.',
        note=BASE + 'That the hand-written regex ASTs denote the repo\'s pattern strings, and that the matcher has CPython\'s semantics, is tied by correspondence only.',
        technique='Lean 4 proof (induction over the field list with an offset invariant) + differential correspondence',
        ref='§4 C16'),
    'C17': dict(
        text='Theorems: findSub returns the least occurrence; offsets sorted and in range; regions partition the input (ilog ++ traces = data); '
             'each trace region starts at a recognised header; no header pattern occurs before the first boundary; composition = stand-alone '
             'decoders under headings; empty input; decoding a dump file in either text format (padded/truncated last line, noise lines) equals '
             'decoding the raw bytes, with the template auto-detection falling through for pre-BMC text. Pins: start bytes, six names, divider, '
             'two formats. Correspondence: generated dumps vs real parse_dump_data / parse_dump_file / python -m io_drawer.dump; the property is '
             'also checked directly with the real stand-alone decoders on regions computed from the statement.',
        note=BASE + '"Recognised header" = first occurrence of each of the six 8-byte patterns.',
        technique='Lean 4 proof (least-index search, sorted-offset slicing lemma, reuse of the C13 round trips) + differential correspondence',
        ref='§4 C17'),
})

CLAIMED.update({
    'C06': dict(
        text='Theorems (every document, every column): prettyPrint applied to json.dumps equals the structural rendering that adds '
             'spaces only between the colon after a COMPLETE key and the value; the escape-aware key scan stops at the closing quote of the '
             'key whatever it contains; string list elements are never aligned; loads(prettyPrint n (dumps d)) = d for every document with '
             'distinct keys and surrogate-pair-free strings; the --all-pels framing parses back to the list. Correspondence: json.dumps, '
             'prettyPrint and json.loads of CPython compared character for character / value for value with the model on random adversarial '
             'documents, raw lines and mutated texts; the property is checked directly with the real json.loads on the real output.',
        note=BASE + 'Floats/NaN/Infinity are outside the model. The document hypothesis `wf` (distinct keys per object; no high surrogate directly followed by a low surrogate) is what Python dicts and json.loads/bytes.decode produce.',
        technique='Lean 4 proof (escape-aware scan lemma, line classification, recursive-descent parser inversion with a fuel measure) + differential correspondence',
        ref='§4 C06'),
})

CLAIMED.update({
    'C04': dict(
        text='Theorems over the whole path payload -> displayed section (every environment, every payload): each fallback (no module, plugins '
             'disabled, module raises, module returns None, built-in sub-type other than JSON/text, unrecognised section type) shows header keys '
             '(+ Error note) + "Data" = the hex dump of exactly the payload, whose lines parse back to the payload; built-in text = the lines '
             'of the stripped text with only non-printables replaced (loop = split/map spec); built-in JSON object members are all displayed, '
             'other JSON values under Data; round trip for any document printed by json.dumps; never_dropped case analysis. Correspondence: '
             'real parsePEL with fixture parser modules (echo / raise / None / invalid text / valid text) on and off, all creators/components, '
             'payloads of JSON, text, random bytes; the property is also checked directly with the real hexdump.parse on the displayed dump.',
        note=BASE + 'User JSON with floats is outside the model (counted and skipped). A built-in JSON/text payload that is not UTF-8 makes the decoder reject the PEL (cleanly): the model follows the code; the property does not cover that case.',
        technique='Lean 4 proof (case analysis over the dispatch, accumulator-generalised loop lemma, reuse of C06/C13 round trips) + differential correspondence',
        ref='§4 C04'),
    'C20': dict(
        text='Theorems: for all 2^96 signatures in either hex case the chip position/node/attention/signature id/instance/bit used for display '
             'and look-up are exactly the stated byte fields; with no chip data the three strings are the raw numbers; look-ups are case-insensitive; '
             'fall-backs for unknown chip / missing signature; the SRC parser uses words 6..8 and reference-code characters 6..7; signature lists and '
             'register dumps of any shape are listed completely and in order with exactly their data bytes (ungrouping lemma); scratch sections and '
             'callout FFDC reproduce their values. Correspondence: real ParserData / udparsers.oe500 / srcparsers.oe500 with chip-data fixtures '
             '(absent, full, partial) installed through pel.hwdiags.data.__file__.',
        note=BASE + 'Chip data files are assumed well-typed JSON of the documented shape with plain-hex register addresses.',
        technique='Lean 4 proof (hex-word slicing lemmas, reader-chain inductions) + differential correspondence',
        ref='§4 C20'),
})

CLAIMED.update({
    'C01': dict(
        text='Theorems: every well-formed optional section of any of the nine kinds (SRC with any callouts, EH, MT, LP, UD, ED, hexdump-only and '
             'unknown ids) is consumed exactly (frame_section: whatever follows is untouched); the whole decoder maps enc(p) ++ trailing to exactly '
             'the prescribed document for every well-formed selected PEL (decode_encode, by induction over the section list through the Frames '
             'combinators); one entry per section in log order under numbered names (entries, numbering_rule = buildOutput two-pass counter); '
             'unselected PELs yield no document. Pins: nine section ids, published names. Correspondence: abstract PELs with 0..40 (thorough: 253) '
             'sections encoded by the Lean enc (cross-checked with an independent Python encoder) through the real parsePEL vs model vs spec.',
        note=BASE + 'Well-formed = PH, UH, then sections each encoded with its computed length; UD/ED/other payload >= 1 byte; display names must not collide (hypothesis hnames, true for the published table); the message registry is a parameter of the theorems (empty in the C01 correspondence, exercised by C03).',
        technique='Lean 4 proof (Frames: exact consumption + prefix rejection, closed under bind; induction over sections) + differential correspondence',
        ref='§4 C01'),
    'C02': dict(
        text='Theorems: field-wise round trips for PH, UH, EH, MT, LP for all field values within their widths and ALL name tables; displayed hex / '
             '{:02X} / decimal texts determine the encoded value (injectivity); action flags = exactly the defined single bits that are on, in table '
             'order; BCD time layout; NUL padding stripped and nothing else; PHYP / registry component ids. Pins: every published table entry still '
             'maps to the same name in the live tables; live action-flag keys are single bits. Correspondence: boundary-biased headers, every table key '
             'and its neighbours, fixture component-id registry, non-ASCII text for the correspondence only.',
        note=BASE + 'Text fields are printable ASCII in the theorems (the model decodes UTF-8 in general and is exercised on non-ASCII / invalid UTF-8 by the correspondence).',
        technique='Lean 4 proof (Frames combinators per field, bit-field lemmas) + differential correspondence',
        ref='§4 C02'),
    'C03': dict(
        text='Theorems: every well-formed SRC (all words, flag bytes, word counts 0..9, any number of callouts with any FRU flag combination, optional '
             'PCE / MRU, location codes 0..80) decodes to renderSrc, which spells every displayed field out by arithmetic on the encoded values; callouts '
             'listed in order with Callout Count; hex words 2..wordCount; single-bit tests; MRU ids. Also strictness (every proper prefix rejected) '
             'including the peek-based substructure walk. Message registry (a parameter): the first entry in list order whose reason code contains '
             'the SRC code and whose type matches decides (registry_first_match*), its message is the segments interleaved with hex() of the SRC words '
             'named by the argument sources (registry_message, registry_message_shown), the result is the "Error Details" member (error_details_in_render), '
             'no match / empty registry => no member (registry_no_match, registry_empty). Pins: header / error-status / FRU flag masks, SRC types, FRU type and priority tables. '
             'Correspondence: all FRU x PCE x MRU combinations, the adversarial "PE"/"MR"/"ID" byte pairs, fixture SRC / callout modules, generated '
             'message registries (colliding reason codes, 0..4 placeholders, malformed sources and word keys), out-of-domain inputs.',
        note=BASE + 'The message registry is a parameter of the model (SrcEnv.registry); the harness installs generated registries as pel.peltool.src.registry.pels, and (c03.check_registry_file) as a JSON file named by a fixture pel_registry package that separate peltool runs load through Registry.loadJson while the file is replaced between runs; the sandbox has no real pel_registry package, so the shipped message_registry.json itself is never read. Registry members are strings; str.format field syntax in messages, non-ASCII digits and int() spellings other than [0-9]+ are outside the modelled subset (model answers unsupported; counted and skipped).',
        technique='Lean 4 proof (continuation-passing exactness lemmas for nested variable-length records, invariant over the callout loop) + differential correspondence',
        ref='§4 C03'),
    'C05': dict(
        text='Theorems: every proper prefix of a well-formed selected PEL is rejected with an error (strict half of Frames, for all section kinds incl. SRC '
             'callouts); reads return exactly the next n bytes / fail past the end; whatever the input, the decoder consumes a prefix of it (Suffixing '
             'invariant through every reader incl. the fuelled loops); exit status of --file is 0 or 1. Totality: every model function is structural or '
             'fuelled recursion, so an outcome exists for every byte string. Correspondence/observation: every prefix and sampled single-byte corruptions '
             'of generated PELs and random bytes through the real parsePEL (outcome AND document compared with the model), CLI runs under python and '
             'python -O (exit status, no traceback, stdout empty or JSON, prefixes never decoded), per-input timing.',
        note=BASE + 'PARTIAL by nature: "promptly", "no traceback" and the -O behaviour are observed on the real interpreter, not proved.',
        technique='Lean 4 proof (Frames strictness, prefix-consumption invariant) + differential correspondence + subprocess observation under -O',
        ref='§4 C05'),
    'C10': dict(
        text='Theorems: all six spellings of a 32-bit id normalise to its eight upper-case digits; the --plid comparison is equality of the ids; --plid and '
             '--src list exactly the matching summaries in presentation order; --id / --bmc-id report "PEL not found" exactly when nothing matches and '
             'display only a matching file; decimal ids are injective; isInfix = contiguous substring; look-ups without options consider every PEL. '
             'Correspondence: real CLI look-ups on generated directories (ids below 0x10000000, hidden PELs, absent ids, over-long arguments).',
        note=BASE + 'os.walk order is a parameter of the model.',
        technique='Lean 4 proof (normalisation + injectivity lemmas, filterMap equalities) + differential correspondence',
        ref='§4 C10'),
    'C11': dict(
        text='Theorems: --delete removes at most one file, a top-level file whose name contains the processed id, and keeps every other file; not found / '
             'bad id => nothing removed; --delete-all empties the top level; --json creates only <file>.<eid>.json for decodable selected inputs and removes '
             'inputs only with --clean and only those. Read-only modes and subdirectories are outside what the mutating functions can touch by construction. '
             'main(): the priority chain of modes is modelled (dispatch) and proved equal to a declarative first-truthy-wins chain; a delete function is reached '
             'only with a non-empty -d / with -D, always on the -p directory after isdir, never next to a higher-priority mode option; delete_after_parsing / '
             'main()\'s own os.remove only with --clean. '
             'Correspondence/observation: recursive tree snapshots before/after real invocations of every mode and mixes of modes; the real main() with all '
             'callees recorded on all pairs and (thorough) all 8192 subsets of the thirteen mode options, compared with the model.',
        note=BASE + 'Frame conditions of the read-only modes hold by the types of the model (they return no directory); the real code is held to them by snapshots.',
        technique='Lean 4 proof (frame conditions on an abstract directory) + tree-snapshot observation',
        ref='§4 C11'),
    'C12': dict(
        text='Theorems (every number of writes, every fault plan, every prefix of the trace = every crash point): a removal of the input occurs only after '
             'open, all writes and close (resp. print and flush) succeeded; any earlier fault, a decode failure or a filtered PEL leaves the input in place; '
             'removal iff nothing faults; main()\'s -f branch calls os.remove(the -f file) iff --clean and parseAndPrintPELFile returned True, which is '
             'exactly when the event trace contains the removal. Correspondence: fault-injecting proxies for open / write / close / stdout / os.remove around the real main(), '
             'ENOSPC / EIO / EPIPE at every kind of step, event trace compared with the model, final state checked; /dev/full on the real OS.',
        note=BASE + 'PARTIAL by nature: durability beyond close() (no fsync in the code) and kernel crashes are outside any executable model.',
        technique='Lean 4 proof (invariant over trace prefixes) + fault-injection correspondence',
        ref='§4 C12'),
    'C18': dict(
        text='Theorems over ALL environments: the UD module consulted is udparsers.<creator lower><comp %04x> and no other module matters; it receives subtype, '
             'version and exact payload; the SRC module is <creator>src, for BMC the component of the reference code or bsrc for BC codes, and receives the '
             'reference code and eight hex words; raising / absent / empty results yield no SRC Details and nothing else; with plugins disabled every '
             'environment gives the same result; m2c00 always returns an object and routes 72/73/84 by version. Pins: subtypes, drawer versions, formats. '
             'Correspondence: fixture modules of every behaviour, an import hook logging every import attempt, the shipped m2c00.',
        note=BASE + 'importlib is an environment parameter; the import log on the real side is a sys.meta_path finder.',
        technique='Lean 4 proof (dependence of the result on one environment point) + differential correspondence with an import hook',
        ref='§4 C18'),
    'C19': dict(
        text='Theorems: caches are coherent initially and after every decode (any input, any touched modules); with coherent caches a decode equals a fresh '
             'decode; hence after ANY history the result for b is the result of decoding b first; a poisoned cache (the repaired defect) is not coherent. '
             'Correspondence/observation: histories of 2..30 decodes in one process (failing, filtered, plugin-raising steps, plugins toggled) compared '
             'step by step with the stateless model and, sampled, with a fresh interpreter; the real caches are inspected after every step; -a vs -f and -a vs -a -r.',
        note=BASE + 'Only the three module caches are cross-decode state in the model: state a change might ADD is caught by the history runs only.',
        technique='Lean 4 proof (cache-coherence invariant => history independence) + history-vs-fresh-interpreter correspondence',
        ref='§4 C19'),
})

CLAIMED.update({
    'C08': dict(
        text='Theorems (abstract directories of well-formed PELs with distinct entry ids): the file list is the abstract sorted list; the summary decoder '
             '(which stops at the primary SRC) shows exactly the corresponding fields of the PEL, which equal the fields of the full decode; count = number '
             'of selected PELs; --list = exactly the selected PELs keyed by entry id, --all-pels = exactly their full decodes, both in presentation order; '
             'ascending file-name order (strict total order on code points), --reverse = the reverse sequence, --extension restricts and loses nothing; '
             'splitext. Correspondence: generated directories through the real -n / -l / -a / -l -x (in-process and as subprocesses), cross-mode relations '
             'checked directly on the real output.',
        note=BASE + 'os.walk / list.sort / os.path.splitext / argparse are modelled; the domain is directories whose PELs the decoder accepts.',
        technique='Lean 4 proof (insertion sort on a strict total order, filterMap = filter-then-map, summary decoder framing) + differential correspondence',
        ref='§4 C08'),
    'C09': dict(
        text='Theorems (any directory, any junk file a mode cannot decode, inserted anywhere in walk order): stdout and exit status of --list, --all-pels, '
             '--show-pel-count, --plid, --src/--src-exclude are unchanged and diagnostics only grow; --json creates/removes the same files; stdout of the JSON '
             'modes is the print-out of ONE document (so C06 applies) and with --hex a sequence of delimited dumps; decoders cannot write to stdout by '
             'construction. Correspondence: each mode on D and on D + junk (empty, truncations, random bytes, bad ids, the PCE-size witness, subdirectories) '
             'on the real CLI, byte-for-byte.',
        note=BASE + 'Junk is classified per mode by what that mode actually reads (summary modes stop at the primary SRC; count reads two headers). Unreadable-by-permission files are not exercised.',
        technique='Lean 4 proof (sorted-insertion lemma, filterMap non-interference) + differential correspondence',
        ref='§4 C09'),
})

PENDING = {
}

# the WHOLE command (PelModel/Top.lean: runMain = dispatch followed by the mode it names, on a World), per property
WHOLE = ('Whole command: runMain (PelModel/Top.lean) composes main()\'s dispatch with the mode it names over a World (top-level files of the -p directory '
         'in walk order, subdirectory names, the -f / --src-exclude / -o files); harness/toprun.py runs the real peltool.main() end to end on real trees '
         '(nothing replaced, recursive snapshots) against the driver op runmain and judges the command-level property on the real run. ')
TOP = {
    'C07': 'command_default_selection: a whole `-l` command line is listOption with the Config of the command line, whose selection is the default set '
           'without selection options and everything with -E (C08.command_default_selection_lists spells the listed set out).',
    'C08': 'command_count_list_all_agree: three command lines differing only in -n / -l / -a on the same world print |S|, S and S for ONE sequence S of '
           'selected PELs, reversed exactly with -r; exit 0, world unchanged.',
    'C09': 'command_junk_noninterference (+ command_junk_list): an undecodable file anywhere in the directory changes neither stdout nor the exit status of any '
           'command line reaching -l / -a / -n / --plid / --src / --src-exclude.',
    'C10': 'command_lookup_ignores_class: a command line reaching a look-up without selection options hands on the selection {look-up id stored}, and its whole '
           'result equals that of the same command line with -E.',
    'C11': 'command_readonly: without -d / -D / --clean / --json the new world IS the old one (all environments, command lines, worlds, fault plans); --json without '
           '--clean only adds <pel file>.<entry id>.json outputs (the -p directory untouched when -o names another directory); command_delete_exact: -d reached '
           'removes at most one top-level file whose name contains the id, -D exactly the top-level files; command_json_calls.',
    'C12': 'command_file_clean: after `-f F --clean` F is gone iff it decoded to a selected document (no fault) / iff cleanFileTrace has a successful removeIn (any '
           'fault plan); still there unless print, flush and remove all succeeded; nothing else changes.',
}
for _k, _t in TOP.items():
    CLAIMED[_k]['text'] += ' ' + WHOLE + _t

ALL = ['C%02d' % i for i in range(1, 21)]

# source tie: functions regenerated from the source text on every run and proved equal to the model (one module per property)
import re as _re
for _pid in list(CLAIMED):
    _tf = os.path.join(VERIF, 'lean', 'PelProps', 'Tie%s.lean' % _pid)
    if os.path.exists(_tf):
        _src = _re.sub(r'/-.*?-/', '', open(_tf).read(), flags=_re.S)
        _names = _re.findall(r'^\s*theorem\s+(\S+)', _src, _re.M)
        CLAIMED[_pid]['text'] += (' Source tie (PelProps/Tie%s.lean, re-proved on every run): the functions that harness/trans_*.py regenerates from the CURRENT source text '
                                  '(lean/PelGen/Gen*.lean) are proved equal to the model functions these theorems are about: %s; a function that leaves the translatable '
                                  'subset is reported as TRANSLATION-UNAVAILABLE and is then tied by the correspondence run only.' % (_pid, ', '.join(_names)))
        CLAIMED[_pid]['technique'] += ' + source-to-Lean translation tie (regenerated definitions proved equal to the model)'


def main():
    checks = []
    for pid in ALL:
        if pid not in CLAIMED:
            continue
        c = CLAIMED[pid]
        checks.append({
            'property_id': pid,
            'quick_cmd': './check %s --tier quick' % pid,
            'thorough_cmd': './check %s --tier thorough' % pid,
            'evidence_file': 'evidence/%s.json' % pid,
            'replay_cmd_template': './check %s --replay {path}' % pid,
            'engine': 'lean-proofs+correspondence',
            'level_claimed': {'category': 'proof', 'text': c['text'], 'design_ref': 'DESIGN.md ' + c['ref']},
            'level_note': c['note'],
            'technique': c['technique'],
        })
    na = [{'property_id': pid, 'reason': PENDING.get(pid, 'not claimed yet: model/proofs/correspondence for this property are still being built (see DESIGN.md §7 build order); the technique applies')}
          for pid in ALL if pid not in CLAIMED]
    m = {
        'version': 1,
        'setup_cmd': '/venv/bin/python harness/extract.py && cd lean && lake build PelModel PelGen peldrv && lake build ' + ' '.join('PelProps.' + p for p in sorted(CLAIMED)) +
                     ' ' + ' '.join('PelProps.' + os.path.basename(f)[:-5] for f in sorted(glob.glob(os.path.join(VERIF, 'lean', 'PelProps', 'Tie*.lean')))),
        'hooks': {
            'guard': 'OPENPOWER_PEL_PARSERS_VERIF',
            'enable': 'no instrumentation is compiled into the repository: all observation is external (in-process monkey patching inside the harness, subprocess runs, tree snapshots); the guard variable is unused',
            'baseline_off_cmd': 'cd /repo && /venv/bin/python -m pytest -ra -q -p no:cacheprovider --timeout=900 --continue-on-collection-errors',
            'source_commits': [],
            'add_only': True,
        },
        'engines': [
            {'name': 'lean-proofs', 'path': 'lean/', 'serves_properties': sorted(CLAIMED), 'kind_free_text': 'Lean 4 model (PelModel), lemmas (PelProofs), property theorems + pins (PelProps), regenerated constants (PelGen)'},
            {'name': 'correspondence', 'path': 'harness/', 'serves_properties': sorted(CLAIMED), 'kind_free_text': 'Python harness: generators, real-code adapters, compiled Lean driver peldrv over a line protocol, verdict/evidence'},
        ],
        'checks': checks,
        'notes': 'Repairs of genuine defects are the unguarded "fix:" commits in /repo listed in known_findings.json (fixed entries suppress nothing).',
        'not_applicable': na,
    }
    with open(os.path.join(VERIF, 'MANIFEST.json'), 'w') as f:
        json.dump(m, f, indent=1, ensure_ascii=False)
        f.write('\n')


if __name__ == '__main__':
    main()
