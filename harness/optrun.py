"""
Batch decoder run in a separate interpreter (used with `python -O`): reads one hex string per line on stdin, decodes each with the
real parsePEL (every-pel configuration, plugins allowed) and prints one JSON line per input: [outcome class, detail].
The caller compares these outcomes with those of the same inputs in a normal interpreter: C05 demands that they be the same.
"""
import hashlib
import io
import json
import sys
from contextlib import redirect_stderr, redirect_stdout

sys.dont_write_bytecode = True


def main():
    from pel.peltool import peltool
    from pel.peltool.config import Config
    from pel.datastream import DataStream
    out = sys.stdout
    for line in sys.stdin:
        data = bytes.fromhex(line.strip())
        c = Config()
        c.every_pel = True
        so, se = io.StringIO(), io.StringIO()
        try:
            with redirect_stdout(so), redirect_stderr(se):
                eid, text = peltool.parsePEL(DataStream(data, byte_order='big', is_signed=False), c, False)
            res = ['doc', eid, hashlib.sha1(text.encode()).hexdigest()] if text else ['nodoc']
        except SystemExit as e:
            res = ['error', 'SystemExit']
        except Exception as e:  # noqa
            res = ['error', type(e).__name__]
        out.write(json.dumps(res) + '\n')
    out.flush()


main()
