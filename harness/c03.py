"""C03 — SRC sections display the encoded words, flags and every callout faithfully."""
import json

import apel
import common
from c01 import compare
from common import Check, lean_batch

TRUSTED = ['Lean 4.33.0 kernel (+ leanchecker in the thorough tier)',
           'axioms: propext, Classical.choice, Quot.sound only (audited per theorem)',
           'harness/extract.py (live tables in the driver), harness/c03.py + apel.py (generator, fixture modules, comparison), Drv.lean protocol parsing',
           'compiled driver peldrv agrees with the kernel reading of the same definitions']
ASSUME = ['the message registry is a parameter (`SrcEnv.registry`, installed on the real side as `pel.peltool.src.registry.pels`; the sandbox has no '
          'pel_registry package, so the shipped registry file itself is not read): entries have string-valued ReasonCode / Type / Message / '
          'MessageArgSources items / Description / AdditionalDataPropSource; Python constructs outside the modelled subset (`{` or `}` in a message '
          'with argument sources, a non-ASCII last character of an argument source, a Words6To9 key that is not a string of ASCII digits) make the '
          'model answer "unsupported" and are counted and skipped',
          'procedure descriptions come from the shipped ocallouts table (read from the live module) and from fixture callout modules',
          'decoder-imposed well-formedness: callout sizes add up to a multiple of four, a PCE name has at least one byte, word count <= 9, every callout has a FRU identity']
RULE = ('cases = PELs with primary/secondary SRC sections: all 32-bit word patterns incl. the status bits, all flag bytes, word counts 0..9, 0..6 '
        'callouts over all 16 FRU flag combinations x PCE present/absent x MRU counts {0,1,2,3,15} x location lengths {0..80}, BMC / power / '
        'hostboot / other types, SRC parser modules echo / raising / absent, plugins on and off; message registries of 0..6 entries (reason codes '
        'that contain one another as substrings, types BD / 11 / BC / other / absent, messages with 0..4 placeholders incl. %0, %%1, %12, repeated '
        'digits, more and fewer placeholders than argument sources, sources SRCWord0..SRCWord9 and malformed ones, Words6To9 with / without '
        'Description, keys 6..9 and 0, 1, 10, a "Message" property key), about half of the SRCs hitting a reason code of the registry in use; plus '
        'out-of-domain inputs (word count >= 10, PCE size < 24, non-ASCII text) for the correspondence only; non-trivial = an SRC with at least one '
        'callout or with "Error Details"; distinct by bytes')
SRC_FIX = {'xsrc': ('echo',), 'ysrc': ('raises',), 'o8d00': ('echo',), 'oab00': ('raises',), 'occ00': ('text', 'null'), 'bsrc': ('echo',)}
# callout parsers: x fine; y raises for the procedure PROCBAD! (and knows the others); B raises for every procedure
CO_FIX = {'x': ('table', {'PROC0001': ['line one', 'line "two"'], 'PROC0002': []}),
          'y': ('table_raise', {'PROC0001': ['why one'], 'PROC0002': ['why two']}, 'PROCBAD!'), 'b': ('raises',)}

# ---- message registries
CODES = ['8D34', '8d34', 'AB34', 'CC34', '7734', '2034', '8D10', '8d10', 'AB10', 'CC10', '7710', '2010', '2600']
PIECES = ['rc ', ' value ', '.', '', '', ' at 100% ', ' %0 ', ' %%', '\u00e9 ', ' "q" ', '\\', ' word', '%']
PLACES = ['%1', '%2', '%3', '%9', '%1', '%2']
SOURCES = ['SRCWord6', 'SRCWord7', 'SRCWord8', 'SRCWord9', 'SRCWord6', 'SRCWord9', 'SRCWord2', 'SRCWord5', 'SRCWord3', 'SRCWord4',
           'SRCWord0', 'SRCWord1', 'SRCWord10', '7']
BAD_SOURCES = ['', 'SRCWord', 'SRCWordX', 'SRCWord ', 'SRCWord\u0663', 'SRCWord\u00b2', '-']
WORD_KEYS = ['6', '7', '8', '9', '6', '7', '8', '9', '0', '1', '10', '2', '06', '11']
BAD_KEYS = [' 6', '+7', 'x', '', '-1', '\u0666', '1_0']
PROPS = ['RC', 'PROP', 'Message', 'CALLOUT_IID', 'RC', 'Error Details']


def gen_reason(rng):
    c = rng.choice(CODES)
    k = rng.random()
    if k < 0.55:
        return '0x' + c
    if k < 0.72:
        return '0x' + c + rng.choice(['1234', '0', ' 0x2600', 'F'])      # the SRC's code is a proper substring of this one
    if k < 0.80:
        return rng.choice(['BD', 'zz ', '0x']) + '0x' + c
    if k < 0.90:
        return '0x' + c[:3]                                               # a proper prefix of an SRC's code: never matches
    return rng.choice(['0x', '', c, '0X' + c])


def gen_message(rng):
    """(message, number of %[1-9] pieces put in)"""
    if rng.random() < 0.05:
        return '', 0
    n = rng.choice([0, 1, 2, 2, 3, 4])
    m = rng.choice(PIECES)
    for _ in range(n):
        m += rng.choice(PLACES) + rng.choice(PIECES)
    if rng.random() < 0.2:
        m += rng.choice(['%12', '%%1', '%0', '%', '%a', '%1%2', '%10'])
    if rng.random() < 0.03:
        m += rng.choice(['{', '}', '{}', '{0}', '{{}}'])
    return m, n


def gen_entry(rng):
    src, doc = {}, {}
    if rng.random() < 0.93:
        src['ReasonCode'] = gen_reason(rng)
    ty = rng.choice(['BD', 'BD', '11', 'BC', None, None, 'B7', 'bd'])
    if ty is not None:
        src['Type'] = ty
    doc['Message'], n = gen_message(rng)
    if rng.random() < 0.7:
        k = max(0, n + rng.choice([0, 0, 0, 0, 1, 2, -1]))
        doc['MessageArgSources'] = [rng.choice(BAD_SOURCES) if rng.random() < 0.04 else rng.choice(SOURCES) for _ in range(k)]
    if rng.random() < 0.55:
        w = {}
        for _ in range(rng.choice([0, 1, 2, 3, 4, 5])):
            key = rng.choice(BAD_KEYS) if rng.random() < 0.04 else rng.choice(WORD_KEYS)
            wc = {}
            if rng.random() < 0.85:
                wc['Description'] = rng.choice(['the rc', 'a word', '', 'caf\u00e9 "x"', 'Message'])
            if rng.random() < 0.93:
                wc['AdditionalDataPropSource'] = rng.choice(PROPS)
            w[key] = wc
        src['Words6To9'] = w
    return {'SRC': src, 'Documentation': doc}


def gen_registry(rng):
    return [gen_entry(rng) for _ in range(rng.choice([0, 1, 2, 3, 4, 6, 6]))]


def hit_ascii(rng, reg):
    """an SRC reference code whose characters 4..7 occur (after "0x") in a reason code of the registry, usually of that entry's type"""
    cands = []
    for e in reg:
        rc = e['SRC'].get('ReasonCode', '')
        i = rc.find('0x')
        if i >= 0 and len(rc) >= i + 6 and rc[i + 2:i + 6].isascii():
            cands.append((e, rc[i + 2:i + 6]))
    if not cands:
        return None
    e, code = rng.choice(cands)
    ty = e['SRC'].get('Type', 'BD') if rng.random() < 0.85 else rng.choice(['BD', '11', 'BC', 'B7'])
    a = ty.encode() + rng.choice([b'12', b'00', b'70']) + code.encode() + rng.choice([b'', b' trailing', b'34'])
    return a.ljust(32, rng.choice([b' ', b'\0']))[:32]


def check_description_only(ck, rng, n):
    """whatever a callout parser module answers ends up under "Description" and NOWHERE else: the members decoded from the callout's own bytes
    (priority, location code, part number / procedure, CCIN, serial number, PCE, MRU ids) are the same with a module that answers with a JSON
    object carrying those very member names as without any module.  (Real code on both sides; the model's parsers answer with lines only.)"""
    obj = {'Priority': 'Low', 'Location Code': 'Ufake', 'Procedure': 'FAKE', 'Part Number': 'FAKE', 'CCIN': 'XXXX', 'Serial Number': 'FAKE', 'Callout Count': 99,
           'FRU Type': 'fake', 'Description': ['nested'], 'MRUs': 'fake', 'PCE': 'fake'}
    env = apel.PluginEnv(allow=True, callout={'z': ('object', obj)}).install()
    try:
        for _ in range(n):
            x = apel.gen_src(rng)
            if not x['callouts'] or not x['callouts']['callouts']:
                continue
            for c in x['callouts']['callouts']:
                if c['fru']['flags'] & 0x02:
                    c['fru']['pn'] = rng.choice([b'PROC0001', b'BMC0001\0', b'PROCXYZ1'])
            docs = {}
            for cr in 'zq':
                p = apel.gen_pel(rng, max_sections=0)
                p['ph']['creator'] = ord(cr)
                p['sections'] = [{'kind': 'src', 'hdr': dict(apel.gen_hdr(rng), comp=0x1234), 'primary': True, 'src': x}]
                r = apel.real_decode(apel.enc_pel(p))
                docs[cr] = r
            ck.case(key=('description-only', json.dumps(x, default=repr)[:2000]))
            ck.count('callout parser answering with an object')
            def callouts(r):
                if r[0] != 'doc':
                    return ('no document', str(r[:3])[:100])
                src = dict(r[2][1]).get('Primary SRC')
                sec = dict(src[1]).get('Callout Section') if src else None
                if sec is None:
                    return None
                out = []
                for k, v in sec[1]:
                    if k == 'Callouts':
                        out.append((k, [[kv for kv in c[1] if kv[0] != 'Description'] for c in v]))
                    else:
                        out.append((k, v))
                return out
            if callouts(docs['z']) != callouts(docs['q']):
                ck.fail('what a callout parser module answers changed callout members other than "Description"',
                        {'op': 'callout-object', 'plugins': 'calloutparsers.zcallouts answers every procedure with ' + json.dumps(obj)[:200], 'with_module': str(callouts(docs['z']))[:400], 'without_module': str(callouts(docs['q']))[:400]},
                        'description_only')
    finally:
        env.uninstall()


def check_registry_file(ck, rng, rounds):
    """The registry as the repository's own loader reads it: a `pel_registry` package that names a JSON file, separate peltool runs,
    the file replaced between the runs (newer, same and OLDER modification time -- package downgrade, `cp -p`).  Each run must
    describe the SRC from the file's CURRENT content: what it shows is compared with the same decode in this process with
    that registry installed directly."""
    import os, shutil, tempfile, time
    import clirun, pelbuild
    from pel.peltool import src as _src
    root = tempfile.mkdtemp(prefix='c03reg_')
    try:
        pkg = os.path.join(root, 'site', 'pel_registry')
        os.makedirs(pkg)
        with open(os.path.join(pkg, '__init__.py'), 'w') as f:
            f.write("import os\ndef get_registry_path():\n    return os.path.join(os.path.dirname(__file__), 'message_registry.json')\n")
        regfile = os.path.join(pkg, 'message_registry.json')
        extra = {'PYTHONPATH': common.child_env()['PYTHONPATH'] + os.pathsep + os.path.join(root, 'site')}
        for rnd in range(rounds):
            def entry(msg, code='0x8D12', ty='BD'):
                return {'SRC': {'ReasonCode': code, 'Type': ty, 'Words6To9': {'6': {'Description': 'w6 ' + msg[:4], 'AdditionalDataPropSource': 'P'}}},
                        'Documentation': {'Message': msg, 'MessageArgSources': ['SRCWord6'], 'Description': 'long text ' * 5, 'Notes': ['n']}}
            versions = [[entry('first wording %1'), entry('shadowed')], [entry('second wording, word is %1')], [entry('other code', code='0x8D13')],
                        [entry('third wording'), entry('x', ty='11')]]
            if rnd:
                g = [r for r in (gen_registry(rng) for _ in range(12)) if hit_ascii(rng, r)][:3]
                versions = g + versions[:2] if len(g) >= 2 else versions
            asc = (hit_ascii(rng, versions[0]) if rnd else None) or b'BD128D12'
            data = pelbuild.pel([pelbuild.UH(), pelbuild.SRC(asc=asc, words=[0x02000055, 0, 0, 0, 0xCAFE0001, 2, 3, 4])], creator=b'O', eid=0x0C030000 + rnd)
            pelfile = os.path.join(root, 'pel_%d' % rnd)
            with open(pelfile, 'wb') as f:
                f.write(data)
            t0 = time.time() - 5000
            # (how the file is replaced, modification time relative to the first version's)
            steps = [('written', 0)] + [(rng.choice(['replaced', 'rewritten in place']), dt) for dt in (-300, 0, +300, -1)]
            for i, (how, dt) in enumerate(steps):
                reg = versions[i % len(versions)]
                if how == 'replaced':
                    tmpf = regfile + '.new'
                    with open(tmpf, 'w') as f:
                        json.dump({'PELs': reg}, f)
                    os.replace(tmpf, regfile)
                else:
                    with open(regfile, 'w') as f:
                        json.dump({'PELs': reg}, f)
                os.utime(regfile, (t0 + dt, t0 + dt))
                old = _src.registry.pels
                _src.registry.pels = reg
                try:
                    want = apel.real_decode(data)
                finally:
                    _src.registry.pels = old
                so, se, sx = clirun.run_sub(['-f', pelfile, '-E'], env_extra=extra)
                try:
                    got = json.loads(so)
                except Exception:
                    got = None
                ck.case(key=('registry-file', rnd, i))
                ck.count('registry read from a file: %s, mtime %s' % (how, 'same' if dt == 0 else 'older' if dt < 0 else 'newer'))
                wantdoc = json.loads(want[4]) if want[0] == 'doc' else None
                if wantdoc is not None and '"Error Details"' in want[4]:
                    ck.count('registry read from a file: "Error Details" expected')
                if got != wantdoc:
                    ck.fail('with the registry read from its file (%s, modification time %+d s relative to the first version) the SRC is not described from the file\'s current content' % (how, dt),
                            {'op': 'registry-file', 'step': i, 'how': how, 'registry': reg, 'previous': versions[(i - 1) % len(versions)] if i else None, 'data_hex': data.hex(),
                             'stdout': so[:600], 'stderr': se[-300:], 'expected': (want[4] or '')[:600]}, 'registry_file')
    finally:
        shutil.rmtree(root, ignore_errors=True)


def run(tier, seed):
    ck = Check('C03', tier, seed)
    ck.proof = common.build_and_audit('C03', thorough=(tier == 'thorough'))
    if not ck.proof['driver_ok']:
        return ck.finish(RULE, TRUSTED, ASSUME)
    rng = ck.rng
    thorough = tier == 'thorough'
    groups = [(allow, g) for allow in (True, False) for g in range(24 if thorough else 10)]
    for allow, g in groups:
        registry = [] if g == 0 else gen_registry(rng)
        ck.count('registry entries: %s' % ('0' if not registry else '1-2' if len(registry) <= 2 else '3+'))
        env = apel.PluginEnv(allow=allow, src=SRC_FIX, callout=CO_FIX, registry=registry).install()
        try:
            pels, dom = [], []
            for i in range(50 if thorough else 25):
                p = apel.gen_pel(rng, max_sections=0)
                p['ph']['creator'] = ord(rng.choice('OOOxyB'))
                secs = []
                for _ in range(rng.choice([1, 1, 2, 3])):
                    x = apel.gen_src(rng)
                    ty = rng.choice([b'BD', b'11', b'BC', b'B7', b'bd'])
                    code = rng.choice([b'8D', b'8d', b'AB', b'CC', b'77', b'20'])
                    x['ascii'] = rng.choice([(ty + b'12' + code + b'34').ljust(32, b' '), (ty + b'00' + code + b'10' + b' trailing').ljust(32, b'\0')])[:32]
                    x['words'] = [rng.choice([0, 0xFFFFFFFF, 0x20000000, 0x02000000, 0x01000000, 0x23000000, 0x000000FF, 0xABCD1234, rng.randrange(2 ** 32)]) for _ in range(8)]
                    if rng.random() < 0.55:
                        x['ascii'] = hit_ascii(rng, registry) or x['ascii']
                    if x['callouts']:
                        for c in x['callouts']['callouts']:
                            if c['fru']['flags'] & 0x02 and rng.random() < 0.7:
                                c['fru']['pn'] = rng.choice([b'BMC0001\0', b'BMC0008\0', b'PROC0001', b'PROC0002', b'PROC0009', b'PROCBAD!', b'PROCBAD!'])
                    secs.append({'kind': 'src', 'hdr': apel.gen_hdr(rng), 'primary': rng.random() < 0.5, 'src': x})
                p['sections'] = secs
                ok = True
                if i % 6 == 5:
                    x = rng.choice(secs)['src']
                    k = rng.random()
                    if k < 0.4:
                        x['wordCount'] = rng.choice([10, 11, 255])
                    elif k < 0.7:
                        x['ascii'] = ('BDé'.encode() + x['ascii'])[:32] if rng.random() < 0.5 else b'\xff' + x['ascii'][1:]
                    elif x['callouts'] and x['callouts']['callouts']:
                        x['callouts']['callouts'][0]['loc'] = b'\xc3\x28' + x['callouts']['callouts'][0]['loc'][2:] if len(x['callouts']['callouts'][0]['loc']) >= 2 else b''
                    ok = False
                pels.append(p)
                dom.append(ok)
            replies = lean_batch([env.tokens()] + ['pelspec %s %s x' % (apel.tok_cfg(), apel.tok_pel(p)) for p in pels])[1:]
            for p, ok, r in zip(pels, dom, replies):
                data = r.bytes()
                model = apel.dec_outcome(r)
                spec = apel.dec_spec(r)
                real = apel.real_decode(data, allow_plugins=allow)
                ncall = sum(len(s['src']['callouts']['callouts']) for s in p['sections'] if s['src']['callouts'])
                shown = real[0] == 'doc' and '"Error Details"' in real[4]
                if ok:
                    hit = sum(1 for s in p['sections'] for e in registry
                              if 'ReasonCode' in e['SRC'] and e['SRC'].get('Type', 'BD') == s['src']['ascii'][0:2].decode('latin-1')
                              and '0x' + s['src']['ascii'][4:8].decode('latin-1') in e['SRC']['ReasonCode'])
                    ck.count('registry: %s' % ('no entry matches' if not hit else 'entry matches -> ' + ('"Error Details" shown' if shown else
                             'unsupported by the model' if model[0] == 'unsupported' else 'PEL rejected' if real[0] == 'error' else 'no "Error Details" (empty message / type without details)')))
                ck.case(key=data if (ncall or shown) else None, sample={'plugins': allow, 'creator': chr(p['ph']['creator']), 'srcs': len(p['sections']), 'callouts': ncall, 'in_domain': ok})
                ck.count('plugins=%s callouts=%s %s' % (allow, '0' if ncall == 0 else '1-2' if ncall <= 2 else '3+', 'in-domain' if ok else 'out-of-domain -> ' + real[0]))
                for s in p['sections']:
                    for c in (s['src']['callouts'] or {'callouts': []})['callouts']:
                        ck.count('fru flags low nibble %X pce=%d mru=%s' % (c['fru']['flags'] & 0xF, int(bool(c['pce'])), 'n' if not c['mru'] else str(len(c['mru']['items']))))
                compare(ck, p, data, real, model, spec if ok else None, label='src', allow_plugins=allow, env_kwargs=dict(allow=allow, src=SRC_FIX, callout=CO_FIX, registry=registry))
        finally:
            env.uninstall()
    # keep the per-combination histogram compact
    combos = {k: v for k, v in ck.dist.items() if k.startswith('fru flags')}
    for k in combos:
        del ck.dist[k]
    ck.dist['distinct (FRU flags, PCE, MRU count) combinations exercised'] = len(combos)
    check_description_only(ck, rng, 120 if thorough else 40)
    check_registry_file(ck, rng, 6 if thorough else 2)
    return ck.finish(RULE, TRUSTED, ASSUME)


def replay(path):
    rp = json.load(open(path))
    print(json.dumps(rp, indent=1)[:3000])
    return 0
