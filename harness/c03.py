"""C03 — SRC sections display the encoded words, flags and every callout faithfully."""
import json

import apel
import common
from c01 import compare
from common import Check, lean_batch

TRUSTED = ['Lean 4.33.0 kernel (+ leanchecker in the thorough tier)',
           'axioms: propext, Classical.choice, Quot.sound only (audited per theorem)',
           'harness/extract.py (live tables in the driver), harness/c03.py + apel.py (generator, fixture modules, comparison), Drv.lean protocol parsing',
           'compiled driver peldrv agrees with the kernel reading of the same definitions']
ASSUME = ['the message registry is empty in this sandbox (no pel_registry package): "Error Details" / registry messages are not modelled (stated partial)',
          'procedure descriptions come from the shipped ocallouts table (read from the live module) and from fixture callout modules',
          'decoder-imposed well-formedness: callout sizes add up to a multiple of four, a PCE name has at least one byte, word count <= 9, every callout has a FRU identity']
RULE = ('cases = PELs with primary/secondary SRC sections: all 32-bit word patterns incl. the status bits, all flag bytes, word counts 0..9, 0..6 '
        'callouts over all 16 FRU flag combinations x PCE present/absent x MRU counts {0,1,2,3,15} x location lengths {0..80}, BMC / power / '
        'hostboot / other types, SRC parser modules echo / raising / absent, plugins on and off; plus out-of-domain inputs (word count >= 10, PCE '
        'size < 24, non-ASCII text) for the correspondence only; non-trivial = an SRC with at least one callout; distinct by bytes')
SRC_FIX = {'xsrc': ('echo',), 'ysrc': ('raises',), 'o8d00': ('echo',), 'oab00': ('raises',), 'occ00': ('text', 'null'), 'bsrc': ('echo',)}
CO_FIX = {'x': ('table', {'PROC0001': ['line one', 'line "two"'], 'PROC0002': []})}


def run(tier, seed):
    ck = Check('C03', tier, seed)
    ck.proof = common.build_and_audit('C03', thorough=(tier == 'thorough'))
    if not ck.proof['driver_ok']:
        return ck.finish(RULE, TRUSTED, ASSUME)
    rng = ck.rng
    thorough = tier == 'thorough'
    for allow in (True, False):
        env = apel.PluginEnv(allow=allow, src=SRC_FIX, callout=CO_FIX).install()
        try:
            pels, dom = [], []
            for i in range(1200 if thorough else 250):
                p = apel.gen_pel(rng, max_sections=0)
                p['ph']['creator'] = ord(rng.choice('OOOxyB'))
                secs = []
                for _ in range(rng.choice([1, 1, 2, 3])):
                    x = apel.gen_src(rng)
                    ty = rng.choice([b'BD', b'11', b'BC', b'B7', b'bd'])
                    code = rng.choice([b'8D', b'8d', b'AB', b'CC', b'77', b'20'])
                    x['ascii'] = rng.choice([(ty + b'12' + code + b'34').ljust(32, b' '), (ty + b'00' + code + b'10' + b' trailing').ljust(32, b'\0')])[:32]
                    x['words'] = [rng.choice([0, 0xFFFFFFFF, 0x20000000, 0x02000000, 0x01000000, 0x23000000, 0x000000FF, 0xABCD1234, rng.randrange(2 ** 32)]) for _ in range(8)]
                    if x['callouts']:
                        for c in x['callouts']['callouts']:
                            if c['fru']['flags'] & 0x02 and rng.random() < 0.7:
                                c['fru']['pn'] = rng.choice([b'BMC0001\0', b'BMC0008\0', b'PROC0001', b'PROC0002', b'PROC0009'])
                    secs.append({'kind': 'src', 'hdr': apel.gen_hdr(rng), 'primary': rng.random() < 0.5, 'src': x})
                p['sections'] = secs
                ok = True
                if i % 6 == 5:
                    x = rng.choice(secs)['src']
                    k = rng.random()
                    if k < 0.4:
                        x['wordCount'] = rng.choice([10, 11, 255])
                    elif k < 0.7:
                        x['ascii'] = ('BDé'.encode() + x['ascii'])[:32] if rng.random() < 0.5 else b'\xff' + x['ascii'][1:]
                    elif x['callouts'] and x['callouts']['callouts']:
                        x['callouts']['callouts'][0]['loc'] = b'\xc3\x28' + x['callouts']['callouts'][0]['loc'][2:] if len(x['callouts']['callouts'][0]['loc']) >= 2 else b''
                    ok = False
                pels.append(p)
                dom.append(ok)
            replies = lean_batch([env.tokens()] + ['pelspec %s %s x' % (apel.tok_cfg(), apel.tok_pel(p)) for p in pels])[1:]
            for p, ok, r in zip(pels, dom, replies):
                data = r.bytes()
                model = apel.dec_outcome(r)
                spec = apel.dec_spec(r)
                real = apel.real_decode(data, allow_plugins=allow)
                ncall = sum(len(s['src']['callouts']['callouts']) for s in p['sections'] if s['src']['callouts'])
                ck.case(key=data if ncall else None, sample={'plugins': allow, 'creator': chr(p['ph']['creator']), 'srcs': len(p['sections']), 'callouts': ncall, 'in_domain': ok})
                ck.count('plugins=%s callouts=%s %s' % (allow, '0' if ncall == 0 else '1-2' if ncall <= 2 else '3+', 'in-domain' if ok else 'out-of-domain -> ' + real[0]))
                for s in p['sections']:
                    for c in (s['src']['callouts'] or {'callouts': []})['callouts']:
                        ck.count('fru flags low nibble %X pce=%d mru=%s' % (c['fru']['flags'] & 0xF, int(bool(c['pce'])), 'n' if not c['mru'] else str(len(c['mru']['items']))))
                compare(ck, p, data, real, model, spec if ok else None, label='src')
        finally:
            env.uninstall()
    # keep the per-combination histogram compact
    combos = {k: v for k, v in ck.dist.items() if k.startswith('fru flags')}
    for k in combos:
        del ck.dist[k]
    ck.dist['distinct (FRU flags, PCE, MRU count) combinations exercised'] = len(combos)
    return ck.finish(RULE, TRUSTED, ASSUME)


def replay(path):
    rp = json.load(open(path))
    print(json.dumps(rp, indent=1)[:3000])
    return 0
