"""JSON documents on the driver's wire (prefix encoding)."""
from common import tt


def enc_j(v) -> str:
    if v is None:
        return 'Z'
    if v is True:
        return 'T'
    if v is False:
        return 'F'
    if isinstance(v, int):
        return 'N %d' % v if v >= 0 else 'M %d' % (-v)
    if isinstance(v, str):
        return 'S ' + tt(v)
    if isinstance(v, (list, tuple)):
        return ' '.join(['A %d' % len(v)] + [enc_j(x) for x in v])
    if isinstance(v, dict):
        return ' '.join(['O %d' % len(v)] + [tt(k) + ' ' + enc_j(x) for k, x in v.items()])
    raise TypeError('cannot encode %r' % (v,))


class Pairs(list):
    """an object as an ordered list of (key, value) pairs (keeps duplicates visible)"""


def dec_j(r, pairs=False):
    w = r.word()
    if w == 'Z':
        return None
    if w == 'T':
        return True
    if w == 'F':
        return False
    if w == 'N':
        return r.num()
    if w == 'M':
        return -r.num()
    if w == 'S':
        return r.text()
    if w == 'A':
        return [dec_j(r, pairs) for _ in range(r.num())]
    if w == 'O':
        items = [(r.text(), dec_j(r, pairs)) for _ in range(r.num())]
        return Pairs(items) if pairs else dict(items)
    raise ValueError('bad J token ' + w)


def pairs_hook(items):
    return Pairs(items)


def canon(v):
    """real-code documents parsed with object_pairs_hook=pairs_hook -> plain comparable structure"""
    if isinstance(v, Pairs):
        return ('obj', [(k, canon(x)) for k, x in v])
    if isinstance(v, dict):
        return ('obj', [(k, canon(x)) for k, x in v.items()])
    if isinstance(v, list):
        return [canon(x) for x in v]
    return v
