"""C07 — PEL selection follows the documented class / severity / --only rules."""
import io
import itertools
import json
import os
import shutil
import sys
import tempfile
from contextlib import redirect_stdout, redirect_stderr

import common
import toprun
import mainrun
import pelbuild
import clirun
from common import Check, lean_batch, tlist

TRUSTED = ['harness/toprun.py (worlds materialised as real trees, the real peltool.main() run end to end in-process with nothing replaced, recursive snapshots, comparison with the driver op runmain = Pel.runMain of PelModel/Top.lean)',
           'Lean 4.33.0 kernel (+ leanchecker in the thorough tier)',
           'axioms: propext, Classical.choice, Quot.sound only (audited per theorem)',
           'harness/extract.py (pins), harness/c07.py (enumeration, comparison), Drv.lean protocol parsing',
           'harness/mainrun.py (real main() run with recorded callees; the Config it builds compared with Pel.mkConfig / Pel.dispatch)',
           'compiled driver peldrv agrees with the kernel reading of the same definitions']
ASSUME = ['whole-command model: -o names the -p directory iff absent/empty or the same string; the -f file is not a top-level file of the -p directory; --json is composed in batch form (an output name equal to another input file name is outside the composition)',
          'the argument parser is exercised through real command lines (`peltool -n` runs and the main() runs), not modelled; the '
          'construction of the Config from the parsed namespace IS modelled (Pel.mkConfig, Pel.dispatch) and compared on every run',
          'action-flag bits other than 0x8000/0x4000/0x2000 are irrelevant to selection (proved for the model; '
          'sampled with two fillings on the real code)']
RULE = ('cases = (action-flag word, six switches, -S list, look-up flag), each evaluated for ALL 256 severity bytes on the '
        'real considerPEL and compared with the model row and the rule row; non-trivial = the row is neither all-selected '
        'nor all-rejected; distinct by (flags & 0xE000, switches, group set).  main() cases = command lines with the selection switches, '
        '-S lists of 1..4 names with repeats, -P -x -r -e and a mode: the Config the real main() hands to the function it calls (or holds '
        'when it exits) is compared member by member with Pel.mkConfig/dispatch, and its selection members with the command line itself; '
        'non-trivial = a selection option is given')
GROUPS = [0, 1, 2, 4, 5, 6, 7]
NAMES = {0: 'Informational', 1: 'Recovered', 2: 'Predictive', 4: 'Unrecoverable', 5: 'Critical', 6: 'Diagnostic', 7: 'Symptom'}


def cfg_tokens(c):
    return '%d %d %d %d %d %d %d %s' % (c['every'], c['term'], c['s'], c['N'], c['H'], c['only'], c['lookup'], tlist(c['sevs']))


def real_row(peltool, UserHeader, Config, af, c):
    cfg = Config()
    cfg.every_pel = bool(c['every'])
    cfg.critSysTerm = bool(c['term'])
    cfg.serviceable = bool(c['s'])
    cfg.non_serviceable = bool(c['N'])
    cfg.hidden = bool(c['H'])
    cfg.only = bool(c['only'])
    cfg.severities = list(c['sevs'])
    if c['lookup']:
        setattr(cfg, c.get('lookup_attr', 'plid'), '50000001')
    uh = UserHeader.__new__(UserHeader)
    uh.actionFlags = af
    out = []
    for sev in range(256):
        uh.eventSeverity = sev
        out.append('1' if peltool.considerPEL(uh, cfg) else '0')
    return ''.join(out)


def run(tier, seed):
    ck = Check('C07', tier, seed)
    ck.proof = common.build_and_audit('C07', thorough=(tier == 'thorough'))
    if not ck.proof['driver_ok']:
        ck.notes.append('driver unavailable; correspondence not run')
        return ck.finish(RULE, TRUSTED, ASSUME)
    from pel.peltool import peltool
    from pel.peltool.user_header import UserHeader
    from pel.peltool.config import Config
    rng = ck.rng
    thorough = tier == 'thorough'

    afs = []
    for pat in range(8):
        base = ((pat & 4) << 13) | ((pat & 2) << 13) | ((pat & 1) << 13)
        afs.append(base)
        afs.append(base | 0x1FFF)
        afs.append(base | rng.randrange(0x2000))
    cfgs = []
    switch_sets = list(itertools.product([0, 1], repeat=6))
    if thorough:
        subsets = [[g for i, g in enumerate(GROUPS) if m >> i & 1] for m in range(128)]
        for sw in switch_sets:
            for sub in subsets:
                cfgs.append(dict(zip(['every', 'term', 's', 'N', 'H', 'only'], sw), sevs=sub, lookup=0))
    else:
        for sw in switch_sets:
            cfgs.append(dict(zip(['every', 'term', 's', 'N', 'H', 'only'], sw), sevs=[], lookup=0))
            for g in GROUPS:
                cfgs.append(dict(zip(['every', 'term', 's', 'N', 'H', 'only'], sw), sevs=[g], lookup=0))
            for _ in range(6):
                sub = [g for g in GROUPS if rng.random() < 0.4]
                cfgs.append(dict(zip(['every', 'term', 's', 'N', 'H', 'only'], sw), sevs=sub, lookup=0))
    # order / duplicates of the -S list, look-ups with and without options
    for _ in range(400 if thorough else 100):
        sw = rng.choice(switch_sets)
        sub = [rng.choice(GROUPS) for _ in range(rng.randrange(1, 6))]
        cfgs.append(dict(zip(['every', 'term', 's', 'N', 'H', 'only'], sw), sevs=sub, lookup=0))
    for attr in ['plid', 'src', 'bmcID', 'pelID', 'srcExcludeFile']:
        cfgs.append(dict(every=0, term=0, s=0, N=0, H=0, only=0, sevs=[], lookup=1, lookup_attr=attr))
    for _ in range(200 if thorough else 60):
        sw = rng.choice(switch_sets)
        cfgs.append(dict(zip(['every', 'term', 's', 'N', 'H', 'only'], sw), sevs=[g for g in GROUPS if rng.random() < 0.3],
                         lookup=1, lookup_attr=rng.choice(['plid', 'src', 'bmcID', 'pelID', 'srcExcludeFile'])))
    work = [(af, c) for c in cfgs for af in (afs if thorough else rng.sample(afs, 10) + afs[:24:3])]
    replies = lean_batch(['selrow %d %s' % (af, cfg_tokens(c)) for af, c in work])
    for (af, c), r in zip(work, replies):
        real = real_row(peltool, UserHeader, Config, af, c)
        model, spec = r.word(), r.word()
        key = (af & 0xE000, tuple(c[k] for k in ['every', 'term', 's', 'N', 'H', 'only', 'lookup']), tuple(sorted(set(c['sevs']))))
        ck.case(key=key if ('0' in real and '1' in real) else None,
                sample={'action_flags': hex(af), 'cfg': c, 'selected_severities': real.count('1')})
        ck.count('only=%d lookup=%d groups=%s' % (c['only'], c['lookup'], 'none' if not c['sevs'] else 'some'))
        ck.evaluations += 255  # 256 severity bytes per row
        rp = {'op': 'considerPEL', 'action_flags': af, 'cfg': c}
        no_opts = not any(c[k] for k in ['every', 'term', 's', 'N', 'H', 'only']) and not c['sevs']
        if not c['lookup'] or no_opts:
            expect = spec if not c['lookup'] else '1' * 256
            if real != expect:
                sev = next(i for i in range(256) if real[i] != expect[i])
                ck.fail('considerPEL contradicts the documented rule', rp | {'severity': sev, 'expected': expect[sev], 'actual': real[sev]},
                        'selection_rule')
        if real != model:
            sev = next(i for i in range(256) if real[i] != model[i])
            ck.disagree('considerPEL differs from the model', rp | {'severity': sev, 'model': model[sev], 'impl': real[sev]})

    # ---- CLI glue: argparse -> Config, on a directory with one PEL per (severity, flag pattern)
    tmp = tempfile.mkdtemp(prefix='c07_')
    try:
        pels = []
        n = 0
        for sev in (range(256) if thorough else list(range(0, 256, 5)) + [0x51, 0x04, 0x0F, 0x40, 0x4F]):
            for pat in range(8):
                af = (pat << 13) | rng.randrange(0x2000)
                data = pelbuild.pel([pelbuild.UH(sev=sev, af=af)], eid=0x50000000 + n, plid=0x50000000 + n)
                with open(os.path.join(tmp, '%08X' % n), 'wb') as f:
                    f.write(data)
                pels.append((sev, af))
                n += 1
        optsets = []
        for _ in range(120 if thorough else 30):
            sw = [rng.random() < 0.3 for _ in range(6)]
            sub = [g for g in GROUPS if rng.random() < 0.3]
            rng.shuffle(sub)
            optsets.append((sw, sub))
        optsets.append(([False] * 6, []))
        optsets.append(([False, False, False, False, False, True], [4]))
        optsets.append(([False, False, False, False, False, True], [0]))
        reqs = []
        for sw, sub in optsets:
            c = dict(zip(['every', 'term', 's', 'N', 'H', 'only'], map(int, sw)), sevs=sub, lookup=0)
            for af in sorted(set(af for _, af in pels)):
                pass
            reqs.append(c)
        # model/spec counts via rows per distinct flag word
        distinct_af = sorted(set(af for _, af in pels))
        rows = lean_batch(['selrow %d %s' % (af, cfg_tokens(c)) for c in reqs for af in distinct_af])
        it = iter(rows)
        for (sw, sub), c in zip(optsets, reqs):
            spec_rows = {}
            for af in distinct_af:
                r = next(it)
                r.word()
                spec_rows[af] = r.word()
            expect = sum(1 for sev, af in pels if spec_rows[af][sev] == '1')
            argv = ['peltool.py', '-p', tmp, '-n']
            for flag, on in zip(['-E', '-t', '-s', '-N', '-H', '-O'], sw):
                if on:
                    argv.append(flag)
            if sub:
                argv += ['-S'] + [NAMES[g] for g in sub]
            # presentation options next to -n select nothing and hide nothing
            for popt in ('-x', '-r', '-P'):
                if rng.random() < 0.15:
                    argv.insert(3, popt)
            out, err = io.StringIO(), io.StringIO()
            old = sys.argv
            sys.argv = argv
            code = None
            try:
                with redirect_stdout(out), redirect_stderr(err):
                    try:
                        peltool.main()
                    except SystemExit as e:
                        code = e.code
            finally:
                sys.argv = old
            ck.case(key=('cli', tuple(argv[3:])), sample={'argv': argv[3:], 'expected_count': expect})
            ck.count('cli -n')
            try:
                got = json.loads(out.getvalue())['Number of PELs found']
            except Exception:
                got = None
            if got != expect:
                ck.fail('peltool -n count contradicts the documented rule', {'op': 'cli-count', 'argv': argv[3:], 'expected': expect,
                                                                           'actual': got, 'stdout': out.getvalue()[:200]}, 'cli_count')
    finally:
        shutil.rmtree(tmp, ignore_errors=True)
    # -f FILE -x: the hex display follows the same selection as the JSON display (a hidden / informational PEL is shown only when asked for)
    tmpf = tempfile.mkdtemp(prefix='c07f_')
    try:
        for sev_, af_, argv_, shown in ((0x40, 0x6000, [], False), (0x40, 0x6000, ['-H'], True), (0x00, 0x2000, [], False), (0x00, 0x2000, ['-E'], True), (0x40, 0xA000, [], True),
                                      (0x40, 0xA000, ['-O', '-H'], False), (0x20, 0xA000, ['-O', '-S', 'Predictive'], True), (0x20, 0xA000, ['-O', '-S', 'Critical'], False)):
            fpath = os.path.join(tmpf, 'one.pel')
            open(fpath, 'wb').write(pelbuild.pel([pelbuild.UH(sev=sev_, af=af_), pelbuild.SRC()]))
            for hexopt in ([], ['-x']):
                so, se, sx = clirun.run_main(['-f', fpath] + argv_ + hexopt)
                ck.case(key=('file-selection', sev_, af_, tuple(argv_), bool(hexopt)))
                ck.count('-f %s selection' % ('-x' if hexopt else 'JSON'))
                if bool(so.strip()) != shown:
                    ck.fail('-f%s %s a PEL that the selection options %s' % (' -x' if hexopt else '', 'does not display' if shown else 'displays', 'select' if shown else 'do not select'),
                            {'op': 'cli-file', 'argv': argv_ + hexopt, 'severity': sev_, 'action_flags': af_, 'stdout': so[:200]}, 'file_selection')
        # the same selection with a configuration directory whose component-id file for the creator is valid JSON of the wrong kind (a list, a number,
        # a string, null) or has lower-case keys: what the file holds may change a display NAME, never whether the PEL is selected
        import apel
        for content_ in ([1, 2], 7, 'text', None, {'2000': 'lower'}, {'abcd': 'x', 'ABCD': 'y'}):
            for sev_, af_, argv_, shown in ((0x40, 0x6000, [], False), (0x40, 0x6000, ['-H'], True), (0x00, 0x2000, ['-E'], True), (0x40, 0xA000, [], True),
                                          (0x20, 0xA000, ['-O', '-S', 'Predictive'], True), (0x20, 0xA000, ['-O', '-S', 'Critical'], False)):
                # (a new configuration for every run: the table is loaded while the FIRST log of a process is decoded)
                env_ = apel.PluginEnv(allow=True, comp_ids={'o': content_, 'b': content_}).install()
                try:
                    fpath = os.path.join(tmpf, 'one.pel')
                    open(fpath, 'wb').write(pelbuild.pel([pelbuild.UH(sev=sev_, af=af_, comp=0xABCD), pelbuild.SRC()]))
                    so, se, sx = clirun.run_main(['-f', fpath] + argv_)
                    ck.case(key=('file-selection-conf', repr(content_), sev_, af_, tuple(argv_)))
                    ck.count('-f selection with a component-id file of the wrong JSON kind')
                    if bool(so.strip()) != shown:
                        ck.fail('with a component-id file holding %s, -f %s a PEL that the selection options %s' % (type(content_).__name__, 'does not display' if shown else 'displays', 'select' if shown else 'do not select'),
                                {'op': 'cli-file', 'argv': argv_, 'severity': sev_, 'action_flags': af_, 'component_id_file': repr(content_), 'stdout': so[:200], 'stderr': se[-300:]}, 'file_selection_conf')
                finally:
                    env_.uninstall()
    finally:
        shutil.rmtree(tmpf, ignore_errors=True)
    # the Config that main() builds from the command line (PelModel/Main.lean: mkConfig, look-up flag)
    mainrun.check_main(ck, tier, 'config')
    # the WHOLE command end to end on real trees vs Pel.runMain (PelModel/Top.lean), and the command-level properties on the real runs
    toprun.check_top(ck, tier, 'agree')
    exhaustive = thorough
    return ck.finish(RULE, TRUSTED, ASSUME, exhaustive=exhaustive,
                     extra={'explanation': 'thorough: all 256 severities x 24 flag words (8 relevant patterns x 3 fillings) x all 64 switch '
                            'combinations x all 128 group subsets on the real considerPEL' if thorough else
                            'quick: all 256 severities x sampled flag words x all 64 switch combinations x {none, each single group, random subsets}'})


def replay(path):
    rp = json.load(open(path))
    print(json.dumps(rp, indent=1)[:1500])
    if rp.get('op') == 'considerPEL':
        from pel.peltool import peltool
        from pel.peltool.user_header import UserHeader
        from pel.peltool.config import Config
        real = real_row(peltool, UserHeader, Config, rp['action_flags'], rp['cfg'])
        r = lean_batch(['selrow %d %s' % (rp['action_flags'], cfg_tokens(rp['cfg']))])[0]
        r.word()
        spec = r.word()
        sev = rp['severity']
        print('severity 0x%02X: real=%s rule=%s' % (sev, real[sev], spec[sev]))
        return 0 if real[sev] == spec[sev] else 1
    print('nothing to re-execute for this replay kind')
    return 0
