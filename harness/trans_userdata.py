"""
Source-to-Lean translator for the byte reader and the user-data sections (stream `userdata`, properties C05 and C04).

Reads the CURRENT text of
    modules/pel/datastream.py                 DataStream.__init__, check_range, inc_index, get_mem, get_int
    modules/pel/peltool/*.py                  every `DataStream(...)` construction (byte order / signedness the decoder asks for)
    modules/pel/peltool/user_data.py          UserData.__init__ + toJSON
    modules/pel/peltool/ext_user_data.py      ExtUserData.__init__ + toJSON
    modules/pel/peltool/parse_user_data.py    ParseUserData.__init__, parse, parseCustom, getBuiltinFormatJSON, UserDataFormat
with `ast` and regenerates lean/PelGen/GenUserData.lean.  lean/PelProps/TieC05.lean proves that the generated reader methods
refine the model's reader (PelModel/Reader.lean: `getMem`, `getInt`, error kinds), lean/PelProps/TieC04.lean proves the generated
section decoders / `getBuiltinFormatJSON` / `parse`+`parseCustom` equal to PelModel/UserData.lean (`decodeUD`, `decodeED`,
`builtinFormat`, `parseUserData`) and, for the module table, to `udLookup` of PelModel/Plugins.lean.
The vocabulary the generated terms are written in is lean/PelModel/TransUserData.lean.

Everything that decides behaviour comes from the AST: byte counts, the order of statements and of `if` branches, comparison operators,
which exception class is raised / caught where, message and key texts, format strings, the sub-type constants of `UserDataFormat`, the
argument order of every call.  A statement or expression that is not listed below makes the function `none`
(TRANSLATION-UNAVAILABLE); nothing is skipped silently except docstrings, bare string statements and `pass`.

=====================================================================================================================
TRUSTED TABLE (name maps and idioms: the only knowledge about the code that is hard-wired here)
=====================================================================================================================
A. pel/datastream.py  (generated type: DsM = StateT DS (Except Err); Python int -> Int)
  `assert c, msg` (STATEMENT)              -> pyAssert opt c msg     a check iff the interpreter runs without -O (`opt = false`); the tie
                                              theorems are stated FOR BOTH values of `opt`, so a check that only exists as an `assert`
                                              can never be what a proof rests on
  `if c: raise AssertionError("msg")`      -> if c then DsM.raise (assertionErr "msg") else <rest>      (any other exception class: none)
  __init__(self, P1, P2=…, P3=…)           -> fun a1 a2 a3 => ({…} : DS); parameter POSITIONS are typed  1: bytes  2: byte order (None or str)
                                              3: signedness (None or bool); parameter and field NAMES do not matter
  fields `self.F`                          -> the slot of DS decided by what __init__ stores there: the bytes value -> data, the byte order
                                              -> byteOrder, the signedness -> isSigned; of the two integer fields the one that some other
                                              method assigns to is `index`, the other `size`
  `self.F` (read) / `self.F = e` / `self.F += e`   -> DsM.fld (·.slot) / DsM.upd {d with slot := e} / read, then store
  `self.m(args)` (m a method of the class) -> the translated body of m, inlined, arguments in source order
  parameters of a method beyond the first  -> get_int(self, n, B=<default>, S=<default>): the decoders call `get_int(n)`; B and S are
                                              bound to their DEFAULT values read from the signature
  len(x) / x[a:b] (bytes)                  -> (x.length : Int) / pySlice x a b  (Python slice semantics incl. negative bounds, clamping)
  int.from_bytes(b, byteorder=B, signed=S) -> intFromBytes b B S     (TypeError / ValueError -> Err.other)
  None == x, x == None, x is None, None != x, x != None, x is not None     -> x = none / x ≠ none (for the two optional values)
  + - on ints, < <= > >= == != on ints, not / and / or, `True if c else False`, True / False / None / int literals
  evaluation order: field reads and calls inside one expression are bound left to right, as Python evaluates them
  DataStream(D, …) in pel/peltool/*.py     -> Gen.dsCtorArgs? = the (byte order, signedness) every construction site passes (keywords are
                                              resolved against the parameter names of __init__); sites that disagree: none
B. user_data.py / ext_user_data.py  (generated type: Rd, the model's reader; reuses the symbolic executor of harness/trans_sections.py
   and with it section A/B of ITS trusted table: get_int -> getInt, get_mem -> getMem, chr, getDisplayCompID -> displayCompID T, hexdump, …)
  toJSON(self, config)                     -> the second parameter is the Config; only `config` handed on to `parse` is admitted
  ParseUserData(a, b, c, d, e).parse(config) -> udRaise (parseUserData T env allow a b c d e)   (argument ORDER from the call; the function
                                              itself is translated from parse_user_data.py as Gen.udParse? and tied to `parseUserData`)
  try: j = json.loads(V) except json.decoder.JSONDecodeError: <assignments>; j = E
                                           -> j ← V.loadsOr E      (`PyStr.loadsOr`: a value made by json.dumps loads back to itself, any
                                              other text goes through the model's `loads`; `.unsupported` = outside the modelled JSON subset)
  V.encode('utf-8')  (V the parser's text) -> utf8Encode V.text
  json.loads(json.dumps(x))                -> x as a JSON value (list of str -> .arr (… jstr))
  if not isinstance(j, dict): out[K] = j else: out.update(j)   (either orientation)
                                           -> match j with | .obj m => objUpdate out m | o => objSet out K o
C. parse_user_data.py  (generated type: PyM = ExceptT PyExc (StateM (Cache UdPlugin)): the module table survives exceptions)
  ParseUserData.__init__(self, p1..p5)     -> fields are whatever __init__ stores from its parameters, POSITIONS typed
                                              1: creator (str) 2: component (int) 3: sub-type (int) 4: version (int) 5: data (bytes)
  creatorIDs (pel_values)                  -> T.creators;   `K in creatorIDs and creatorIDs[K] == "lit"` -> lookupT T.creators K = some "lit"
  config.allow_plugins                     -> allow : Bool
  UserDataFormat.<member>.value            -> the integer literal of that member in the Enum class body
  userDataParsers (module-level `{}`)      -> the state of PyM:  K in userDataParsers -> cacheHas K,  userDataParsers[K] -> cacheLoad K,
                                              userDataParsers[K] = v -> cacheStore K v
  importlib.import_module(M)               -> udImport env M     (module `udparsers.<n>.<n>` behaves as `env n`: absent -> ImportError,
                                              importRaises msg -> Exception(msg), else the module object)
  cls.parseUDToJson(a, b, c)               -> udCall cls a b c   (the abstract plugin: echo / raises / returnsNone / returnsText)
  try … except ImportError / except Exception as e   -> pyTry … (PyExc.isImportError | PyExc.isException), `e` in a format -> e.msg
  `cls is None` / `cls is not None`        -> match cls with | none => … | some m => …
  `value == None` / `value is None` (str-or-None result) -> match value with | none => … | some v => …
  `if self.data:` (bytes)                  -> data ≠ []
  json.dumps(x)                            -> PyStr.dumps (x as JSON: str -> jstr, list of str -> .arr, dict built by d[K] = e -> .obj)
  hexdump(mv), memoryview(b), bytes.decode(b), s.strip(), s.rstrip(c), s.lower()  -> hexdump L C (defaults from the signature), b,
                                              utf8Decode or raise UnicodeDecodeError, stripSp, rstripChar c, map toLowerAscii (ASCII case only)
  "…{}…".format(…), "%04X" % n, f-strings  -> as in harness/trans_sections.py (fmtHex, natDec, ++)
  for ch in <str>: <assignments / appends / ifs>   -> List.foldl over the characters with the assigned locals as the state
  ord(ch), ord('c'), ch = 'c', line += ch  -> ch, the code point, the code point, line ++ [ch]
  early `return` inside if / try          -> each block yields `some r` (returned r) or `none` (fell through), the rest follows on `none`
"""
import ast
import glob
import os
import re

import pytrans
from pytrans import Untranslatable
import trans_sections as TS
from trans_sections import U, V, text_lit, lean_str

DATASTREAM = 'pel/datastream.py'
PELTOOL = 'pel/peltool/'


def ind(text, n=2):
    pad = ' ' * n
    return '\n'.join(pad + l if l else l for l in text.split('\n'))


# =====================================================================================================================
# A. pel/datastream.py

DS_SLOT_TY = {'data': 'bytes', 'size': 'int', 'index': 'int', 'byteOrder': 'otext', 'isSigned': 'obool'}
DS_LEAN_TY = {'int': 'Int', 'bool': 'Bool', 'bytes': 'Bytes', 'otext': 'Option Text', 'obool': 'Option Bool', 'unit': 'Unit'}
DS_METHODS = {            # method -> (number of parameters the generated function takes, bound by the callers)
    'check_range': 1, 'inc_index': 1, 'get_mem': 1, 'get_int': 1,
}
DS_EXTRA = {'get_int': ['otext', 'obool']}       # types of the further (defaulted) parameters, by position


def self_attr(node, selfname):
    if isinstance(node, ast.Attribute) and isinstance(node.value, ast.Name) and node.value.id == selfname:
        return node.attr
    return None


def check_module_plain(tree, allowed_assign=()):
    """module level: imports, defs, classes, docstrings (and the named plain assignments) only: nothing can rebind a method afterwards"""
    for st in tree.body:
        if isinstance(st, (ast.Import, ast.ImportFrom, ast.FunctionDef, ast.ClassDef)):
            continue
        if isinstance(st, ast.Expr) and isinstance(st.value, ast.Constant) and isinstance(st.value.value, str):
            continue
        if isinstance(st, ast.Assign) and len(st.targets) == 1 and isinstance(st.targets[0], ast.Name) and st.targets[0].id in allowed_assign:
            continue
        raise U(st, 'module-level statement %s' % type(st).__name__)
    seen = set()
    for st in tree.body:
        names = []
        if isinstance(st, (ast.FunctionDef, ast.ClassDef)):
            names = [st.name]
        elif isinstance(st, ast.Assign):
            names = [st.targets[0].id]
        elif isinstance(st, (ast.Import, ast.ImportFrom)):
            names = [(a.asname or a.name).split('.')[0] for a in st.names]
        for n in names:
            if n in seen:
                raise U(st, 'module-level name %s bound twice' % n)
            seen.add(n)


def plain_class(tree, cls):
    cnode = None
    for n in tree.body:
        if isinstance(n, ast.ClassDef) and n.name == cls:
            cnode = n
    if cnode is None:
        raise Untranslatable('no class %s' % cls)
    if cnode.bases or cnode.keywords or cnode.decorator_list:
        raise U(cnode, 'class %s has bases, keywords or decorators' % cls)
    methods = {}
    for st in pytrans.strip_docstring(cnode.body):
        if not isinstance(st, ast.FunctionDef):
            raise U(st, 'class-level statement %s' % type(st).__name__)
        if st.name in methods:
            raise U(st, 'method %s defined twice' % st.name)
        if st.name.startswith('__') and st.name != '__init__':
            raise U(st, 'special method %s' % st.name)
        if st.decorator_list:
            raise U(st, 'decorated method %s' % st.name)
        a = st.args
        if a.vararg or a.kwarg or a.kwonlyargs or a.posonlyargs or a.kw_defaults or not a.args:
            raise U(st, 'argument list of %s' % st.name)
        methods[st.name] = st
    return cnode, methods


def assigned_names(stmts):
    """local names bound anywhere in a statement list"""
    out = set()
    for st in stmts:
        for n in ast.walk(st):
            if isinstance(n, ast.Name) and isinstance(n.ctx, (ast.Store, ast.Del)):
                out.add(n.id)
            if isinstance(n, (ast.Global, ast.Nonlocal)):
                raise U(n, 'global / nonlocal')
            if isinstance(n, (ast.FunctionDef, ast.Lambda, ast.ClassDef, ast.AsyncFunctionDef)):
                raise U(n, 'nested definition')
    return out


class DsTrans:
    """the class DataStream"""

    def __init__(self, repo):
        self.tree = pytrans.load_module_ast(repo, DATASTREAM)
        check_module_plain(self.tree)
        self.cnode, self.methods = plain_class(self.tree, 'DataStream')
        for st in self.tree.body:
            if isinstance(st, (ast.FunctionDef, ast.ClassDef)) and st.name in ('len', 'int', 'AssertionError'):
                raise U(st, 'builtin %s rebound' % st.name)
            if isinstance(st, (ast.Import, ast.ImportFrom)):
                for a in st.names:
                    if (a.asname or a.name).split('.')[0] in ('len', 'int', 'AssertionError') or a.name == '*':
                        raise U(st, 'builtin rebound by an import')
        self.counter = [0]
        self.stack = []
        self.init_fields()

    def fresh(self, p='v'):
        self.counter[0] += 1
        return '%s%d' % (p, self.counter[0])

    # ---- __init__: which field is which slot, and what it is initialised with
    def init_fields(self):
        fn = self.methods.get('__init__')
        if fn is None:
            raise Untranslatable('DataStream has no __init__')
        a = fn.args
        if len(a.args) != 4:
            raise U(fn, '__init__ must take (self, data, byte order, signedness)')
        self.init_params = [x.arg for x in a.args[1:]]
        self.init_defaults = a.defaults
        selfname = a.args[0].arg
        env = {a.args[1].arg: V('bytes', 'a1'), a.args[2].arg: V('otext', 'a2'), a.args[3].arg: V('obool', 'a3')}
        if len(set(env)) != 3 or selfname in env:
            raise U(fn, 'parameter names of __init__')
        locs = assigned_names(fn.body)
        if locs:
            raise U(fn, 'local variables in __init__')
        vals = {}
        for st in pytrans.strip_docstring(fn.body):
            if isinstance(st, ast.Assign) and len(st.targets) == 1:
                tgt, val = st.targets[0], st.value
            elif isinstance(st, ast.AnnAssign) and st.value is not None:
                tgt, val = st.target, st.value
            else:
                raise U(st, 'statement %s in __init__' % type(st).__name__)
            f = self_attr(tgt, selfname)
            if f is None:
                raise U(st, 'assignment target in __init__')
            binds = []
            v = self.ev(val, env, binds, selfname, fields=vals, pure_fields=True)
            if binds:
                raise U(st, 'call in __init__')
            vals[f] = v
        by_ty = {}
        for f, v in vals.items():
            by_ty.setdefault(v.ty, []).append(f)
        slots = {}
        for ty, slot in (('bytes', 'data'), ('otext', 'byteOrder'), ('obool', 'isSigned')):
            if len(by_ty.get(ty, [])) != 1:
                raise U(fn, 'exactly one field must hold the %s' % slot)
            slots[by_ty[ty][0]] = slot
        ints = by_ty.get('int', [])
        if len(ints) != 2 or len(vals) != 5:
            raise U(fn, 'the fields of a DataStream must be: bytes, byte order, signedness and two integers')
        mutated = set()
        for name, m in self.methods.items():
            if name == '__init__':
                continue
            sn = m.args.args[0].arg
            for n in ast.walk(m):
                tg = []
                if isinstance(n, ast.Assign):
                    tg = n.targets
                elif isinstance(n, (ast.AugAssign, ast.AnnAssign)):
                    tg = [n.target]
                for t in tg:
                    for x in ast.walk(t):
                        f = self_attr(x, sn)
                        if f is not None:
                            mutated.add(f)
        cur = [f for f in ints if f in mutated]
        if len(cur) != 1:
            raise U(fn, 'exactly one of the two integer fields must be the cursor (assigned by another method)')
        slots[cur[0]] = 'index'
        slots[[f for f in ints if f != cur[0]][0]] = 'size'
        self.slots = slots
        self.init_vals = vals

    def init_term(self):
        inv = {s: f for f, s in self.slots.items()}
        return 'fun a1 a2 a3 => ({ %s } : DS)' % ', '.join('%s := %s' % (s, self.init_vals[inv[s]].term) for s in
                                                             ('data', 'size', 'index', 'byteOrder', 'isSigned'))

    # ---- expressions
    def const(self, node):
        v = node.value
        if v is None:
            return V('none', 'none')
        if isinstance(v, bool):
            return V('bool', 'true' if v else 'false')
        if isinstance(v, int):
            return V('int', '(%d : Int)' % v if v >= 0 else '(-%d : Int)' % -v, lit=v)
        if isinstance(v, str):
            return V('text', text_lit(v), lit=v)
        raise U(node, 'constant %r' % (v,))

    def coerce(self, v, ty, node):
        """None literal -> the optional type asked for; str / bool -> the optional value"""
        if v.ty == ty:
            return v
        if v.ty == 'none' and ty in ('otext', 'obool'):
            return V(ty, '(none : %s)' % DS_LEAN_TY[ty])
        if v.ty == 'text' and ty == 'otext':
            return V(ty, '(some %s)' % v.term)
        if v.ty == 'bool' and ty == 'obool':
            return V(ty, '(some %s)' % v.term)
        raise U(node, 'a value of type %s where %s is expected' % (v.ty, ty))

    def ev(self, node, env, binds, selfname, fields=None, pure_fields=False):
        """-> V; reads of fields and calls are appended to `binds` in evaluation order"""
        def rec(n):
            return self.ev(n, env, binds, selfname, fields, pure_fields)
        if isinstance(node, ast.Constant):
            return self.const(node)
        if isinstance(node, ast.UnaryOp) and isinstance(node.op, ast.USub) and isinstance(node.operand, ast.Constant) \
                and isinstance(node.operand.value, int) and not isinstance(node.operand.value, bool):
            return V('int', '(-%d : Int)' % node.operand.value, lit=-node.operand.value)
        if isinstance(node, ast.Name):
            if node.id in env:
                v = env[node.id]
                if v.ty == 'undef':
                    raise U(node, 'variable %s may be unbound' % node.id)
                return v
            raise U(node, 'unknown name %s' % node.id)
        if isinstance(node, ast.Attribute):
            f = self_attr(node, selfname)
            if f is None:
                raise U(node, 'attribute %s' % (pytrans.dotted(node) or node.attr))
            if pure_fields:      # inside __init__: the value just stored
                if f not in fields:
                    raise U(node, 'field %s read before it is set' % f)
                return fields[f]
            if f not in self.slots:
                raise U(node, 'unknown field %s' % f)
            slot = self.slots[f]
            x = self.fresh()
            binds.append((x, 'DsM.fld (·.%s)' % slot))
            return V(DS_SLOT_TY[slot], x)
        if isinstance(node, ast.BinOp):
            a = rec(node.left)
            b = rec(node.right)
            if a.ty == 'int' and b.ty == 'int' and isinstance(node.op, (ast.Add, ast.Sub)):
                return V('int', '(%s %s %s)' % (a.term, '+' if isinstance(node.op, ast.Add) else '-', b.term))
            raise U(node, 'operator %s on %s and %s' % (type(node.op).__name__, a.ty, b.ty))
        if isinstance(node, ast.IfExp):
            n0 = len(binds)
            c = self.cond(node.test, env, binds, selfname, fields, pure_fields)
            n1 = len(binds)
            a = rec(node.body)
            b = rec(node.orelse)
            if len(binds) != n1:
                raise U(node, 'field read or call inside a branch of a conditional expression')
            if a.ty != b.ty or a.ty not in ('int', 'bool', 'bytes'):
                raise U(node, 'conditional expression of types %s/%s' % (a.ty, b.ty))
            return V(a.ty, '(if %s then %s else %s)' % (c, a.term, b.term))
        if isinstance(node, (ast.Compare, ast.BoolOp)) or (isinstance(node, ast.UnaryOp) and isinstance(node.op, ast.Not)):
            c = self.cond(node, env, binds, selfname, fields, pure_fields)
            return V('bool', '(decide (%s))' % c)
        if isinstance(node, ast.Subscript):
            b = rec(node.value)
            sl = node.slice
            if b.ty != 'bytes' or not isinstance(sl, ast.Slice) or sl.step is not None or sl.lower is None or sl.upper is None:
                raise U(node, 'subscript')
            lo = rec(sl.lower)
            hi = rec(sl.upper)
            if lo.ty != 'int' or hi.ty != 'int':
                raise U(node, 'slice bounds')
            return V('bytes', '(pySlice %s %s %s)' % (b.term, lo.term, hi.term))
        if isinstance(node, ast.Call):
            f = node.func
            if any(isinstance(x, ast.Starred) for x in node.args) or any(k.arg is None for k in node.keywords):
                raise U(node, 'starred argument')
            if isinstance(f, ast.Name) and f.id == 'len' and 'len' not in env:
                if len(node.args) != 1 or node.keywords:
                    raise U(node, 'len')
                b = rec(node.args[0])
                if b.ty != 'bytes':
                    raise U(node, 'len of %s' % b.ty)
                return V('int', '(%s.length : Int)' % b.term)
            if isinstance(f, ast.Attribute) and isinstance(f.value, ast.Name) and f.value.id == 'int' and f.attr == 'from_bytes' and 'int' not in env:
                if len(node.args) != 1 or sorted(k.arg for k in node.keywords) != ['byteorder', 'signed']:
                    raise U(node, 'int.from_bytes must be called as from_bytes(b, byteorder=…, signed=…)')
                b = rec(node.args[0])
                kw = {}
                for k in node.keywords:          # keywords are evaluated in source order
                    kw[k.arg] = rec(k.value)
                if b.ty != 'bytes':
                    raise U(node, 'int.from_bytes of %s' % b.ty)
                bo = self.coerce(kw['byteorder'], 'otext', node)
                sg = self.coerce(kw['signed'], 'obool', node)
                x = self.fresh()
                binds.append((x, 'DsM.ofExcept (intFromBytes %s %s %s)' % (b.term, bo.term, sg.term)))
                return V('int', x)
            m = self_attr(f, selfname) if isinstance(f, ast.Attribute) else None
            if m is not None and not pure_fields:
                if m not in DS_METHODS or m not in self.methods:
                    raise U(node, 'call of method %s' % m)
                if node.keywords or len(node.args) != DS_METHODS[m]:
                    raise U(node, 'arguments of %s' % m)
                args = [rec(x) for x in node.args]
                if any(x.ty != 'int' for x in args):
                    raise U(node, 'argument types of %s' % m)
                term, rty = self.method(m)
                x = self.fresh()
                binds.append((x, '(%s) opt %s' % (term, ' '.join(x_.term for x_ in args))))
                return V(rty, x)
            raise U(node, 'call')
        raise U(node, 'expression %s' % type(node).__name__)

    def cond(self, node, env, binds, selfname, fields=None, pure_fields=False):
        """-> Lean Prop (decidable)"""
        def rec(n):
            return self.cond(n, env, binds, selfname, fields, pure_fields)
        if isinstance(node, ast.BoolOp):
            parts = []
            for i, v in enumerate(node.values):
                n0 = len(binds)
                parts.append(rec(v))
                if i > 0 and len(binds) != n0:
                    raise U(node, 'field read or call in the short-circuited part of and/or')
            return '(' + (' ∧ ' if isinstance(node.op, ast.And) else ' ∨ ').join(parts) + ')'
        if isinstance(node, ast.UnaryOp) and isinstance(node.op, ast.Not):
            return '¬ (%s)' % rec(node.operand)
        if isinstance(node, ast.Compare):
            if len(node.ops) != 1:
                raise U(node, 'chained comparison')
            a = self.ev(node.left, env, binds, selfname, fields, pure_fields)
            b = self.ev(node.comparators[0], env, binds, selfname, fields, pure_fields)
            op = type(node.ops[0])
            if a.ty == 'int' and b.ty == 'int':
                sym = {ast.Lt: '<', ast.LtE: '≤', ast.Gt: '>', ast.GtE: '≥', ast.Eq: '=', ast.NotEq: '≠'}.get(op)
                if not sym:
                    raise U(node, 'comparison operator')
                return '%s %s %s' % (a.term, sym, b.term)
            if 'none' in (a.ty, b.ty):
                o = b if a.ty == 'none' else a
                if o.ty not in ('otext', 'obool'):
                    raise U(node, 'comparison of %s with None' % o.ty)
                n = '(none : %s)' % DS_LEAN_TY[o.ty]
                l, r = (n, o.term) if a.ty == 'none' else (o.term, n)
                if op in (ast.Eq, ast.Is):
                    return '%s = %s' % (l, r)
                if op in (ast.NotEq, ast.IsNot):
                    return '%s ≠ %s' % (l, r)
            raise U(node, 'comparison of %s and %s' % (a.ty, b.ty))
        v = self.ev(node, env, binds, selfname, fields, pure_fields)
        if v.ty == 'bool':
            return '%s = true' % v.term
        raise U(node, 'truth value of %s' % v.ty)

    # ---- statements
    def method(self, name):
        """-> (lambda term `fun opt a1 … => …`, return type)"""
        if name in self.stack:
            raise Untranslatable('recursive method %s' % name)
        fn = self.methods.get(name)
        if fn is None:
            raise Untranslatable('no method %s' % name)
        self.stack.append(name)
        try:
            a = fn.args
            npar = DS_METHODS[name]
            params = [x.arg for x in a.args]
            selfname = params[0]
            if len(params) < 1 + npar or len(params) - 1 - npar != len(a.defaults):
                raise U(fn, 'parameters of %s: the callers pass %d argument(s), every further parameter needs a default' % (name, npar))
            if len(set(params)) != len(params):
                raise U(fn, 'parameter names')
            env = {}
            lam = []
            for i in range(npar):
                x = self.fresh('a')
                lam.append(x)
                env[params[1 + i]] = V('int', x)
            extra = DS_EXTRA.get(name, [])
            if len(a.defaults) != len(extra):
                raise U(fn, 'parameters of %s' % name)
            for p, d, ty in zip(params[1 + npar:], a.defaults, extra):
                env[p] = self.coerce(self.ev(d, {}, [], selfname, pure_fields=True, fields={}), ty, d)
            for n in assigned_names(fn.body):
                if n == selfname:
                    raise U(fn, 'self is assigned')
                if n not in env:
                    env[n] = V('undef')
            rty = [None]
            body = self.block(pytrans.strip_docstring(fn.body), env, selfname, rty)
            return 'fun (opt : Bool) %s =>\n%s' % (' '.join('(%s : Int)' % x for x in lam), ind(body)), rty[0] or 'unit'
        finally:
            self.stack.pop()

    def set_rty(self, rty, ty, node):
        if rty[0] is None:
            rty[0] = ty
        elif rty[0] != ty:
            raise U(node, 'the method returns a %s here and a %s elsewhere' % (ty, rty[0]))

    def opt_unify(self, env, name, v, node):
        """a local that was `None` so far and now gets an optional value (or the reverse) has that optional type"""
        return v

    def render(self, binds, tail):
        lines = ['let %s ← %s' % (x, r) for x, r in binds] + [tail]
        return 'do\n' + '\n'.join(ind(l) for l in lines)

    def block(self, stmts, env, selfname, rty):
        """CPS: the Lean term (type DsM <return type>) of the statement list"""
        env = dict(env)
        binds = []
        for i, st in enumerate(stmts):
            rest = stmts[i + 1:]
            if isinstance(st, ast.Return):
                # (what follows a return / raise in the same statement list is never executed)
                if st.value is None:
                    self.set_rty(rty, 'unit', st)
                    return self.render(binds, 'pure ()')
                v = self.ev(st.value, env, binds, selfname)
                if v.ty not in ('int', 'bool', 'bytes'):
                    raise U(st, 'return of a %s' % v.ty)
                self.set_rty(rty, v.ty, st)
                return self.render(binds, 'pure %s' % v.term)
            if isinstance(st, ast.Raise):
                return self.render(binds, self.raise_term(st, env))
            if isinstance(st, ast.Assert):
                n0 = len(binds)
                c = self.cond(st.test, env, binds, selfname)
                if any('DsM.fld' not in r for _, r in binds[n0:]):
                    raise U(st, 'call inside an assert')
                msg = '[]'
                if st.msg is not None:
                    msg = text_lit(pytrans.const_str(st.msg))
                binds.append(('_', 'pyAssert opt (%s) %s' % (c, msg)))
                continue
            if isinstance(st, ast.If):
                c = self.cond(st.test, env, binds, selfname)
                body = pytrans.strip_docstring(st.body)
                orelse = pytrans.strip_docstring(st.orelse)
                if self.leaves(body) or self.leaves(orelse):
                    ta = self.block(body + rest, env, selfname, rty)
                    tb = self.block(orelse + rest, env, selfname, rty)
                    return self.render(binds, 'if %s then (%s)\nelse %s' % (c, ta.replace('\n', '\n  ') if '\n' in ta else ta, tb))
                # only local assignments in the branches: the changed locals are joined
                ea, ba = self.assign_only(body, env, selfname)
                eb, bb = self.assign_only(orelse, env, selfname)
                changed = [k for k in env if ea[k] is not env[k] or eb[k] is not env[k]]
                for k in changed:
                    va, vb = ea[k], eb[k]
                    if 'undef' in (va.ty, vb.ty):
                        env[k] = V('undef')
                        continue
                    ty = va.ty if va.ty != 'none' else vb.ty
                    if ty == 'none':
                        continue
                    va, vb = self.coerce(va, ty, st), self.coerce(vb, ty, st)
                    if ty not in DS_LEAN_TY:
                        raise U(st, 'variable of type %s changed in a branch' % ty)

                    def prog(bs, v):
                        if not bs:
                            return 'pure %s' % v.term
                        if len(bs) == 1 and bs[0][0] == v.term:
                            return bs[0][1]
                        return '(do ' + '; '.join('let %s ← %s' % b for b in bs) + '; pure %s)' % v.term
                    if len(changed) != 1:
                        raise U(st, 'more than one local changed in a branch')
                    x = self.fresh()
                    binds.append((x, '(if %s then %s else %s)' % (c, prog(ba, va), prog(bb, vb))))
                    env[k] = V(ty, x)
                if not changed and (ba or bb):
                    raise U(st, 'branch without effect')
                continue
            if isinstance(st, (ast.Assign, ast.AnnAssign, ast.AugAssign)):
                self.assign(st, env, binds, selfname)
                continue
            if isinstance(st, ast.Expr):
                v = self.ev(st.value, env, binds, selfname)
                if not isinstance(st.value, ast.Call):
                    raise U(st, 'expression statement')
                # the value is dropped: the bind stays (the call can raise and moves the cursor)
                continue
            raise U(st, 'statement %s' % type(st).__name__)
        self.set_rty(rty, 'unit', stmts[-1] if stmts else None)
        return self.render(binds, 'pure ()')

    def leaves(self, stmts):
        return any(isinstance(n, (ast.Return, ast.Raise)) for st in stmts for n in ast.walk(st))

    def raise_term(self, st, env):
        e = st.exc
        if st.cause is not None or not (isinstance(e, ast.Call) and isinstance(e.func, ast.Name) and e.func.id == 'AssertionError'
                                        and 'AssertionError' not in env and len(e.args) == 1 and not e.keywords):
            raise U(st, 'raise of anything but AssertionError("text")')
        return 'DsM.raise (assertionErr %s)' % text_lit(pytrans.const_str(e.args[0]))

    def assign_only(self, stmts, env, selfname):
        env = dict(env)
        binds = []
        for st in stmts:
            if not isinstance(st, (ast.Assign, ast.AnnAssign)):
                raise U(st, 'statement %s in a branch that neither returns nor raises' % type(st).__name__)
            tgt = st.targets[0] if isinstance(st, ast.Assign) and len(st.targets) == 1 else getattr(st, 'target', None)
            if not isinstance(tgt, ast.Name):
                raise U(st, 'field assignment in a branch')
            self.assign(st, env, binds, selfname)
            if any('DsM.fld' not in r for _, r in binds):
                raise U(st, 'call in a branch that neither returns nor raises')
        return env, binds

    def assign(self, st, env, binds, selfname):
        if isinstance(st, ast.Assign):
            if len(st.targets) != 1:
                raise U(st, 'multiple assignment')
            tgt, val, aug = st.targets[0], st.value, None
        elif isinstance(st, ast.AnnAssign):
            if st.value is None:
                raise U(st, 'annotation without a value')
            tgt, val, aug = st.target, st.value, None
        else:
            tgt, val, aug = st.target, st.value, st.op
            if not isinstance(aug, (ast.Add, ast.Sub)):
                raise U(st, 'augmented assignment %s' % type(aug).__name__)
        f = self_attr(tgt, selfname)
        if isinstance(tgt, ast.Name):
            if tgt.id == selfname:
                raise U(st, 'self is assigned')
            if aug is not None:
                old = self.ev(ast.Name(id=tgt.id, ctx=ast.Load()), env, binds, selfname)
            v = self.ev(val, env, binds, selfname)
            if aug is not None:
                if old.ty != 'int' or v.ty != 'int':
                    raise U(st, 'augmented assignment on %s' % old.ty)
                v = V('int', '(%s %s %s)' % (old.term, '+' if isinstance(aug, ast.Add) else '-', v.term))
            if v.ty not in ('int', 'bool', 'bytes', 'otext', 'obool', 'none', 'text'):
                raise U(st, 'local of type %s' % v.ty)
            env[tgt.id] = v
            return
        if f is None or f not in self.slots:
            raise U(st, 'assignment target')
        slot = self.slots[f]
        if aug is not None:
            x = self.fresh()
            binds.append((x, 'DsM.fld (·.%s)' % slot))      # the target is read first …
            v = self.ev(val, env, binds, selfname)            # … then the right-hand side is evaluated
            if DS_SLOT_TY[slot] != 'int' or v.ty != 'int':
                raise U(st, 'augmented assignment on a %s field' % DS_SLOT_TY[slot])
            new = '(%s %s %s)' % (x, '+' if isinstance(aug, ast.Add) else '-', v.term)
        else:
            v = self.coerce(self.ev(val, env, binds, selfname), DS_SLOT_TY[slot], st)
            new = v.term
        binds.append(('_', 'DsM.upd (fun d => { d with %s := %s })' % (slot, new)))

    def method_term(self, name):
        self.counter[0] = 0
        term, rty = self.method(name)
        want = {'check_range': 'bool', 'inc_index': 'unit', 'get_mem': 'bytes', 'get_int': 'int'}[name]
        if rty != want:
            raise Untranslatable('%s returns a %s, expected %s' % (name, rty, want))
        return term


def ds_ctor_args(repo):
    """the (byte order, signedness) of every `DataStream(...)` in pel/peltool/*.py"""
    ds = DsTrans(repo)
    pnames = ds.init_params
    found = set()
    nsites = 0
    for p in sorted(glob.glob(os.path.join(repo, 'modules', PELTOOL, '*.py'))):
        with open(p, encoding='utf-8') as f:
            tree = ast.parse(f.read(), filename=p)
        bound = set()
        for n in ast.walk(tree):
            if isinstance(n, ast.ImportFrom):
                for a in n.names:
                    if a.name == 'DataStream' or a.asname == 'DataStream' or a.name == '*':
                        if n.module != 'pel.datastream' or a.name != 'DataStream' or a.asname not in (None, 'DataStream') or n.level:
                            raise U(n, 'unexpected import of DataStream in %s' % os.path.basename(p))
                        bound.add('import')
            elif isinstance(n, ast.Import):
                for a in n.names:
                    if 'datastream' in a.name:
                        raise U(n, 'module import of pel.datastream in %s' % os.path.basename(p))
            elif isinstance(n, (ast.FunctionDef, ast.ClassDef)) and n.name == 'DataStream':
                raise U(n, 'DataStream redefined in %s' % os.path.basename(p))
            elif isinstance(n, ast.Name) and n.id == 'DataStream' and isinstance(n.ctx, (ast.Store, ast.Del)):
                raise U(n, 'DataStream assigned in %s' % os.path.basename(p))
        for n in ast.walk(tree):
            if isinstance(n, ast.Call) and isinstance(n.func, ast.Name) and n.func.id == 'DataStream':
                if not bound:
                    raise U(n, 'DataStream is not imported in %s' % os.path.basename(p))
                if any(isinstance(x, ast.Starred) for x in n.args) or any(k.arg is None for k in n.keywords):
                    raise U(n, 'starred argument of DataStream')
                vals = {}
                for i, x in enumerate(n.args):
                    if i >= 3:
                        raise U(n, 'too many arguments of DataStream')
                    vals[pnames[i]] = x
                for k in n.keywords:
                    if k.arg in vals or k.arg not in pnames:
                        raise U(n, 'keyword %s of DataStream' % k.arg)
                    vals[k.arg] = k.value
                out = []
                for j, ty in ((1, 'otext'), (2, 'obool')):
                    x = vals.get(pnames[j])
                    if x is None:
                        d = ds.init_defaults
                        k = j - (3 - len(d))
                        if k < 0:
                            raise U(n, 'DataStream called without %s' % pnames[j])
                        x = d[k]
                    if not isinstance(x, ast.Constant):
                        raise U(n, 'argument %s of DataStream is not a literal' % pnames[j])
                    out.append(ds.coerce(ds.const(x), ty, n).term)
                if pnames[0] not in vals:
                    raise U(n, 'DataStream called without data')
                found.add('(%s, %s)' % tuple(out))
                nsites += 1
    if nsites == 0:
        raise Untranslatable('no DataStream(...) in pel/peltool')
    if len(found) != 1:
        raise Untranslatable('the construction sites of DataStream disagree: %s' % sorted(found))
    return found.pop()


DS_TARGETS = [
    ('dsInit', 'Bytes → Option Text → Option Bool → DS', lambda repo: DsTrans(repo).init_term()),
    ('dsCtorArgs', 'Option Text × Option Bool', ds_ctor_args),
    ('dsCheckRange', 'Bool → Int → DsM Bool', lambda repo: DsTrans(repo).method_term('check_range')),
    ('dsIncIndex', 'Bool → Int → DsM Unit', lambda repo: DsTrans(repo).method_term('inc_index')),
    ('dsGetMem', 'Bool → Int → DsM Bytes', lambda repo: DsTrans(repo).method_term('get_mem')),
    ('dsGetInt', 'Bool → Int → DsM Int', lambda repo: DsTrans(repo).method_term('get_int')),
]


# =====================================================================================================================
# B. user_data.py / ext_user_data.py   (Rd monad; the symbolic executor of trans_sections.py, extended)

JSON_ERR = ('json.decoder.JSONDecodeError', 'json.JSONDecodeError')
PY_BUILTINS = ('ord', 'isinstance', 'dict', 'len', 'bytes', 'memoryview', 'str', 'chr', 'Exception', 'ImportError', 'None', 'True', 'False')


def check_builtins_free(mod):
    """the builtins the idioms rely on are not rebound at module level"""
    for n in PY_BUILTINS:
        if n in mod.names:
            raise Untranslatable('builtin %s is rebound at module level of %s' % (n, mod.relpath))


def is_module_attr(ex, f, module, attr):
    """`<module>.<attr>` where <module> is bound by a plain `import <module>` and is not shadowed by a local"""
    return (isinstance(f, ast.Attribute) and f.attr == attr and isinstance(f.value, ast.Name) and f.value.id == module
            and module not in ex.env and ex.mod.names.get(module) == ('module', module))


def to_json(node, v):
    """a Python value as the JSON value `json.dumps` makes of it"""
    if v.ty == 'text':
        return '(jstr %s)' % v.term
    if v.ty == 'int':
        return '(jnum %s)' % v.term
    if v.ty == 'tlist':
        return '(.arr (%s.map jstr))' % v.term
    if v.ty == 'json':
        return v.term
    if v.ty == 'list':
        v.shared = True
        if v.var is None:
            if v.base == '[]':
                return '(.arr [])'
            raise U(node, 'list of unknown element type')
        return '(.arr (%s.map fun %s => %s %s))' % (v.base, v.var, 'jstr' if v.elem.ty == 'text' else 'jnum', v.elem.term)
    if v.ty == 'dict':
        return '(J.obj %s)' % TS.render_items(v.items)
    raise U(node, 'json.dumps of a %s' % v.ty)


class UdExec(TS.Exec):
    """`UserData` / `ExtUserData`: __init__ + toJSON(config)"""

    def __init__(self, mod, counter=None, config=None):
        TS.Exec.__init__(self, mod, counter)
        self.config = config

    def fork(self):
        e = UdExec(self.mod, self.counter, self.config)
        e.env = dict(self.env)
        return e

    def eval_binop(self, node):
        # a chain of subtractions `n - 4 - 8` as a byte count: truncated subtraction composes ((n ∸ 4) ∸ 8 = n ∸ 12), every count <= 0 fails alike
        if isinstance(node.op, ast.Sub):
            a = self.eval(node.left)
            b = self.eval(node.right)
            if a.ty in ('int', 'intz') and b.ty == 'int':
                return V('intz', '(%s - %s)' % (a.term, b.term))
            raise U(node, 'operator Sub on %s and %s' % (a.ty, b.ty))
        return TS.Exec.eval_binop(self, node)

    def eval_call(self, node):
        f = node.func
        rc = self.read_call(node)
        if rc:
            v = TS.Exec.eval_call(self, node)
            a = node.args[0]
            if rc[0] == 'getInt' and isinstance(a, ast.Constant) and isinstance(a.value, int) and 0 < a.value <= 2:
                v.chr_ok = True          # at most two bytes: below 0x110000
            return v
        if isinstance(f, ast.Name) and f.id not in self.env and f.id in self.mod.names \
                and self.mod.resolve(f) == ('pel.peltool.parse_user_data', 'ParseUserData'):
            self.plain_call(node, 5)
            args = [self.eval(a) for a in node.args]
            if [a.ty for a in args] != ['text', 'int', 'int', 'int', 'bytes']:
                raise U(node, 'argument types of ParseUserData: %s' % [a.ty for a in args])
            return V('udparser', None, args=[a.term for a in args])
        if isinstance(f, ast.Attribute) and f.attr == 'parse' and isinstance(f.value, (ast.Name, ast.Attribute)):
            r = self.lookup(f.value)
            if r is not None and r.ty == 'udparser':
                self.plain_call(node, 1)
                a = node.args[0]
                if not (isinstance(a, ast.Name) and a.id == self.config and self.env.get(a.id) is not None and self.env[a.id].ty == 'config'):
                    raise U(node, 'parse must be called with the config parameter of toJSON')
                return self.bind('udRaise (parseUserData T env allow %s)' % ' '.join(r.args), 'pystr')
        if is_module_attr(self, f, 'json', 'dumps'):
            self.plain_call(node, 1)
            x = self.eval(node.args[0])
            j = to_json(node, x)
            return V('pystr', '(PyStr.dumps %s)' % j, j=j)
        if is_module_attr(self, f, 'json', 'loads'):
            self.plain_call(node, 1)
            x = self.eval(node.args[0])
            if x.ty == 'pystr' and getattr(x, 'j', None):
                return V('json', x.j)         # json.loads(json.dumps(v)) = v
            raise U(node, 'json.loads of a text that may not be JSON, outside try/except JSONDecodeError')
        if isinstance(f, ast.Attribute) and f.attr == 'encode':
            r = self.eval(f.value)
            if r.ty != 'text' or node.keywords or len(node.args) > 1:
                raise U(node, 'encode')
            if node.args and pytrans.const_str(node.args[0]).lower().replace('-', '').replace('_', '') != 'utf8':
                raise U(node, 'codec %r' % node.args[0].value)
            return V('bytes', '(utf8Encode %s)' % r.term)
        return TS.Exec.eval_call(self, node)

    def exec_stmt(self, st):
        if isinstance(st, ast.Try):
            return self.exec_try_loads(st)
        if isinstance(st, ast.If):
            r = self.merge_idiom(st)
            if r:
                return None
        return TS.Exec.exec_stmt(self, st)

    def exec_try_loads(self, st):
        """try: J = json.loads(V) except json.decoder.JSONDecodeError: <assignments>; J = E"""
        body = pytrans.strip_docstring(st.body)
        if st.orelse or st.finalbody or len(st.handlers) != 1 or len(body) != 1:
            raise U(st, 'try statement shape')
        h = st.handlers[0]
        a = body[0]
        if not (isinstance(a, ast.Assign) and len(a.targets) == 1 and isinstance(a.targets[0], ast.Name) and isinstance(a.value, ast.Call)
                and is_module_attr(self, a.value.func, 'json', 'loads') and len(a.value.args) == 1 and not a.value.keywords
                and isinstance(a.value.args[0], ast.Name)):
            raise U(st, 'the try body must be `j = json.loads(value)`')
        if h.name is not None or h.type is None or pytrans.dotted(h.type) not in JSON_ERR or 'json' in self.env \
                or self.mod.names.get('json') != ('module', 'json'):
            raise U(st, 'the handler must be `except json.decoder.JSONDecodeError:`')
        jname, vname = a.targets[0].id, a.value.args[0].id
        val = self.lookup(a.value.args[0])
        if val is None or val.ty != 'pystr' or getattr(val, 'j', None):
            raise U(st, 'json.loads of something that is not the text returned by parse')
        sub = self.fork()
        t = self.fresh('t')
        sub.env[vname] = V('text', t)             # inside the handler the value is a text that is not JSON
        if sub.exec_block(h.body) is not None:
            raise U(st, 'return inside the handler')
        if sub.binds:
            raise U(st, 'read or call that can fail inside the handler')
        alt = sub.env.get(jname)
        if alt is None or alt.ty != 'json':
            raise U(st, 'the handler must assign the JSON value')
        for k in sub.env:
            if k not in (jname, vname) and sub.env[k] is not self.env.get(k):
                self.env[k] = V('undef')          # temporaries of the handler
        self.env[jname] = self.bind('PyStr.loadsOr %s (fun %s => %s)' % (val.term, t, alt.term), 'json')
        return None

    def merge_idiom(self, st):
        """if not isinstance(J, dict): out[K] = J else: out.update(J)"""
        t = st.test
        neg = False
        if isinstance(t, ast.UnaryOp) and isinstance(t.op, ast.Not):
            neg, t = True, t.operand
        if not (isinstance(t, ast.Call) and isinstance(t.func, ast.Name) and t.func.id == 'isinstance' and 'isinstance' not in self.env
                and 'isinstance' not in self.mod.names):
            return False
        if len(t.args) != 2 or t.keywords or not (isinstance(t.args[1], ast.Name) and t.args[1].id == 'dict' and 'dict' not in self.env
                                                  and 'dict' not in self.mod.names) or not isinstance(t.args[0], ast.Name):
            raise U(st, 'isinstance test')
        j = self.lookup(t.args[0])
        if j is None or j.ty != 'json':
            raise U(st, 'isinstance of a value that is not the loaded JSON value')
        other, isdict = (st.body, st.orelse) if neg else (st.orelse, st.body)
        other, isdict = pytrans.strip_docstring(other), pytrans.strip_docstring(isdict)
        if len(other) != 1 or len(isdict) != 1:
            raise U(st, 'branches of the isinstance test')
        o, u = other[0], isdict[0]
        if not (isinstance(o, ast.Assign) and len(o.targets) == 1 and isinstance(o.targets[0], ast.Subscript)
                and isinstance(o.value, ast.Name) and o.value.id == t.args[0].id):
            raise U(st, 'the non-dict branch must be `out[key] = j`')
        d = self.lookup(o.targets[0].value) if isinstance(o.targets[0].value, (ast.Name, ast.Attribute)) else None
        if d is None or d.ty != 'dict':
            raise U(st, 'the non-dict branch must store into the dictionary')
        key = pytrans.const_str(o.targets[0].slice)
        if not (isinstance(u, ast.Expr) and isinstance(u.value, ast.Call) and isinstance(u.value.func, ast.Attribute) and u.value.func.attr == 'update'
                and len(u.value.args) == 1 and not u.value.keywords and isinstance(u.value.args[0], ast.Name) and u.value.args[0].id == t.args[0].id
                and ast.dump(u.value.func.value) == ast.dump(o.targets[0].value)):
            raise U(st, 'the dict branch must be `out.update(j)`')
        self.env[self.key_of(o.targets[0].value)] = V('dictfinal', None, items=d.items, j=j.term, key=key)
        return True


def ud_class_exec(repo, relfile, cls, with_creator):
    """trans_sections.class_exec with `toJSON(self, config)` (copied and adapted: the original insists on `toJSON(self)`)"""
    mod = TS.Module(repo, PELTOOL + relfile)
    check_builtins_free(mod)
    cnode, methods = plain_class(mod.tree, cls)
    init, tojson = methods.get('__init__'), methods.get('toJSON')
    if init is None or tojson is None:
        raise Untranslatable('%s needs __init__ and toJSON' % cls)
    TS.check_plain_args(init, ['self'] + TS.INIT_PARAMS + (['creatorID'] if with_creator else []))
    a = tojson.args
    if a.vararg or a.kwarg or a.kwonlyargs or a.posonlyargs or a.defaults or a.kw_defaults or len(a.args) != 2 or a.args[0].arg != 'self':
        raise U(tojson, 'argument list of toJSON')
    cfg = a.args[1].arg
    ex = UdExec(mod, None, cfg)
    ex.env['self'] = V('self')
    ex.env['stream'] = V('stream')
    for p in TS.INIT_PARAMS[1:] + (['creatorID'] if with_creator else []):
        ty, term = TS.PARAM_TERMS[p]
        ex.env[p] = V(ty, term)
    if ex.exec_block(init.body) is not None:
        raise U(init, 'return in __init__')
    ex.env = {k: v for k, v in ex.env.items() if isinstance(k, tuple) or k == 'self'}
    if cfg in ex.env or cfg in mod.names:
        raise U(tojson, 'name of the config parameter')
    ex.env[cfg] = V('config')
    r = ex.exec_block(tojson.body)
    if r is None or r[1].ty != 'dictfinal':
        raise U(tojson, 'toJSON must end in returning the dictionary after merging the parsed value into it')
    return ex, r[1]


def translate_ud(repo, relfile, cls, with_creator):
    ex, d = ud_class_exec(repo, relfile, cls, with_creator)
    items = TS.render_items(d.items)
    res = ('(match %s with\n    | .obj m => J.obj (objUpdate %s m)\n    | o => J.obj (objSet %s %s o))'
           % (d.j, items.replace('\n', '\n  '), items.replace('\n', '\n  '), text_lit(d.key)))
    params = ['T', 'env', 'allow', 'h'] + (['creator'] if with_creator else [])
    return TS.render_do(params, ex.binds, res)


# =====================================================================================================================
# C. parse_user_data.py   (PyM monad)

PUD = PELTOOL + 'parse_user_data.py'
PUD_MOD = 'pel.peltool.parse_user_data'
PUD_PARAMS = [('text', 'creator'), ('int', 'comp'), ('int', 'sub'), ('int', 'ver'), ('bytes', 'data')]
JOIN_TYPES = ('int', 'text', 'bytes', 'optmod', 'pystr', 'optpystr', 'tlist', 'char')


def contains(stmts, kinds):
    return any(isinstance(n, kinds) for st in stmts for n in ast.walk(st))


def unify(node, va, vb):
    """values of one variable coming out of two branches -> (type, term a, term b)"""
    if va.ty == vb.ty:
        return va.ty, va.term, vb.term
    pair = {va.ty, vb.ty}
    if pair <= {'mod', 'none', 'optmod'}:
        def up(v):
            return {'mod': '(some %s)' % v.term, 'none': '(none : Option UdPlugin)', 'optmod': v.term}[v.ty]
        return 'optmod', up(va), up(vb)
    if pair <= {'pystr', 'text', 'none', 'optpystr'}:
        if 'none' in pair or 'optpystr' in pair:
            def up(v):
                return {'pystr': '(some %s)' % v.term, 'text': '(some (PyStr.raw %s))' % v.term, 'none': '(none : Option PyStr)', 'optpystr': v.term}[v.ty]
            return 'optpystr', up(va), up(vb)

        def up(v):
            return {'pystr': v.term, 'text': '(PyStr.raw %s)' % v.term}[v.ty]
        return 'pystr', up(va), up(vb)
    raise U(node, 'variable of type %s/%s changed in a branch' % (va.ty, vb.ty))


class LoopBody:
    """the body of `for ch in <str>:` — assignments, `+=`, `.append`, `if`: pure"""

    def __init__(self, env):
        self.env = dict(env)

    def fork(self):
        return LoopBody(self.env)

    def ev(self, node):
        if isinstance(node, ast.Constant) and isinstance(node.value, str):
            return V('text', text_lit(node.value), lit=node.value)
        if isinstance(node, ast.Constant) and isinstance(node.value, int) and not isinstance(node.value, bool) and node.value >= 0:
            return V('int', str(node.value), lit=node.value)
        if isinstance(node, ast.Name):
            v = self.env.get(node.id)
            if v is None or v.ty == 'undef':
                raise U(node, 'name %s in a loop body' % node.id)
            return v
        if isinstance(node, ast.Call) and isinstance(node.func, ast.Name) and node.func.id == 'ord' and 'ord' not in self.env \
                and len(node.args) == 1 and not node.keywords:
            x = self.ev(node.args[0])
            if x.ty == 'char':
                return V('int', x.term)
            if x.ty == 'text' and x.lit is not None and len(x.lit) == 1:
                return V('int', str(ord(x.lit)))
            raise U(node, 'ord of a %s' % x.ty)
        if isinstance(node, ast.BinOp) and isinstance(node.op, ast.Add):
            a, b = self.ev(node.left), self.ev(node.right)
            return self.concat(node, a, b)
        raise U(node, 'expression %s in a loop body' % type(node).__name__)

    def as_char(self, v):
        if v.ty == 'char':
            return v.term
        if v.ty == 'text' and v.lit is not None and len(v.lit) == 1:
            return str(ord(v.lit))
        return None

    def concat(self, node, a, b):
        def as_text(v):
            if v.ty == 'text':
                return v.term
            if v.ty == 'char':
                return '[%s]' % v.term
            raise U(node, 'concatenation with a %s' % v.ty)
        return V('text', '(%s ++ %s)' % (as_text(a), as_text(b)))

    def cond(self, node):
        if isinstance(node, ast.BoolOp):
            return '(' + (' ∧ ' if isinstance(node.op, ast.And) else ' ∨ ').join(self.cond(v) for v in node.values) + ')'
        if isinstance(node, ast.UnaryOp) and isinstance(node.op, ast.Not):
            return '¬ (%s)' % self.cond(node.operand)
        if isinstance(node, ast.Compare) and len(node.ops) == 1:
            a, b = self.ev(node.left), self.ev(node.comparators[0])
            op = type(node.ops[0])
            ca, cb = self.as_char(a), self.as_char(b)
            if 'char' in (a.ty, b.ty):
                if ca is None or cb is None or op not in (ast.Eq, ast.NotEq):
                    raise U(node, 'comparison of a character')
                return '%s %s %s' % (ca, '=' if op is ast.Eq else '≠', cb)
            if a.ty == 'int' and b.ty == 'int':
                sym = {ast.Lt: '<', ast.LtE: '≤', ast.Gt: '>', ast.GtE: '≥', ast.Eq: '=', ast.NotEq: '≠'}.get(op)
                if sym:
                    return '%s %s %s' % (a.term, sym, b.term)
            if a.ty == 'text' and b.ty == 'text' and op in (ast.Eq, ast.NotEq):
                return '%s %s %s' % (a.term, '=' if op is ast.Eq else '≠', b.term)
        raise U(node, 'condition in a loop body')

    def run(self, stmts):
        for st in pytrans.strip_docstring(stmts):
            if isinstance(st, ast.Assign) and len(st.targets) == 1 and isinstance(st.targets[0], ast.Name):
                k = st.targets[0].id
                v = self.ev(st.value)
                old = self.env.get(k)
                if old is not None and old.ty == 'char':
                    c = self.as_char(v)
                    if c is None:
                        raise U(st, 'the loop variable gets a value that is not one character')
                    v = V('char', c)
                elif v.ty == 'char':
                    raise U(st, 'a character stored in another variable')
                elif old is not None and old.ty not in ('undef', v.ty):
                    raise U(st, 'variable changes its type')
                self.env[k] = v
            elif isinstance(st, ast.AugAssign) and isinstance(st.op, ast.Add) and isinstance(st.target, ast.Name):
                old = self.ev(ast.Name(id=st.target.id, ctx=ast.Load()))
                if old.ty != 'text':
                    raise U(st, '+= on a %s' % old.ty)
                self.env[st.target.id] = self.concat(st, old, self.ev(st.value))
            elif isinstance(st, ast.Expr) and isinstance(st.value, ast.Call) and isinstance(st.value.func, ast.Attribute) \
                    and st.value.func.attr == 'append' and isinstance(st.value.func.value, ast.Name) and len(st.value.args) == 1 and not st.value.keywords:
                k = st.value.func.value.id
                l = self.ev(st.value.func.value)
                e = self.ev(st.value.args[0])
                if l.ty != 'tlist' or e.ty != 'text':
                    raise U(st, 'append of a %s to a %s' % (e.ty, l.ty))
                self.env[k] = V('tlist', '(%s ++ [%s])' % (l.term, e.term))
            elif isinstance(st, ast.If):
                c = self.cond(st.test)
                a, b = self.fork(), self.fork()
                a.run(st.body)
                b.run(st.orelse)
                for k in list(a.env) + list(b.env):
                    va, vb, v0 = a.env.get(k), b.env.get(k), self.env.get(k)
                    if va is v0 and vb is v0:
                        continue
                    if va is None or vb is None or 'undef' in (va.ty, vb.ty):
                        self.env[k] = V('undef')
                        continue
                    if va.ty != vb.ty:
                        raise U(st, 'variable of type %s/%s changed in a branch' % (va.ty, vb.ty))
                    self.env[k] = V(va.ty, '(if %s then %s else %s)' % (c, va.term, vb.term))
            else:
                raise U(st, 'statement %s in a loop body' % type(st).__name__)


LEAN_TY = {'text': 'Text', 'tlist': 'List Text', 'int': 'Nat'}


class PyExec(TS.Exec):
    """straight-line part of the methods of ParseUserData (expressions, dictionaries, joins of branches without return)"""

    def __init__(self, owner, counter=None):
        TS.Exec.__init__(self, owner.mod, counter)
        self.owner = owner

    def fork(self):
        e = PyExec(self.owner, self.counter)
        e.env = dict(self.env)
        return e

    def is_cache(self, node):
        return isinstance(node, ast.Name) and node.id not in self.env and node.id in self.mod.names \
            and self.mod.resolve(node) == (PUD_MOD, 'userDataParsers')

    def eval(self, node):
        if isinstance(node, ast.Constant) and node.value is None:
            return V('none', 'none')
        if isinstance(node, ast.Attribute):
            d = pytrans.dotted(node)
            if d is not None and d.startswith('UserDataFormat.') and d.endswith('.value') and d.count('.') == 2 \
                    and 'UserDataFormat' not in self.env and self.mod.names.get('UserDataFormat') == ('import', PUD_MOD, 'UserDataFormat'):
                n = self.owner.enum_value(node, d.split('.')[1])
                return V('int', str(n), lit=n, chr_ok=n < 0x110000)
            if isinstance(node.value, ast.Name) and self.env.get(node.value.id) is not None and self.env[node.value.id].ty == 'config':
                if node.attr != 'allow_plugins':
                    raise U(node, 'Config member %s' % node.attr)
                return V('bool', 'allow')
        if isinstance(node, ast.List) and not node.elts:
            return V('tlist', '([] : List Text)')
        if isinstance(node, ast.Subscript) and self.is_cache(node.value):
            k = self.eval(node.slice)
            if k.ty != 'text':
                raise U(node, 'module table key of type %s' % k.ty)
            return self.bind('cacheLoad %s' % k.term, 'optmod')
        return TS.Exec.eval(self, node)

    def apply_format(self, node, fmt, args, percent=False):
        args = [V('text', '%s.msg' % a.term) if a.ty == 'exc' else a for a in args]      # str(e)
        return TS.Exec.apply_format(self, node, fmt, args, percent)

    def eval_call(self, node):
        f = node.func
        if isinstance(f, ast.Attribute):
            if isinstance(f.value, ast.Name) and f.value.id == 'bytes' and f.attr == 'decode' and self.global_of(f.value) == ('builtins', 'bytes'):
                self.plain_call(node, 1)
                b = self.eval(node.args[0])
                if b.ty != 'bytes':
                    raise U(node, 'bytes.decode of %s' % b.ty)
                return self.bind('pyDecode %s' % b.term, 'text')
            if is_module_attr(self, f, 'json', 'dumps'):
                self.plain_call(node, 1)
                j = to_json(node, self.eval(node.args[0]))
                return V('pystr', '(PyStr.dumps %s)' % j, j=j)
            if is_module_attr(self, f, 'importlib', 'import_module'):
                self.plain_call(node, 1)
                k = self.eval(node.args[0])
                if k.ty != 'text':
                    raise U(node, 'import_module of a %s' % k.ty)
                return self.bind('udImport env %s' % k.term, 'mod')
            if isinstance(f.value, ast.Name) and f.value.id in self.env and self.env[f.value.id].ty == 'self':
                self.plain_call(node, 0)
                term, ty = self.owner.method(f.attr)
                return self.bind('(%s)' % term.replace('\n', '\n  '), ty)
            if f.attr == 'parseUDToJson':
                m = self.eval(f.value)
                if m.ty != 'mod':
                    raise U(node, 'parseUDToJson of a %s' % m.ty)
                self.plain_call(node, 3)
                a = [self.eval(x) for x in node.args]
                if [x.ty for x in a] != ['int', 'int', 'bytes']:
                    raise U(node, 'argument types of parseUDToJson: %s' % [x.ty for x in a])
                return self.bind('udCall %s %s' % (m.term, ' '.join(x.term for x in a)), 'optpystr')
            if f.attr in ('strip', 'lower') and not node.args and not node.keywords:
                r = self.eval(f.value)
                if r.ty != 'text':
                    raise U(node, '%s of a %s' % (f.attr, r.ty))
                if f.attr == 'strip':
                    return V('text', '(stripSp %s)' % r.term)
                return V('text', '(%s.map toLowerAscii)' % r.term)
        return TS.Exec.eval_call(self, node)

    def cond(self, node, mode):
        P = mode == 'prop'
        if P and isinstance(node, ast.BoolOp) and isinstance(node.op, ast.And) and len(node.values) >= 2:
            m, e = node.values[0], node.values[1]
            if isinstance(m, ast.Compare) and len(m.ops) == 1 and isinstance(m.ops[0], ast.In) and self.is_creators(m.comparators[0]) \
                    and isinstance(e, ast.Compare) and len(e.ops) == 1 and isinstance(e.ops[0], ast.Eq) \
                    and isinstance(e.left, ast.Subscript) and self.is_creators(e.left.value) and ast.dump(e.left.slice) == ast.dump(m.left):
                n0 = len(self.binds)
                k = self.eval(m.left)
                v = self.eval(e.comparators[0])
                if k.ty == 'text' and v.ty == 'text' and len(self.binds) == n0:
                    parts = ['lookupT T.creators %s = some %s' % (k.term, v.term)]
                    for x in node.values[2:]:
                        parts.append(self.cond(x, mode))
                        if len(self.binds) != n0:
                            raise U(node, 'read in the short-circuited part of and')
                    return ' ∧ '.join(parts)
        if isinstance(node, ast.Compare) and len(node.ops) == 1 and isinstance(node.ops[0], (ast.In, ast.NotIn)) and self.is_cache(node.comparators[0]):
            k = self.eval(node.left)
            if k.ty != 'text':
                raise U(node, 'module table key of type %s' % k.ty)
            b = self.bind('cacheHas %s' % k.term, 'bool')
            val = 'true' if isinstance(node.ops[0], ast.In) else 'false'
            return '%s %s %s' % (b.term, '=' if P else '==', val)
        inner, neg = node, False
        if isinstance(node, ast.UnaryOp) and isinstance(node.op, ast.Not):
            inner, neg = node.operand, True
        if isinstance(inner, (ast.Name, ast.Attribute)):
            n0 = len(self.binds)
            v = self.eval(inner)
            if v.ty == 'bytes':
                return '%s %s []' % (v.term, ('=' if P else '==') if neg else ('≠' if P else '!='))
            if v.ty == 'bool':
                return '%s %s %s' % (v.term, '=' if P else '==', 'false' if neg else 'true')
            del self.binds[n0:]
        return TS.Exec.cond(self, node, mode)

    def is_creators(self, node):
        return isinstance(node, ast.Name) and node.id not in self.env and node.id in self.mod.names \
            and self.mod.resolve(node) == ('pel.peltool.pel_values', 'creatorIDs')

    def assign(self, target, v, node):
        if isinstance(target, ast.Subscript) and self.is_cache(target.value):
            k = self.eval(target.slice)
            ty, tv, _ = unify(node, v, V('optmod', ''))
            if k.ty != 'text' or ty != 'optmod':
                raise U(node, 'store into the module table')
            self.bind('cacheStore %s %s' % (k.term, tv), 'unit')
            return
        if isinstance(target, ast.Attribute) and not self.owner.in_init:
            raise U(node, 'a field is assigned outside __init__')
        TS.Exec.assign(self, target, v, node)

    def exec_stmt(self, st):
        if isinstance(st, ast.Try):
            return self.exec_value_try(st)
        if isinstance(st, ast.Expr) and isinstance(st.value, ast.Call) and isinstance(st.value.func, ast.Attribute) and st.value.func.attr == 'append' \
                and isinstance(st.value.func.value, ast.Name) and len(st.value.args) == 1 and not st.value.keywords:
            l = self.lookup(st.value.func.value)
            if l is not None and l.ty == 'tlist':
                e = self.eval(st.value.args[0])
                if e.ty != 'text':
                    raise U(st, 'append of a %s' % e.ty)
                self.env[st.value.func.value.id] = V('tlist', '(%s ++ [%s])' % (l.term, e.term))
                return None
        if isinstance(st, (ast.Assign, ast.AnnAssign)) and st.value is not None:
            tg = st.targets if isinstance(st, ast.Assign) else [st.target]
            if len(tg) == 1 and isinstance(tg[0], (ast.Name, ast.Subscript)):
                v = self.eval(st.value)
                if v.ty in ('none', 'mod', 'optmod', 'pystr', 'optpystr', 'tlist', 'json', 'bool'):
                    if isinstance(tg[0], ast.Name):
                        if tg[0].id in self.mod.names or tg[0].id in TS.BUILTINS:
                            raise U(st, 'assignment to a module-level name')
                        self.env[tg[0].id] = v
                    else:
                        self.assign(tg[0], v, st)
                    return None
                if v.ty in ('list', 'dict') and isinstance(st.value, (ast.Name, ast.Attribute)) and not isinstance(tg[0], ast.Subscript):
                    raise U(st, 'second name for a mutable object')
                if v.ty == 'table':
                    raise U(st, 'table stored in a variable')
                self.assign(tg[0], v, st)
                return None
        return TS.Exec.exec_stmt(self, st)

    def exec_value_try(self, st):
        """try: X = E except <class>: <assignments>; X = D      (no return inside)"""
        body = pytrans.strip_docstring(st.body)
        if st.orelse or st.finalbody or len(st.handlers) != 1 or len(body) != 1:
            raise U(st, 'try statement shape')
        h = st.handlers[0]
        a = body[0]
        if not (isinstance(a, ast.Assign) and len(a.targets) == 1 and isinstance(a.targets[0], ast.Name)):
            raise U(st, 'the body of a try without return must be one assignment')
        x = a.targets[0].id
        catches = self.owner.catch_pred(h)
        sa = self.fork()
        va = sa.eval(a.value)
        sb = self.fork()
        e = self.fresh('e')
        if h.name is not None:
            sb.env[h.name] = V('exc', e)
        if sb.exec_block(h.body) is not None:
            raise U(st, 'return inside the handler')
        vb = sb.env.get(x)
        if vb is None or vb is self.env.get(x):
            raise U(st, 'the handler must assign the same variable')
        ty, ta, tb = unify(st, va, vb)
        for k in sb.env:
            if k != x and sb.env[k] is not self.env.get(k):
                self.env[k] = V('undef')
        self.env[x] = self.bind('pyTry %s %s (fun %s => %s)' % (TS.prog(sa.binds, ta), catches, e, TS.prog(sb.binds, tb)), ty)
        return None

    def exec_if(self, st):
        """branches without return: the changed variables are joined (trans_sections.Exec.exec_if with the value types of this file)"""
        c = self.cond(st.test, 'prop')
        a, b = self.fork(), self.fork()
        if a.exec_block(st.body) is not None or b.exec_block(st.orelse) is not None:
            raise U(st, 'return inside if')
        keys = []
        for k in list(a.env) + list(b.env):
            if k not in keys and (a.env.get(k) is not self.env.get(k) or b.env.get(k) is not self.env.get(k)):
                keys.append(k)
        monadic = bool(a.binds or b.binds)
        carried = []
        for k in keys:
            va, vb, v0 = a.env.get(k), b.env.get(k), self.env.get(k)
            if va is None or vb is None or va.ty == 'undef' or vb.ty == 'undef':
                self.env[k] = V('undef')
                continue
            if va.ty == 'dict' or vb.ty == 'dict':
                if monadic or v0 is None or v0.ty != 'dict' or va.ty != 'dict' or vb.ty != 'dict':
                    raise U(st, 'dictionary changed in a branch that reads')
                n = len(v0.items)
                if va.items[:n] != v0.items or vb.items[:n] != v0.items:
                    raise U(st, 'dictionary rebuilt in a branch')
                ta, tb = va.items[n:], vb.items[n:]
                if set(TS.dict_keys(ta)) & set(TS.dict_keys(tb)):
                    raise U(st, 'member set in both branches')
                self.env[k] = TS.mk_dict(v0.items + [('cond', c, ta, tb)])
                continue
            ty, ta, tb = unify(st, va, vb)
            if ty not in JOIN_TYPES:
                raise U(st, 'variable of type %s changed in a branch' % ty)
            carried.append((k, ty, ta, tb))
        if not monadic:
            for k, ty, ta, tb in carried:
                self.env[k] = V(ty, '(if %s then %s else %s)' % (c, ta, tb))
            return None
        if len(carried) != 1:
            raise U(st, 'branches with calls must change exactly one variable')
        k, ty, ta, tb = carried[0]
        self.env[k] = self.bind('(if %s then %s else %s)' % (c, TS.prog(a.binds, ta), TS.prog(b.binds, tb)), ty)
        return None

    def exec_for(self, st):
        """for ch in <str>: <pure body>  ->  List.foldl over the code points, the assigned locals are the state"""
        if st.orelse or not isinstance(st.target, ast.Name):
            raise U(st, 'for loop')
        src = self.eval(st.iter)
        if src.ty != 'text':
            raise U(st, 'loop over a %s' % src.ty)
        var = st.target.id
        state = []
        for n in ast.walk(ast.Module(body=st.body, type_ignores=[])):
            k = None
            if isinstance(n, ast.Name) and isinstance(n.ctx, ast.Store):
                k = n.id
            elif isinstance(n, ast.Call) and isinstance(n.func, ast.Attribute) and n.func.attr == 'append' and isinstance(n.func.value, ast.Name):
                k = n.func.value.id
            if k is not None and k != var and k not in state:
                state.append(k)
        state.sort(key=lambda k: min(getattr(n, 'lineno', 0) * 10000 + getattr(n, 'col_offset', 0) for n in ast.walk(ast.Module(body=st.body, type_ignores=[]))
                                     if isinstance(n, ast.Name) and n.id == k))
        if not state:
            raise U(st, 'loop without effect')
        init = []
        for k in state:
            v = self.env.get(k)
            if v is None or v.ty not in LEAN_TY:
                raise U(st, 'loop variable %s must be initialised before the loop (str, list of str)' % k)
            init.append(v)
        p, c = self.fresh('p'), self.fresh('c')
        projs = [p] if len(state) == 1 else [p + '.2' * i + ('.1' if i < len(state) - 1 else '') for i in range(len(state))]
        body = LoopBody({k: V(v.ty, pr) for k, v, pr in zip(state, init, projs)})
        body.env[var] = V('char', c)
        body.run(st.body)
        new = []
        for k, v in zip(state, init):
            nv = body.env[k]
            if nv.ty != v.ty:
                raise U(st, 'loop variable %s changes its type' % k)
            new.append(nv.term)
        pty = ' × '.join(LEAN_TY[v.ty] for v in init)
        tup = lambda xs: xs[0] if len(xs) == 1 else '(' + ', '.join(xs) + ')'
        r = self.bind('pure (List.foldl (fun (%s : %s) (%s : Nat) => %s) %s %s)' % (p, pty, c, tup(new), tup([v.term for v in init]), src.term), 'tuple')
        rprojs = [r.term] if len(state) == 1 else [r.term + '.2' * i + ('.1' if i < len(state) - 1 else '') for i in range(len(state))]
        for k, v, pr in zip(state, init, rprojs):
            self.env[k] = V(v.ty, pr)
        self.env[var] = V('undef')
        return None


class PudModule(TS.Module):
    """trans_sections.Module, except that the decorator `@unique` on the Enum class is admitted (copied and adapted: the original refuses
    every decorated module-level definition)"""

    def __init__(self, repo, relpath):
        self.relpath = relpath
        self.modname = relpath[:-3].replace('/', '.')
        self.tree = pytrans.load_module_ast(repo, relpath)
        self.repo = repo
        self.names = {}
        for st in self.tree.body:
            if isinstance(st, ast.ImportFrom):
                if st.level:
                    raise U(st, 'relative import')
                for a in st.names:
                    if a.name == '*':
                        raise U(st, 'star import')
                    self._bind(a.asname or a.name, ('import', st.module, a.name))
            elif isinstance(st, ast.Import):
                for a in st.names:
                    self._bind((a.asname or a.name).split('.')[0], ('module', a.name))
            elif isinstance(st, (ast.FunctionDef, ast.ClassDef)):
                if st.decorator_list and not (isinstance(st, ast.ClassDef) and st.name == 'UserDataFormat'
                                              and all(pytrans.dotted(d) in ('unique', 'enum.unique') for d in st.decorator_list)):
                    raise U(st, 'decorated module-level definition')
                self._bind(st.name, ('import', self.modname, st.name))
            elif isinstance(st, ast.Assign) and all(isinstance(t, ast.Name) for t in st.targets):
                for t in st.targets:
                    self._bind(t.id, ('import', self.modname, t.id))
            elif isinstance(st, ast.Expr) and isinstance(st.value, ast.Constant) and isinstance(st.value.value, str):
                pass
            else:
                raise U(st, 'module-level statement %s' % type(st).__name__)


class Pud:
    """the class ParseUserData"""

    def __init__(self, repo):
        self.repo = repo
        self.mod = PudModule(repo, PUD)
        check_builtins_free(self.mod)
        check_module_plain(self.mod.tree, allowed_assign=('userDataParsers',))
        self.cnode, self.methods = plain_class(self.mod.tree, 'ParseUserData')
        for n in ast.walk(self.mod.tree):
            if isinstance(n, (ast.Global, ast.Nonlocal)):
                raise U(n, 'global / nonlocal')
        self.counter = [0]
        self.stack = []
        self.in_init = False
        self.cache = {}
        self.fields = self.init_fields()

    def cache_init(self):
        for st in self.mod.tree.body:
            if isinstance(st, ast.Assign) and st.targets[0].id == 'userDataParsers':
                v = st.value
                if (isinstance(v, ast.Dict) and not v.keys) or (isinstance(v, ast.Call) and isinstance(v.func, ast.Name) and v.func.id == 'dict'
                                                              and not v.args and not v.keywords and 'dict' not in self.mod.names):
                    return '[]'
                raise U(st, 'userDataParsers must start empty')
        raise Untranslatable('no module-level userDataParsers')

    def enum_value(self, node, member):
        cls = None
        for st in self.mod.tree.body:
            if isinstance(st, ast.ClassDef) and st.name == 'UserDataFormat':
                cls = st
        if cls is None or cls.keywords or len(cls.bases) != 1 or pytrans.dotted(cls.bases[0]) not in ('Enum', 'enum.Enum', 'IntEnum', 'enum.IntEnum'):
            raise U(node, 'UserDataFormat must be an Enum class')
        for d in cls.decorator_list:
            if pytrans.dotted(d) not in ('unique', 'enum.unique'):
                raise U(node, 'decorator of UserDataFormat')
        found = None
        for st in pytrans.strip_docstring(cls.body):
            if not (isinstance(st, ast.Assign) and len(st.targets) == 1 and isinstance(st.targets[0], ast.Name)):
                raise U(st, 'statement in UserDataFormat')
            if st.targets[0].id in ('_value_', 'value', '_generate_next_value_', '_missing_', '_ignore_'):
                raise U(st, 'special member of UserDataFormat')
            if st.targets[0].id == member:
                if found is not None:
                    raise U(st, 'member %s defined twice' % member)
                found = pytrans.const_int(st.value)
        if found is None or found < 0:
            raise U(node, 'UserDataFormat has no member %s' % member)
        return found

    def new_exec(self):
        ex = PyExec(self, self.counter)
        ex.env['self'] = V('self')
        for k, v in self.fields.items():
            ex.env[('self', k)] = v
        return ex

    def init_fields(self):
        fn = self.methods.get('__init__')
        if fn is None:
            raise Untranslatable('ParseUserData has no __init__')
        a = fn.args
        if a.defaults or len(a.args) != 6 or a.args[0].arg != 'self' or len({x.arg for x in a.args}) != 6:
            raise U(fn, '__init__ must take (self, creator, component, sub-type, version, data)')
        ex = PyExec(self, self.counter)
        ex.env['self'] = V('self')
        for x, (ty, term) in zip(a.args[1:], PUD_PARAMS):
            if x.arg in self.mod.names:
                raise U(fn, 'parameter name %s is also a module-level name' % x.arg)
            ex.env[x.arg] = V(ty, term)
        self.in_init = True
        try:
            if ex.exec_block(fn.body) is not None or ex.binds:
                raise U(fn, 'return or call in __init__')
        finally:
            self.in_init = False
        return {k[1]: v for k, v in ex.env.items() if isinstance(k, tuple)}

    def catch_pred(self, h):
        d = pytrans.dotted(h.type) if h.type is not None else None
        if d in self.mod.names or d is None:
            raise U(h, 'except clause %s' % d)
        if d == 'ImportError':
            return 'PyExc.isImportError'
        if d == 'Exception':
            return 'PyExc.isException'
        raise U(h, 'except %s' % d)

    # ---- a method: -> (term : PyM <type>, 'pystr' | 'optpystr')
    def method(self, name):
        if name in self.cache:
            return self.cache[name]
        if name in self.stack:
            raise Untranslatable('recursive method %s' % name)
        fn = self.methods.get(name)
        if fn is None or name == '__init__':
            raise Untranslatable('no method %s' % name)
        a = fn.args
        if a.defaults or len(a.args) != 1 or a.args[0].arg != 'self':
            raise U(fn, 'argument list of %s' % name)
        self.stack.append(name)
        try:
            r = self.function(fn, self.new_exec())
        finally:
            self.stack.pop()
        self.cache[name] = r
        return r

    def parse(self):
        fn = self.methods.get('parse')
        if fn is None:
            raise Untranslatable('no method parse')
        a = fn.args
        if a.defaults or len(a.args) != 2 or a.args[0].arg != 'self' or a.args[1].arg in self.mod.names or a.args[1].arg == 'self':
            raise U(fn, 'argument list of parse')
        ex = self.new_exec()
        ex.env[a.args[1].arg] = V('config')
        return self.function(fn, ex)

    def function(self, fn, ex):
        for n in assigned_names(fn.body):
            if n == 'self' or (n in ex.env and ex.env[n].ty == 'config'):
                raise U(fn, '%s is assigned' % n)
        sites = []
        term = self.run(ex, pytrans.strip_docstring(fn.body), sites, flow=False)
        opt = any(ty in ('none', 'optpystr') for ty, _ in sites)
        for i, (ty, t) in enumerate(sites):
            if ty not in ('pystr', 'text', 'none', 'optpystr'):
                raise U(fn, 'the method returns a %s' % ty)
            if opt:
                val = {'pystr': '(some %s)' % t, 'text': '(some (PyStr.raw %s))' % t, 'none': '(none : Option PyStr)', 'optpystr': t}[ty]
            else:
                val = {'pystr': t, 'text': '(PyStr.raw %s)' % t}[ty]
            term = term.replace('⟪%d⟫' % i, val)
        return term, 'optpystr' if opt else 'pystr'

    def site(self, sites, v):
        sites.append((v.ty, v.term))
        return '⟪%d⟫' % (len(sites) - 1)

    def render(self, ex, tail):
        lines = []
        for x, r, ty in ex.binds:
            lines.append('let %s ← %s' % ('_' if ty == 'unit' else x, r))
        lines.append(tail)
        if len(lines) == 1:
            return tail
        return 'do\n' + '\n'.join(ind(l) for l in lines)

    def none_test(self, ex, test):
        """`X is None` / `X == None` / `None == X` / `X is not None` / `X != None`  ->  (name, value, true-if-None?) or None"""
        if isinstance(test, ast.Compare) and len(test.ops) == 1 and isinstance(test.ops[0], (ast.Is, ast.IsNot, ast.Eq, ast.NotEq)):
            l, r = test.left, test.comparators[0]
            isn = lambda n: isinstance(n, ast.Constant) and n.value is None
            if isn(r) and isinstance(l, ast.Name):
                x = l
            elif isn(l) and isinstance(r, ast.Name):
                x = r
            else:
                return None
            v = ex.lookup(x)
            if v is None:
                raise U(test, 'comparison of %s with None' % x.id)
            return x.id, v, isinstance(test.ops[0], (ast.Is, ast.Eq))
        return None

    def run(self, ex, stmts, sites, flow):
        """CPS: the term (PyM R; in `flow` mode PyM (Flow R)) of a statement list; `ex` carries the environment and the binds so far"""
        RET = (lambda x: 'pure (Flow.ret %s)' % x) if flow else (lambda x: 'pure %s' % x)
        for i, st in enumerate(stmts):
            rest = stmts[i + 1:]
            if isinstance(st, ast.Return):
                v = ex.eval(st.value) if st.value is not None else V('none', 'none')
                return self.render(ex, RET(self.site(sites, v)))
            if isinstance(st, ast.If):
                nt = self.none_test(ex, st.test)
                if nt is not None:
                    name, v, when_none = nt
                    nb, sb = (st.body, st.orelse) if when_none else (st.orelse, st.body)
                    nb, sb = pytrans.strip_docstring(nb), pytrans.strip_docstring(sb)
                    if v.ty in ('pystr', 'text', 'mod'):          # never None
                        return self.run(ex, sb + rest, sites, flow)
                    if v.ty == 'none':
                        return self.run(ex, nb + rest, sites, flow)
                    if v.ty not in ('optmod', 'optpystr'):
                        raise U(st, 'comparison of a %s with None' % v.ty)
                    e1, e2 = ex.fork(), ex.fork()
                    e1.env[name] = V('none', 'none')
                    m = ex.fresh('m')
                    e2.env[name] = V('mod' if v.ty == 'optmod' else 'pystr', m)
                    t1 = self.run(e1, nb + rest, sites, flow)
                    t2 = self.run(e2, sb + rest, sites, flow)
                    return self.render(ex, 'match %s with\n| none => (%s)\n| some %s => (%s)' % (v.term, t1.replace('\n', '\n  '), m, t2.replace('\n', '\n  ')))
                if contains([st], (ast.Return,)):
                    c = ex.cond(st.test, 'prop')
                    t1 = self.run(ex.fork(), pytrans.strip_docstring(st.body) + rest, sites, flow)
                    t2 = self.run(ex.fork(), pytrans.strip_docstring(st.orelse) + rest, sites, flow)
                    return self.render(ex, 'if %s then (%s)\nelse (%s)' % (c, t1.replace('\n', '\n  '), t2.replace('\n', '\n  ')))
            if isinstance(st, ast.Try) and contains([st], (ast.Return,)):
                if st.orelse or st.finalbody or len(st.handlers) != 1:
                    raise U(st, 'try statement shape')
                h = st.handlers[0]
                catches = self.catch_pred(h)
                used = {n.id for s_ in rest for n in ast.walk(s_) if isinstance(n, ast.Name)}
                leak = (assigned_names(st.body) | assigned_names(h.body) | ({h.name} if h.name else set())) & used
                if leak:
                    raise U(st, 'variables assigned inside try are used after it: %s' % sorted(leak))
                tb = self.run(ex.fork(), pytrans.strip_docstring(st.body), sites, True)
                eh = ex.fork()
                e = ex.fresh('e')
                if h.name is not None:
                    if h.name in self.mod.names:
                        raise U(h, 'exception variable')
                    eh.env[h.name] = V('exc', e)
                th = self.run(eh, pytrans.strip_docstring(h.body), sites, True)
                r = ex.fresh('r')
                e2 = ex.fork()
                for k in assigned_names(st.body) | assigned_names(h.body):
                    e2.env[k] = V('undef')
                tr = self.run(e2, rest, sites, flow)
                f = ex.fresh('f')
                ex.binds.append((f, 'pyTry (%s) %s (fun %s => (%s))' % (tb.replace('\n', '\n  '), catches, e, th.replace('\n', '\n  ')), 'flow'))
                return self.render(ex, 'match %s with\n| Flow.ret %s => %s\n| Flow.next => (%s)' % (
                    f, r, ('pure (Flow.ret %s)' % r) if flow else ('pure %s' % r), tr.replace('\n', '\n  ')))
            if ex.exec_stmt(st) is not None:
                raise U(st, 'return')
        if flow:
            return self.render(ex, 'pure Flow.next')
        return self.render(ex, 'pure %s' % self.site(sites, V('none', 'none')))


def pud_term(repo, which):
    p = Pud(repo)
    if which == 'cache':
        return p.cache_init()
    if which == 'parse':
        term, ty = p.parse()
        want, params = 'pystr', 'T env allow creator comp sub ver data'
    else:
        term, ty = p.method(which)
        want, params = {'getBuiltinFormatJSON': ('pystr', 'creator comp sub ver data'), 'parseCustom': ('optpystr', 'env creator comp sub ver data')}[which]
    if ty != want:
        raise Untranslatable('%s returns %s, expected %s' % (which, 'a str or None' if ty == 'optpystr' else 'always a str', want))
    return 'fun %s =>\n%s' % (params, ind(term))


UD_TARGETS = [
    ('decodeUD', 'Tables → UdEnv → Bool → SecHdr → Text → Rd J', lambda repo: translate_ud(repo, 'user_data.py', 'UserData', True)),
    ('decodeED', 'Tables → UdEnv → Bool → SecHdr → Rd J', lambda repo: translate_ud(repo, 'ext_user_data.py', 'ExtUserData', False)),
    ('udCacheInit', 'Cache UdPlugin', lambda repo: pud_term(repo, 'cache')),
    ('udBuiltin', 'Text → Nat → Nat → Nat → Bytes → PyM PyStr', lambda repo: pud_term(repo, 'getBuiltinFormatJSON')),
    ('udParseCustom', 'UdEnv → Text → Nat → Nat → Nat → Bytes → PyM (Option PyStr)', lambda repo: pud_term(repo, 'parseCustom')),
    ('udParse', 'Tables → UdEnv → Bool → Text → Nat → Nat → Nat → Bytes → PyM PyStr', lambda repo: pud_term(repo, 'parse')),
]

TARGETS = DS_TARGETS + UD_TARGETS


def generate(repo, verif):
    gen = pytrans.GenFile(verif, 'GenUserData', ['PelModel.TransUserData'],
                          'modules/pel/datastream.py, modules/pel/peltool: user_data, ext_user_data, parse_user_data')
    for name, ty, fn in TARGETS:
        gen.emit(name, ty, (lambda fn=fn: fn(repo)))
    return gen


if __name__ == '__main__':
    import sys
    g = generate(os.environ.get('VERIF_REPO', '/repo'), os.path.dirname(os.path.dirname(os.path.abspath(__file__))))
    sys.stdout.write(g.render())
