"""C19 — decoding a PEL gives the same result whatever was decoded before it."""
import json
import struct
import os
import shutil
import subprocess
import sys
import tempfile

import apel
import cachewatch
import clirun
import common
import jsonio
from c01 import compare
from common import Check, lean_batch, tb

TRUSTED = ['Lean 4.33.0 kernel (+ leanchecker in the thorough tier)',
           'axioms: propext, Classical.choice, Quot.sound only (audited per theorem)',
           'harness/c19.py + apel.py + cachewatch.py (history generator, fresh-interpreter oracle, recording table objects and import shim, '
           're-import oracle), Drv.lean protocol parsing',
           'compiled driver peldrv agrees with the kernel reading of the same definitions']
ASSUME = ['importlib / sys.modules are modelled as a deterministic environment (a module either imports, or fails in the same way every time); the '
          'four module tables and the component-id table + flag are the only cross-decode state in the model -- state that a change might ADD is '
          'caught only by the history runs, not by the theorems',
          'the update rules of that state ARE in the model (udLookup, srcLookup, calloutLookup, osrcLookup, compIdLookup) and are compared with '
          'the real dictionaries after every step; the configuration directory of the model holds the files that can be read; a damaged file is skipped by the (repaired, D13) loader and '
          'is exercised by a direct oracle (check_damaged_conf: the same PEL decoded three times in one process)',
          'the fresh-interpreter oracle is sampled (one subprocess per sampled step)']
RULE = ('cases = histories of 2..30 decodes in ONE process mixing well-formed, damaged, filtered PELs, all creators / components, fixture parser '
        'modules of every behaviour (echo, raise, raise ImportError, return None, a callout module that raises for one procedure; modules of all four '
        'kinds that exist but fail while being imported: RuntimeError, ImportError, ModuleNotFoundError), scripted histories (the same module before '
        'and after a failing call, failing imports retried, the hostboot parser reached directly and through the BMC wrapper in both orders, creators '
        'with and without a component-id file in both orders), plugins '
        'toggled between steps, a message registry whose messages are filled from the hex words (every history has two PELs with the same reason '
        'code and different words, and an entry that rejects the PEL); every step is compared with the stateless model, a sample with a fresh interpreter; after '
        'every step the real dictionaries (userDataParsers, srcParsers, calloutParsers, osrcParsers, componentIDs + flag) are compared with the '
        'model of the update rules folded over the ordered look-ups the code performed since the process started, and every entry is re-imported; '
        'the component-id loader on generated configuration directories; plus -a vs per-file -f and -a vs -a -r; non-trivial = a step preceded by '
        'a failing or plugin-raising decode; distinct by (history prefix, bytes)')
UD_FIX = {'x5a5a': ('raises', ''), 'x1111': ('echo',), 'x2222': ('raises', 'boom'), 'x3333': ('none',), 'x7777': ('raises_import', 'No module named frobnicate'), 'x8888': ('import_raises', 'load failure'), 'o1234': ('echo',),
          'x9999': ('import_error', 'cannot import name frobnicate'), 'x6666': ('import_mnf',)}
# SRC parsers by creator (x: fine, w: the call raises, y / v / u: the import fails) and the component parsers behind the BMC wrapper
# (8D fine, AB: the call raises ImportError, 7A / 78 / 66: the import fails, anything else: not there; BD..77.. is rejected by the registry); the hostboot parser `bsrc` is
# reached by SRC.parse (creator B) and by the wrapper (creator O, BC codes): two tables with different rules for the same module
SRC_FIX = {'xsrc': ('echo',), 'wsrc': ('raises',), 'ysrc': ('import_raises', 'no data file'), 'vsrc': ('import_error', 'cannot import name q'), 'usrc': ('import_mnf',),
           'o8d00': ('echo',), 'oab00': ('raises_import',), 'o7a00': ('import_raises', 'no data file'), 'o7800': ('import_error', 'cannot import name q'),
           'o6600': ('import_mnf',), 'bsrc': ('import_raises', 'no hostboot data')}
CO_FIX = {'x': ('table_raise', {'PROC0001': ['line one'], 'PROC0002': ['second']}, 'PROCBAD!'), 'w': ('raises',), 'y': ('import_raises', 'no table'),
          'v': ('import_error', 'cannot import name t'), 'u': ('import_mnf',)}
CREATORS = 'xxxxOOOBMHwyvu'
COMPONENTS = [b'8D', b'8D', b'AB', b'77', b'7A', b'7A', b'78', b'66', b'99']
# message registry: the message of an SRC is built from that SRC's own hex words (two PELs with the same reason code and
# different words must not see each other's words); the third entry has too few argument sources and rejects the PEL
REG_FIX = [{'SRC': {'ReasonCode': '0x8D34', 'Words6To9': {'6': {'Description': 'first word', 'AdditionalDataPropSource': 'W6'}}},
            'Documentation': {'Message': 'code %1 and %2', 'MessageArgSources': ['SRCWord6', 'SRCWord9']}},
           {'SRC': {'ReasonCode': '0xAB34', 'Type': 'BC'}, 'Documentation': {'Message': 'hostboot %1', 'MessageArgSources': ['SRCWord7']}},
           {'SRC': {'ReasonCode': '0x7734', 'Type': 'BD'}, 'Documentation': {'Message': 'too few %1 %2', 'MessageArgSources': ['SRCWord8']}}]

# component-id names exist for creators O and B only (files read by the repository's own loader); histories mix creators with and
# without a names file, in every order
COMP_IDS = {'O': {'2000': 'bmc error logging', '1234': 'twelve-thirtyfour', '1111': 'ones'}, 'B': {'2000': 'hb', '2222': 'twos'}}

FRESH = r'''
import sys, json
sys.path.insert(0, %(harness)r)
import apel
env = apel.PluginEnv(allow=True, ud=%(ud)r, src=%(src)r, callout=%(co)r, registry=%(reg)r, comp_ids=%(cids)r).install()
try:
    r = apel.real_decode(bytes.fromhex(sys.stdin.read().strip()), allow_plugins=bool(int(sys.argv[1])))
    print(json.dumps(r[:3]))
finally:
    env.uninstall()
'''


def gen_step(rng):
    p = apel.gen_pel(rng, max_sections=0)
    p['ph']['creator'] = ord(rng.choice(CREATORS))
    secs = []
    for _ in range(rng.choice([1, 2, 3])):
        k = rng.choice(['ud', 'ud', 'ed', 'src'])
        if k == 'src':
            sec = {'kind': 'src', 'hdr': apel.gen_hdr(rng), 'primary': True, 'src': apel.gen_src(rng)}
            sec['src']['ascii'] = (rng.choice([b'BD', b'BD', b'BC']) + b'12' + rng.choice(COMPONENTS) + b'34').ljust(32, b' ')
            if sec['src']['callouts']:
                for c in sec['src']['callouts']['callouts']:
                    if c['fru']['flags'] & 0x0A:
                        c['fru']['pn'] = rng.choice([b'PROC0001', b'PROC0002', b'PROCBAD!', b'PROCBAD!', b'BMC0001\0'])
        else:
            sec = {'kind': k, 'hdr': apel.gen_hdr(rng), 'payload': apel.gen_payload(rng)[:200]}
            sec['hdr']['comp'] = rng.choice([0x1111, 0x2222, 0x3333, 0x7777, 0x7777, 0x8888, 0x8888, 0x9999, 0x6666, 0x1234, 0x2000, 0x4444, 0x5A5A])
            if k == 'ed':
                sec.update(creator=ord(rng.choice('xxO')), resv1=0, resv2=0)
        secs.append(sec)
    # every other section kind as well (Extended User Header, Failing MTMS, Impacted Partition with targets, secondary SRCs with
    # callouts / MRUs, unknown ids): decoder objects of one PEL must not carry anything over to the next
    for _ in range(rng.choice([0, 1, 2, 4])):
        secs.insert(rng.randrange(len(secs) + 1), apel.gen_section(rng))
    p['sections'] = secs
    apel.fix_real_plugins(p)
    data = apel.enc_pel(p)
    kind = rng.random()
    if kind < 0.2:
        data = data[:rng.randrange(1, len(data))]
    elif kind < 0.3:
        o = rng.randrange(len(data))
        data = data[:o] + bytes([data[o] ^ 0x55]) + data[o + 1:]
    cfg = {'every': 1} if rng.random() < 0.8 else {}
    return data, cfg, rng.random() < 0.85


def reg_pair(rng):
    """two well-formed PELs whose SRCs have the same reason code (a registry entry with MessageArgSources) and different hex words"""
    out = []
    ascii_ = rng.choice([b'BD128D34', b'BC12AB34']).ljust(32, b' ')
    for _ in range(2):
        p = apel.gen_pel(rng, max_sections=0)
        p['ph']['creator'] = ord(rng.choice('xOB'))
        x = apel.gen_src(rng)
        x['ascii'] = ascii_
        x['words'] = [rng.randrange(2 ** 32) for _ in range(8)]
        p['sections'] = [{'kind': 'src', 'hdr': apel.gen_hdr(rng), 'primary': True, 'src': x}]
        apel.fix_real_plugins(p)
        out.append((apel.enc_pel(p), {'every': 1}, rng.random() < 0.85))
    return out


# ---- scripted histories: the patterns the update rules are about, in a fixed order

def mk_pel(rng, creator, secs):
    p = apel.gen_pel(rng, max_sections=0)
    p['ph']['creator'] = ord(creator)
    p['sections'] = secs
    apel.fix_real_plugins(p)
    return apel.enc_pel(p)


def ud_sec(rng, comp, payload=b'payload'):
    h = apel.gen_hdr(rng)
    h['comp'] = comp
    return {'kind': 'ud', 'hdr': h, 'payload': payload}


def ed_sec(rng, creator, comp, payload=b'payload'):
    h = apel.gen_hdr(rng)
    h['comp'] = comp
    return {'kind': 'ed', 'hdr': h, 'payload': payload, 'creator': ord(creator), 'resv1': 0, 'resv2': 0}


def src_sec(rng, refcode, procs=()):
    x = apel.gen_src(rng)
    x['ascii'] = refcode.ljust(32, b' ')
    x['wordCount'] = 9
    x['callouts'] = None
    if procs:
        x['callouts'] = {'subId': 0xC0, 'subFlags': 0, 'callouts': [
            {'flags': 0, 'priority': 0x48, 'loc': b'', 'fru': {'flags': 0x12, 'pn': pn, 'ccin': b'', 'sn': b''}, 'pce': None, 'mru': None} for pn in procs]}
    return {'kind': 'src', 'hdr': apel.gen_hdr(rng), 'primary': True, 'src': x}


def scripted(rng):
    """[(name, steps)]; a step = (bytes, cfg, plugins allowed)"""
    E = {'every': 1}

    def st(creator, *secs, allow=True):
        return (mk_pel(rng, creator, list(secs)), E, allow)
    out = []
    # the same module before and after a failing CALL: user data (Exception, ImportError), SRC, callouts (one procedure, every procedure)
    out.append(('failing calls', [
        st('x', ud_sec(rng, 0x2222)), st('x', ud_sec(rng, 0x2222)), st('x', ud_sec(rng, 0x7777)), st('x', ud_sec(rng, 0x7777), ud_sec(rng, 0x1111)),
        st('x', ud_sec(rng, 0x3333)), st('x', ud_sec(rng, 0x7777), allow=False), st('x', ud_sec(rng, 0x7777)),
        st('w', src_sec(rng, b'BD128D34')), st('w', src_sec(rng, b'BD128D34')), st('x', src_sec(rng, b'BD128D34')),
        st('O', src_sec(rng, b'BD12AB34')), st('O', src_sec(rng, b'BD12AB34')), st('O', src_sec(rng, b'BD128D34')),
        st('x', src_sec(rng, b'BD129934', [b'PROC0001', b'PROCBAD!', b'PROC0002'])), st('x', src_sec(rng, b'BD129934', [b'PROCBAD!'])),
        st('x', src_sec(rng, b'BD129934', [b'PROC0001'])), st('w', src_sec(rng, b'BD129934', [b'PROC0001'])), st('w', src_sec(rng, b'BD129934', [b'PROC0002'])),
        st('O', src_sec(rng, b'BD129934', [b'BMC0001\0'])), st('O', src_sec(rng, b'BD129934', [b'BMC0001\0']))]))
    # failing IMPORTS retried: every kind of failure at every site; modules that are not there
    out.append(('failing imports', [
        st('x', ud_sec(rng, 0x8888)), st('x', ud_sec(rng, 0x8888), ud_sec(rng, 0x8888)), st('x', ud_sec(rng, 0x9999)), st('x', ud_sec(rng, 0x9999)),
        st('x', ud_sec(rng, 0x6666)), st('x', ud_sec(rng, 0x6666)), st('x', ud_sec(rng, 0x4444)), st('x', ud_sec(rng, 0x4444), ud_sec(rng, 0x8888)),
        st('M', ed_sec(rng, 'x', 0x8888), ed_sec(rng, 'O', 0x1234), ed_sec(rng, 'x', 0x8888)),
        st('y', src_sec(rng, b'BD128D34', [b'PROC0001'])), st('y', src_sec(rng, b'BD128D34', [b'PROC0001'])),
        st('v', src_sec(rng, b'BD128D34', [b'PROC0001'])), st('v', src_sec(rng, b'BD128D34', [b'PROC0001'])),
        st('u', src_sec(rng, b'BD128D34', [b'PROC0001'])), st('u', src_sec(rng, b'BD128D34', [b'PROC0001'])),
        st('q', src_sec(rng, b'BD128D34', [b'PROC0001'])), st('q', src_sec(rng, b'BD128D34', [b'PROC0001'])),
        st('O', src_sec(rng, b'BD127A34')), st('O', src_sec(rng, b'BD127A34')), st('O', src_sec(rng, b'BD127834')), st('O', src_sec(rng, b'BD127834')),
        st('O', src_sec(rng, b'BD126634')), st('O', src_sec(rng, b'BD126634')), st('O', src_sec(rng, b'BD129934')), st('O', src_sec(rng, b'BD129934')),
        st('O', src_sec(rng, b'BD128D34')), st('O', src_sec(rng, b'BD127A34'))]))
    # the hostboot parser (its import fails): directly and through the BMC wrapper, in both orders
    out.append(('bsrc, wrapper first', [st('O', src_sec(rng, b'BC12AB34')), st('B', src_sec(rng, b'BC12AB34')), st('O', src_sec(rng, b'BC12AB34')),
                                        st('B', src_sec(rng, b'BC12AB34'))]))
    out.append(('bsrc, direct first', [st('B', src_sec(rng, b'BC12AB34')), st('O', src_sec(rng, b'BC12AB34')), st('B', src_sec(rng, b'BC12AB34')),
                                       st('O', src_sec(rng, b'BC12AB34'))]))
    # creators with and without a component-id file, in both orders (H = PHYP: the table is not consulted)
    out.append(('component ids, without first', [st('x', ud_sec(rng, 0x1111)), st('H', ud_sec(rng, 0x4142)), st('O', ud_sec(rng, 0x1234)), st('B', ud_sec(rng, 0x2222)),
                                                 st('x', ud_sec(rng, 0x1111)), st('O', ud_sec(rng, 0x1111))]))
    # built-in text / JSON user data that ends in the middle of a multi-byte character, followed by ordinary text: nothing of one log's bytes may be
    # held back for the next
    def builtin(sub_, payload):
        s_ = ud_sec(rng, 0x2000, payload)
        s_['hdr']['sub'] = sub_
        return s_
    out.append(('text cut inside a character', [st('O', builtin(3, b'first line\nsecond \xe2\x82')), st('O', builtin(3, b'plain text')), st('O', builtin(1, b'{"k": "v\xf0\x9f\x98"}')),
                                                st('O', builtin(1, b'{"a": 1}')), st('O', builtin(3, b'\xac euro')), st('O', builtin(3, b'plain text'))]))
    out.append(('component ids, with first', [st('O', ud_sec(rng, 0x1234)), st('x', ud_sec(rng, 0x1111)), st('B', ud_sec(rng, 0x2222)), st('H', ud_sec(rng, 0x4142)),
                                              st('O', ud_sec(rng, 0x1111)), st('x', ud_sec(rng, 0x1111))]))
    return out


def conf_dir_listing():
    """the configuration directory as the code finds it: [(file name, the JSON object of a component-id file)] in os.listdir order, or None"""
    from pel.peltool import comp_id
    root = comp_id.pelConfigRootPath
    if not os.path.exists(root):
        return None
    out = []
    for name in os.listdir(root):
        table = {}
        if '_component_ids.json' in name:
            with open(os.path.join(root, name)) as f:
                table = json.load(f)
        out.append((name, table))
    return out


def note_patterns(ck, events, seen):
    """which of the situations the rules are about did this step contain (seen: (site, key) -> what the table held when last asked)"""
    pend = None
    for e in events:
        if e[0] == 'lookup' and e[1] != 'compid':
            key = (e[1], e[2])
            if e[3]:
                ck.count('look-ups answered from a table (%s)' % e[1])
            elif key in seen:
                ck.count('failing imports retried, nothing had been stored (%s)' % e[1])
            seen[key] = e[3]
        elif e[0] == 'lookup':
            ck.count('componentIDs asked: %s' % ('filled' if e[3] else 'empty'))


# ---- the component-id loader on generated configuration directories

CONF_NAMES = ['O_component_ids.json', 'B_component_ids.json', 'x_component_ids.json', 'O_component_ids.json.bak', 'O_component_ids.json.orig',
              'x_component_ids.json_component_ids.json', '_component_ids.json', 'component_ids.json', 'Q_component_ids.jsonl', 'message_registry.json',
              'README', 'OO_component_ids.json', 'B_component_ids.JSON', 'O_component_ids.jso']


def check_damaged_conf(ck, rng, n):
    """a configuration directory in which some component-id file cannot be read (truncated, not JSON, not UTF-8, a directory of that
    name): whatever the loader makes of it, the SAME PEL decoded first, second and third in one process must give the same result"""
    import pelbuild
    from pel.peltool import comp_id
    tmp = tempfile.mkdtemp(prefix='c19bad_')
    old_root = comp_id.pelConfigRootPath
    try:
        for k in range(n):
            root = os.path.join(tmp, 'd%d' % k)
            os.makedirs(root)
            good = {'O': {'2000': 'bmc error logging', '1234': 'twelve'}, 'B': {'2000': 'hb'}, 'H': {'4142': 'phyp?'}}
            names = ['O', 'B', 'H']
            rng.shuffle(names)
            bad = names[0]
            how = rng.choice(['truncated', 'not-json', 'not-utf8', 'empty', 'directory', 'json-list', 'json-number', 'json-string', 'json-null'])
            for c in names:
                path = os.path.join(root, c + '_component_ids.json')
                if c != bad:
                    json.dump(good[c], open(path, 'w'))
                elif how == 'directory':
                    os.makedirs(path)
                else:
                    open(path, 'wb').write({'truncated': b'{"2000": ', 'not-json': b'2000 = bmc', 'not-utf8': b'{"2000": "\xff\xfe"}', 'empty': b'',
                                           'json-list': b'["2000", "x"]', 'json-number': b'2000', 'json-string': b'"2000"', 'json-null': b'null'}[how])
            creator = rng.choice([c for c in 'OBH' if c != bad] + ['O', bad])
            pel = pelbuild.pel([pelbuild.UH(comp=0x2000), pelbuild.SRC(comp=0x1234)], creator=creator.encode(), eid=0x50000200 + k, comp=0x2000)
            comp_id.pelConfigRootPath = root
            apel.reset_comp_ids()
            outs = []
            for i in range(3):
                r = apel.real_decode(pel)
                outs.append(list(r[:3]) if r[0] != 'doc' else ['doc', r[1], r[4]])
            ck.case(key=('damaged-conf', how, bad, creator, tuple(os.listdir(root))), sample={'damaged_component_id_file': bad, 'how': how, 'creator': creator, 'outcomes': [o[0] for o in outs]} if k < 2 else None)
            ck.count('damaged configuration file (%s): first decode %s' % (how, outs[0][0]))
            if not (outs[0] == outs[1] == outs[2]):
                ck.fail('the result of a decode depends on what was decoded before it',
                        {'op': 'history-conf', 'data_hex': pel.hex(), 'configuration_directory': sorted(os.listdir(root)), 'damaged_file': bad + '_component_ids.json',
                         'how': how, 'listdir_order': os.listdir(root), 'first': str(outs[0])[:200], 'second': str(outs[1])[:200], 'third': str(outs[2])[:200]}, 'history_dependence_conf')
    finally:
        comp_id.pelConfigRootPath = old_root
        apel.reset_comp_ids()
        shutil.rmtree(tmp, ignore_errors=True)


def check_loader(ck, rng, n):
    from pel.peltool import comp_id
    watch = cachewatch.Watch().install()
    if not watch.available:     # reported once by the history part
        return
    tmp = tempfile.mkdtemp(prefix='c19conf_')
    try:
        for k in range(n):
            root = os.path.join(tmp, 'd%d' % k)
            kind = rng.choice(['files', 'files', 'files', 'empty', 'missing'])
            if kind != 'missing':
                os.makedirs(root)
            if kind == 'files':
                for name in rng.sample(CONF_NAMES, rng.randrange(1, 8)):
                    with open(os.path.join(root, name), 'w') as f:
                        json.dump({'%04X' % rng.choice([0x2000, 0x1234, 0x1111, rng.randrange(65536)]): 'n%d' % rng.randrange(1000) for _ in range(rng.randrange(0, 4))}, f)
            comp_id.pelConfigRootPath = root
            apel.reset_comp_ids()
            watch.rewatch_comp_ids()
            watch.take()
            conf = conf_dir_listing()
            env_tok = cachewatch.env_tokens({}, {}, {}, conf)
            lookups = []
            calls = [(rng.choice([0x2000, 0x1234, 0x4142, 0]), rng.choice('OBxHQ')) for _ in range(rng.choice([1, 2, 3]))]
            reqs, reals = [], []
            import io
            from contextlib import redirect_stderr
            for comp, creator in calls:
                with redirect_stderr(io.StringIO()):
                    comp_id.getDisplayCompID(comp, creator)
                lookups += cachewatch.lookups_of(watch.take())
                reqs.append(cachewatch.request(env_tok, lookups))
                reals.append(watch.tables())
            for (comp, creator), real, rep in zip(calls, reals, lean_batch(reqs)):
                model = cachewatch.parse_tables(rep)
                ck.case(key=('conf', kind, tuple(sorted((a, tuple(sorted(b.items()))) for a, b in (conf or []))), creator))
                ck.count('component-id loader: directory %s' % kind)
                d = cachewatch.diff_tables(real, model)
                if d:
                    ck.disagree('the component-id table differs from the model of the loader', {'op': 'conf-dir', 'files': conf, 'calls': calls, 'differences': d})
    finally:
        watch.uninstall()
        shutil.rmtree(tmp, ignore_errors=True)


def run(tier, seed):
    ck = Check('C19', tier, seed)
    ck.proof = common.build_and_audit('C19', thorough=(tier == 'thorough'))
    if not ck.proof['driver_ok']:
        return ck.finish(RULE, TRUSTED, ASSUME)
    rng = ck.rng
    thorough = tier == 'thorough'
    fresh_src = FRESH % {'harness': os.path.dirname(os.path.abspath(__file__)), 'ud': UD_FIX, 'src': SRC_FIX, 'co': CO_FIX, 'reg': REG_FIX, 'cids': COMP_IDS}
    tmp = tempfile.mkdtemp(prefix='c19_')
    fresh_py = os.path.join(tmp, 'fresh.py')
    open(fresh_py, 'w').write(fresh_src)
    env_on = apel.PluginEnv(allow=True, ud=UD_FIX, src=SRC_FIX, callout=CO_FIX, registry=REG_FIX, comp_ids=COMP_IDS)
    env_off = apel.PluginEnv(allow=False, ud=UD_FIX, src=SRC_FIX, callout=CO_FIX, registry=REG_FIX, comp_ids=COMP_IDS)
    try:
        histories = [(name, steps) for name, steps in scripted(rng)]
        for hnum in range(30 if thorough else 8):
            steps = [gen_step(rng) for _ in range(rng.choice([2, 5, 12, 30]))]
            for st in reg_pair(rng):   # same reason code, different hex words, somewhere in the history
                steps.insert(rng.randrange(len(steps) + 1), st)
            if rng.random() < 0.5:   # repeat an earlier input later in the history
                steps.append(steps[0])
                steps.insert(rng.randrange(len(steps)), steps[-2])
            histories.append(('generated', steps))
        for hnum, (hname, steps) in enumerate(histories):
            ck.count('histories: ' + hname)
            # the model is stateless: one request per step, grouped by plugin setting
            replies = {}
            for allow, e in ((True, env_on), (False, env_off)):
                idx = [i for i, s in enumerate(steps) if s[2] == allow]
                rep = lean_batch([e.tokens()] + ['pelraw %s %s' % (apel.tok_cfg(steps[i][1]), tb(steps[i][0])) for i in idx])[1:]
                replies.update(dict(zip(idx, rep)))
            env_on.install()          # ONE process, caches are NOT reset between the steps
            watch = cachewatch.Watch().install()
            if not watch.available and hnum == 0:
                ck.disagree('the process-wide state that the model describes (four module tables, component-id table and its flag) is not '
                            'there in the code: the state model cannot be compared (the histories are still compared with a fresh interpreter)',
                            {'op': 'state', 'missing': watch.why})
            try:
                bad_before = False
                # the model of the update rules: import system + configuration directory as this process finds them, and the look-ups so far
                caches_env = cachewatch.env_tokens(UD_FIX, SRC_FIX, CO_FIX, conf_dir_listing())
                lookups, table_reqs, table_real, verified, seen = [], [], [], set(), {}
                for i, (data, cfg, allow) in enumerate(steps):
                    watch.take()
                    real = apel.real_decode(data, cfg, allow_plugins=allow)
                    events = watch.take()
                    model = apel.dec_outcome(replies[i])
                    ck.case(key=(hnum, i, data) if bad_before else None, sample={'history': hnum, 'step': i, 'outcome': real[0], 'plugins': allow} if i < 2 else None)
                    ck.count('step outcome %s' % real[0])
                    if real[0] == 'doc' and '"Error Details"' in real[4]:
                        ck.count('steps showing a registry message built from the hex words')
                    rp = {'op': 'history', 'history': [(d.hex(), c, a) for d, c, a in steps[:i + 1]], 'step': i}
                    if model[0] != 'unsupported':
                        same = model[0] == real[0] and (model[0] != 'doc' or (model[1], model[2]) == (real[1], real[2]))
                        if not same:
                            # is it history dependence?  ask a fresh interpreter
                            fr = fresh(fresh_py, data, allow) if cfg.get('every') else None
                            if fr is not None and fr != json.loads(json.dumps(real[:3])):
                                ck.fail('the result of a decode depends on what was decoded before it', rp | {'in_history': str(real[:3])[:300], 'fresh': str(fr)[:300]}, 'history_dependence')
                            else:
                                ck.disagree('step differs from the stateless model', rp | {'impl': str(real[:3])[:300], 'model': str(model)[:300]})
                    elif rng.random() < 0.3:
                        fr = fresh(fresh_py, data, allow) if cfg.get('every') else None
                        if fr is not None and fr != json.loads(json.dumps(real[:3])):
                            ck.fail('the result of a decode depends on what was decoded before it', rp | {'in_history': str(real[:3])[:300], 'fresh': str(fr)[:300]}, 'history_dependence')
                    if rng.random() < (0.15 if thorough else 0.05) and cfg.get('every'):
                        fr = fresh(fresh_py, data, allow)
                        ck.count('fresh-interpreter comparisons')
                        if fr != json.loads(json.dumps(real[:3])):
                            ck.fail('the result of a decode depends on what was decoded before it', rp | {'in_history': str(real[:3])[:300], 'fresh': str(fr)[:300]}, 'history_dependence')
                    # the tables after this step: (1) the record is sane, (2) direct oracle: every entry is what importing its module
                    # gives, (3) the real dictionaries against the model's rules for the same ordered look-ups (asked in one batch below)
                    bad = cachewatch.record_problems(events)
                    if bad:
                        ck.disagree('a module was imported without its table being asked first, or a missing key was not imported', rp | {'record': bad[:5]})
                    note_patterns(ck, events, seen)
                    lookups = lookups + cachewatch.lookups_of(events)
                    if watch.available:
                        table_reqs.append(cachewatch.request(caches_env, lookups))
                        table_real.append(watch.tables())
                    bad = cachewatch.entries_not_import_results(watch, verified)
                    if bad:
                        ck.fail('a module cache holds an entry that is not the result of importing the module', rp | {'entries': bad}, 'cache_incoherent')
                    if real[0] != 'doc':
                        bad_before = True
                for i, (treal, rep) in enumerate(zip(table_real, lean_batch(table_reqs) if table_reqs else [])):
                    d = cachewatch.diff_tables(treal, cachewatch.parse_tables(rep))
                    ck.count('table states compared with the model of the update rules')
                    if d:
                        ck.disagree('the module tables differ from the model of the update rules',
                                    {'op': 'history', 'history': [(x.hex(), c, a) for x, c, a in steps[:i + 1]], 'step': i, 'differences': d[:8],
                                     'lookups': [list(l) for l in (lookups[:200])]})
                        break
            finally:
                watch.uninstall()
                env_on.uninstall()
        # ---- contents that collide under a checksum or a digest (same length, same CRC-32 / same MD5, different bytes), decoded one after the other
        # in one process by every kind of user-data decoder: each log is shown as a fresh interpreter shows it
        env_on.install()
        try:
            import struct as _st
            tail = b''.join(_st.pack('>HHI', 0x0100 + 7 * i_, i_ + 1, pte_) for i_, pte_ in enumerate([0x01040000, 0xE2082690, 0x010000DE]))
            pairs_ = [('crc32', apel.crc_twins(rng, 128 + len(tail))), ('crc32', apel.crc_twins(rng, 64))]
            if apel.md5_twins(tail):
                pairs_ += [('md5', apel.md5_twins(tail)), ('md5', apel.md5_twins())]
            for kind_, (a_, b_) in pairs_:
                for creator_, comp_, sub_ in (('M', 0x2C00, 73), ('M', 0x2C00, 72), ('M', 0x2C00, 84), ('M', 0x2C00, 9), ('x', 0x1111, 9), ('x', 0x7777, 9), ('O', 0x2000, 9)):
                    def one(payload_):
                        s_ = ud_sec(rng, comp_, payload_)
                        s_['hdr']['sub'] = sub_
                        s_['hdr']['ver'] = 1
                        p_ = apel.gen_pel(rng, max_sections=0)      # (not mk_pel: the shipped I/O-drawer parser module is wanted here)
                        p_['ph']['creator'] = ord(creator_)
                        p_['sections'] = [s_]
                        return apel.enc_pel(p_)
                    pa, pb = one(a_), one(b_)
                    ra = apel.real_decode(pa, {'every': 1}, allow_plugins=True)
                    rb = apel.real_decode(pb, {'every': 1}, allow_plugins=True)
                    fb = fresh(fresh_py, pb, True)
                    ck.case(key=('twins', kind_, creator_, comp_, sub_, len(a_)))
                    ck.count('colliding contents (%s) decoded one after the other' % kind_)
                    if fb != json.loads(json.dumps(rb[:3])):
                        ck.fail('the result of a decode depends on what was decoded before it (contents of equal length and equal %s)' % kind_,
                                {'op': 'history', 'history': [(pa.hex(), {'every': 1}, True), (pb.hex(), {'every': 1}, True)], 'step': 1,
                                 'in_history': str(rb[:3])[:300], 'fresh': str(fb)[:300]}, 'history_dependence_collision')
        finally:
            env_on.uninstall()
        # ---- the shipped ILOG tables across logs: two table entries that overlap (a PTE matching both, a PTE matching only the LATER one), in two
        # logs decoded one after the other in one process, in both orders -- each log is shown as a fresh interpreter shows it (first match in file order)
        env_on.install()
        try:
            import re as _re
            from io_drawer.drawer_type import DRAWER_TYPES as _DT
            for dt_ in _DT:
                try:
                    rows_ = _re.findall(r'\{\s*"([0-9A-Fa-f*]{8})"\s*,\s*"([^"]*)"', open(dt_.get_header_file_path(), errors='replace').read())
                except Exception:
                    rows_ = []
                pats, msgs_ = [r_[0] for r_ in rows_], [r_[1] for r_ in rows_]
                # (designing the inputs only: a plain wildcard matcher over the pattern column; the verdict comes from the fresh interpreter)
                def m_(pat, hx):
                    return all(a_ == '*' or a_.upper() == b_ for a_, b_ in zip(pat, hx))
                def first_(hx):
                    return next((k for k, pt in enumerate(pats) if m_(pt, hx)), None)
                pairs_ = []
                for j_, pj in enumerate(pats):
                    if '*' not in pj or len(pairs_) >= (12 if thorough else 5):
                        continue
                    for i_, pi in enumerate(pats[:j_]):
                        if msgs_[i_] == msgs_[j_] or not all(a_ == '*' or b_ == '*' or a_.upper() == b_.upper() for a_, b_ in zip(pi, pj)):
                            continue
                        x_ = ''.join((a_ if a_ != '*' else b_ if b_ != '*' else rng.choice('0123456789ABCDEF')).upper() for a_, b_ in zip(pi, pj))
                        ys_ = [''.join((b_ if b_ != '*' else rng.choice('0123456789ABCDEF')).upper() for b_ in pj) for _ in range(8)]
                        y_ = next((y for y in ys_ if first_(y) == j_), None)
                        if y_ is not None and first_(x_) is not None and first_(x_) < j_ and m_(pj, x_):
                            pairs_.append((int(x_, 16), int(y_, 16)))
                            break
                for x_, y_ in pairs_:
                    def ilog_pel(v_):
                        s_ = ud_sec(rng, 0x2C00, struct.pack('>HHI', 0x0100, 1, v_) + struct.pack('>HHI', 0x0101, 2, v_))
                        s_['hdr']['sub'] = 73
                        s_['hdr']['ver'] = dt_.user_data_version
                        p_ = apel.gen_pel(rng, max_sections=0)
                        p_['ph']['creator'] = ord('M')
                        p_['sections'] = [s_]
                        return apel.enc_pel(p_)
                    px, py = ilog_pel(x_), ilog_pel(y_)
                    for first_, second_ in ((py, px), (px, py)):
                        apel.reset_caches()
                        apel.real_decode(first_, {'every': 1}, allow_plugins=True)
                        r2 = apel.real_decode(second_, {'every': 1}, allow_plugins=True)
                        f2 = fresh(fresh_py, second_, True)
                        ck.case(key=('ilog-overlap', dt_.name, x_, y_, first_ is py))
                        ck.count('overlapping ILOG table entries across two logs')
                        if f2 != json.loads(json.dumps(r2[:3])):
                            ck.fail('the result of a decode depends on what was decoded before it (ILOG entries whose table patterns overlap)',
                                    {'op': 'history', 'history': [(first_.hex(), {'every': 1}, True), (second_.hex(), {'every': 1}, True)], 'step': 1,
                                     'in_history': str(r2[:3])[-300:], 'fresh': str(f2)[-300:]}, 'history_dependence_ilog')
        except ImportError as e:
            ck.skip('io_drawer.drawer_type unavailable: %r' % e)
        finally:
            env_on.uninstall()
        # ---- the component-id loader against the model on generated configuration directories
        env_on.install()
        try:
            check_loader(ck, rng, 60 if thorough else 15)
            check_damaged_conf(ck, rng, 40 if thorough else 12)
        finally:
            env_on.uninstall()
        # ---- directory order: -a vs per-file -f, -a vs -a -r
        env_on.install()
        try:
            SELS = [['-E'], ['-S', 'Unrecoverable', 'Predictive', 'Informational'], ['-H', '-N'], ['-S', 'Critical', 'Recovered', '-s'], ['-E']]
            for it_ in range(10 if thorough else 5):
                d = clirun.keep_decodable(env_on, clirun.gen_wf_dir(rng, rng.choice([2, 4, 7])))
                # a log whose parser modules raise / return nothing / cannot be loaded is listed first (and, reversed, last): what a failing module
                # leaves behind must not reach the logs shown after it
                trouble = mk_pel(rng, 'x', [ud_sec(rng, 0x2222), ud_sec(rng, 0x3333), ud_sec(rng, 0x8888), ud_sec(rng, 0x5A5A), src_sec(rng, b'BD128D34', [b'PROCBAD!'])])
                files = [(n, apel.enc_pel(p)) for n, p in d] + [('zz_junk', b'PHjunk'), ('!0_trouble', trouble)]
                path = clirun.make_dir(files)
                sel = SELS[it_ % len(SELS)]
                a, _, _ = clirun.run_main(['-p', path, '-a'] + sel)
                r, _, _ = clirun.run_main(['-p', path, '-a', '-r'] + sel)
                singles = []
                for n, _ in sorted(files):
                    so, _, _ = clirun.run_main(['-f', os.path.join(path, n)] + sel)
                    if so.strip():
                        try:
                            singles.append(json.loads(so))
                        except ValueError:      # what -f printed is an outcome, not a harness error
                            singles.append({'<-f output is not JSON>': so[:300]})
                ck.case(key=('dir', tuple(files)))
                ck.count('directory order')
                rp = {'op': 'dir-order', 'argv': sel, 'files': [(n, b.hex()) for n, b in files]}
                try:
                    la, lr = json.loads(a), json.loads(r)
                    if la != list(reversed(lr)):
                        ck.fail('-a and -a -r present different documents', rp, 'dir_reverse')
                    if la != singles:
                        ck.fail('-a differs from decoding each file on its own', rp, 'dir_vs_single')
                except Exception as e:  # noqa
                    ck.fail('-a output is not JSON', rp | {'error': repr(e)}, 'dir_json')
                shutil.rmtree(path, ignore_errors=True)
        finally:
            env_on.uninstall()
        # ---- histories ACROSS invocations: what an earlier run of the tool left in the output directory must not decide what a later run
        # writes for a PEL (a log restored under the same name and entry id with an older time stamp; a run with -P followed by a plain run)
        env_on.install()
        try:
            import glob
            for k in range(6 if thorough else 3):
                d = clirun.keep_decodable(env_on, clirun.gen_wf_dir(rng, 2))
                if len(d) < 2:
                    continue
                (n1, p1), (n2, p2) = d[0], d[1]
                p2['ph']['eid'] = p1['ph']['eid']
                b1, b2 = apel.enc_pel(p1), apel.enc_pel(p2)
                for first_argv, first_data, label in ((['-E'], b1, 'another log with the same name and entry id was converted before'), (['-E', '-P'], b2, 'the same log was converted with -P before')):
                    dd = clirun.make_dir([('the_log', first_data)], base=tmp)
                    od = clirun.make_dir([], base=tmp)
                    fresh_od = clirun.make_dir([], base=tmp)
                    clirun.run_main(['-p', dd, '-j', '-o', od] + first_argv)
                    open(os.path.join(dd, 'the_log'), 'wb').write(b2)
                    old = os.stat(os.path.join(dd, 'the_log')).st_mtime - 7200
                    os.utime(os.path.join(dd, 'the_log'), (old, old))
                    clirun.run_main(['-p', dd, '-j', '-o', od, '-E'])
                    clirun.run_main(['-p', dd, '-j', '-o', fresh_od, '-E'])
                    got = sorted((os.path.basename(f), open(f).read()) for f in glob.glob(os.path.join(od, '*.json')))
                    want = sorted((os.path.basename(f), open(f).read()) for f in glob.glob(os.path.join(fresh_od, '*.json')))
                    ck.case(key=('across', label, b1, b2))
                    ck.count('history across invocations')
                    if got != want:
                        ck.fail('what --json writes for a PEL depends on what an earlier invocation left in the output directory (%s)' % label,
                                {'op': 'history-across-invocations', 'history': [first_data.hex(), b2.hex()], 'case': label, 'files_written': [n for n, _ in got], 'expected_files': [n for n, _ in want]},
                                'across_invocations')
        finally:
            env_on.uninstall()
    finally:
        shutil.rmtree(tmp, ignore_errors=True)
    return ck.finish(RULE, TRUSTED, ASSUME)


def fresh(fresh_py, data, allow):
    p = subprocess.run([common.PY, '-W', 'ignore', '-B', fresh_py, str(int(allow))], input=data.hex().encode(), stdout=subprocess.PIPE, stderr=subprocess.PIPE,
                       env=common.child_env(), timeout=60)
    try:
        return json.loads(p.stdout.decode().strip().split('\n')[-1])
    except Exception:
        return ['fresh-failed', p.stderr.decode()[-200:]]


def replay(path):
    rp = json.load(open(path))
    print(json.dumps(rp, indent=1)[:3000])
    return 0
