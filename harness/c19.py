"""C19 — decoding a PEL gives the same result whatever was decoded before it."""
import json
import os
import shutil
import subprocess
import sys
import tempfile

import apel
import clirun
import common
import jsonio
from c01 import compare
from common import Check, lean_batch, tb

TRUSTED = ['Lean 4.33.0 kernel (+ leanchecker in the thorough tier)',
           'axioms: propext, Classical.choice, Quot.sound only (audited per theorem)',
           'harness/c19.py + apel.py (history generator, fresh-interpreter oracle, cache inspection), Drv.lean protocol parsing',
           'compiled driver peldrv agrees with the kernel reading of the same definitions']
ASSUME = ['importlib / sys.modules are modelled as a deterministic environment; the caches of parse_user_data.py, src.py and osrc.py are the only '
          'cross-decode state in the model -- state that a change might ADD is caught only by the history runs, not by the theorems',
          'the fresh-interpreter oracle is sampled (one subprocess per sampled step)']
RULE = ('cases = histories of 2..30 decodes in ONE process mixing well-formed, damaged, filtered PELs, all creators / components, fixture parser '
        'modules of every behaviour (echo, raise, raise ImportError, return None, a callout module that raises for one procedure), plugins '
        'toggled between steps, a message registry whose messages are filled from the hex words (every history has two PELs with the same reason '
        'code and different words, and an entry that rejects the PEL); every step is compared with the stateless model, a sample with a fresh interpreter; the module caches are '
        'inspected after every step; plus -a vs per-file -f and -a vs -a -r; non-trivial = a step preceded by a failing or plugin-raising '
        'decode; distinct by (history prefix, bytes)')
UD_FIX = {'x1111': ('echo',), 'x2222': ('raises', 'boom'), 'x3333': ('none',), 'x7777': ('raises_import', 'No module named frobnicate'), 'x8888': ('import_raises', 'load failure'), 'o1234': ('echo',)}
SRC_FIX = {'xsrc': ('echo',), 'o8d00': ('echo',), 'oab00': ('raises_import',)}
CO_FIX = {'x': ('table_raise', {'PROC0001': ['line one'], 'PROC0002': ['second']}, 'PROCBAD!')}
# message registry: the message of an SRC is built from that SRC's own hex words (two PELs with the same reason code and
# different words must not see each other's words); the third entry has too few argument sources and rejects the PEL
REG_FIX = [{'SRC': {'ReasonCode': '0x8D34', 'Words6To9': {'6': {'Description': 'first word', 'AdditionalDataPropSource': 'W6'}}},
            'Documentation': {'Message': 'code %1 and %2', 'MessageArgSources': ['SRCWord6', 'SRCWord9']}},
           {'SRC': {'ReasonCode': '0xAB34', 'Type': 'BC'}, 'Documentation': {'Message': 'hostboot %1', 'MessageArgSources': ['SRCWord7']}},
           {'SRC': {'ReasonCode': '0x7734', 'Type': 'BD'}, 'Documentation': {'Message': 'too few %1 %2', 'MessageArgSources': ['SRCWord8']}}]

# component-id names exist for creators O and B only (files read by the repository's own loader); histories mix creators with and
# without a names file, in every order
COMP_IDS = {'O': {'2000': 'bmc error logging', '1234': 'twelve-thirtyfour', '1111': 'ones'}, 'B': {'2000': 'hb', '2222': 'twos'}}

FRESH = r'''
import sys, json
sys.path.insert(0, %(harness)r)
import apel
env = apel.PluginEnv(allow=True, ud=%(ud)r, src=%(src)r, callout=%(co)r, registry=%(reg)r, comp_ids=%(cids)r).install()
try:
    r = apel.real_decode(bytes.fromhex(sys.argv[1]), allow_plugins=bool(int(sys.argv[2])))
    print(json.dumps(r[:3]))
finally:
    env.uninstall()
'''


def gen_step(rng):
    p = apel.gen_pel(rng, max_sections=0)
    p['ph']['creator'] = ord(rng.choice('xxxOOBMH'))
    secs = []
    for _ in range(rng.choice([1, 2, 3])):
        k = rng.choice(['ud', 'ud', 'ed', 'src'])
        if k == 'src':
            sec = {'kind': 'src', 'hdr': apel.gen_hdr(rng), 'primary': True, 'src': apel.gen_src(rng)}
            sec['src']['ascii'] = (rng.choice([b'BD', b'BC']) + b'12' + rng.choice([b'8D', b'AB', b'77']) + b'34').ljust(32, b' ')
            if sec['src']['callouts']:
                for c in sec['src']['callouts']['callouts']:
                    if c['fru']['flags'] & 0x0A:
                        c['fru']['pn'] = rng.choice([b'PROC0001', b'PROC0002', b'PROCBAD!', b'PROCBAD!', b'BMC0001\0'])
        else:
            sec = {'kind': k, 'hdr': apel.gen_hdr(rng), 'payload': apel.gen_payload(rng)[:200]}
            sec['hdr']['comp'] = rng.choice([0x1111, 0x2222, 0x3333, 0x7777, 0x7777, 0x8888, 0x1234, 0x2000, 0x4444])
            if k == 'ed':
                sec.update(creator=ord(rng.choice('xxO')), resv1=0, resv2=0)
        secs.append(sec)
    p['sections'] = secs
    apel.fix_real_plugins(p)
    data = apel.enc_pel(p)
    kind = rng.random()
    if kind < 0.2:
        data = data[:rng.randrange(1, len(data))]
    elif kind < 0.3:
        o = rng.randrange(len(data))
        data = data[:o] + bytes([data[o] ^ 0x55]) + data[o + 1:]
    cfg = {'every': 1} if rng.random() < 0.8 else {}
    return data, cfg, rng.random() < 0.85


def reg_pair(rng):
    """two well-formed PELs whose SRCs have the same reason code (a registry entry with MessageArgSources) and different hex words"""
    out = []
    ascii_ = rng.choice([b'BD128D34', b'BC12AB34']).ljust(32, b' ')
    for _ in range(2):
        p = apel.gen_pel(rng, max_sections=0)
        p['ph']['creator'] = ord(rng.choice('xOB'))
        x = apel.gen_src(rng)
        x['ascii'] = ascii_
        x['words'] = [rng.randrange(2 ** 32) for _ in range(8)]
        p['sections'] = [{'kind': 'src', 'hdr': apel.gen_hdr(rng), 'primary': True, 'src': x}]
        apel.fix_real_plugins(p)
        out.append((apel.enc_pel(p), {'every': 1}, rng.random() < 0.85))
    return out


def cache_coherent(env_fix):
    from pel.peltool import parse_user_data, src
    bad = []
    for name, mod in parse_user_data.userDataParsers.items():
        short = name.split('.')[1]
        exists = short in UD_FIX or short in ('m2c00', 'oe500')
        if (mod is None) == exists:
            bad.append(name)
    for name, mod in src.calloutParsers.items():
        short = name.split('.')[1]
        exists = short in ('xcallouts', 'ocallouts')
        if (mod is None) == exists:
            bad.append(name)
    for name, mod in src.srcParsers.items():
        short = name.split('.')[1]
        exists = short in ('xsrc', 'osrc', 'o8d00', 'oab00')
        if (mod is None) == exists:
            bad.append(name)
    return bad


def run(tier, seed):
    ck = Check('C19', tier, seed)
    ck.proof = common.build_and_audit('C19', thorough=(tier == 'thorough'))
    if not ck.proof['driver_ok']:
        return ck.finish(RULE, TRUSTED, ASSUME)
    rng = ck.rng
    thorough = tier == 'thorough'
    fresh_src = FRESH % {'harness': os.path.dirname(os.path.abspath(__file__)), 'ud': UD_FIX, 'src': SRC_FIX, 'co': CO_FIX, 'reg': REG_FIX, 'cids': COMP_IDS}
    tmp = tempfile.mkdtemp(prefix='c19_')
    fresh_py = os.path.join(tmp, 'fresh.py')
    open(fresh_py, 'w').write(fresh_src)
    env_on = apel.PluginEnv(allow=True, ud=UD_FIX, src=SRC_FIX, callout=CO_FIX, registry=REG_FIX, comp_ids=COMP_IDS)
    env_off = apel.PluginEnv(allow=False, ud=UD_FIX, src=SRC_FIX, callout=CO_FIX, registry=REG_FIX, comp_ids=COMP_IDS)
    try:
        for hnum in range(30 if thorough else 8):
            steps = [gen_step(rng) for _ in range(rng.choice([2, 5, 12, 30]))]
            for st in reg_pair(rng):   # same reason code, different hex words, somewhere in the history
                steps.insert(rng.randrange(len(steps) + 1), st)
            if rng.random() < 0.5:   # repeat an earlier input later in the history
                steps.append(steps[0])
                steps.insert(rng.randrange(len(steps)), steps[-2])
            # the model is stateless: one request per step, grouped by plugin setting
            replies = {}
            for allow, e in ((True, env_on), (False, env_off)):
                idx = [i for i, s in enumerate(steps) if s[2] == allow]
                rep = lean_batch([e.tokens()] + ['pelraw %s %s' % (apel.tok_cfg(steps[i][1]), tb(steps[i][0])) for i in idx])[1:]
                replies.update(dict(zip(idx, rep)))
            env_on.install()          # ONE process, caches are NOT reset between the steps
            try:
                bad_before = False
                for i, (data, cfg, allow) in enumerate(steps):
                    real = apel.real_decode(data, cfg, allow_plugins=allow)
                    model = apel.dec_outcome(replies[i])
                    ck.case(key=(hnum, i, data) if bad_before else None, sample={'history': hnum, 'step': i, 'outcome': real[0], 'plugins': allow} if i < 2 else None)
                    ck.count('step outcome %s' % real[0])
                    if real[0] == 'doc' and '"Error Details"' in real[4]:
                        ck.count('steps showing a registry message built from the hex words')
                    rp = {'op': 'history', 'history': [(d.hex(), c, a) for d, c, a in steps[:i + 1]], 'step': i}
                    if model[0] != 'unsupported':
                        same = model[0] == real[0] and (model[0] != 'doc' or (model[1], model[2]) == (real[1], real[2]))
                        if not same:
                            # is it history dependence?  ask a fresh interpreter
                            fr = fresh(fresh_py, data, allow) if cfg.get('every') else None
                            if fr is not None and fr != json.loads(json.dumps(real[:3])):
                                ck.fail('the result of a decode depends on what was decoded before it', rp | {'in_history': str(real[:3])[:300], 'fresh': str(fr)[:300]}, 'history_dependence')
                            else:
                                ck.disagree('step differs from the stateless model', rp | {'impl': str(real[:3])[:300], 'model': str(model)[:300]})
                    elif rng.random() < 0.3:
                        fr = fresh(fresh_py, data, allow) if cfg.get('every') else None
                        if fr is not None and fr != json.loads(json.dumps(real[:3])):
                            ck.fail('the result of a decode depends on what was decoded before it', rp | {'in_history': str(real[:3])[:300], 'fresh': str(fr)[:300]}, 'history_dependence')
                    if rng.random() < (0.15 if thorough else 0.05) and cfg.get('every'):
                        fr = fresh(fresh_py, data, allow)
                        ck.count('fresh-interpreter comparisons')
                        if fr != json.loads(json.dumps(real[:3])):
                            ck.fail('the result of a decode depends on what was decoded before it', rp | {'in_history': str(real[:3])[:300], 'fresh': str(fr)[:300]}, 'history_dependence')
                    bad = cache_coherent(None)
                    if bad:
                        ck.fail('a module cache holds an entry that is not the result of importing the module', rp | {'entries': bad}, 'cache_incoherent')
                    if real[0] != 'doc':
                        bad_before = True
            finally:
                env_on.uninstall()
        # ---- directory order: -a vs per-file -f, -a vs -a -r
        env_on.install()
        try:
            for _ in range(10 if thorough else 3):
                d = clirun.keep_decodable(env_on, clirun.gen_wf_dir(rng, rng.choice([2, 4, 7])))
                files = [(n, apel.enc_pel(p)) for n, p in d] + [('zz_junk', b'PHjunk')]
                path = clirun.make_dir(files)
                a, _, _ = clirun.run_main(['-p', path, '-a', '-E'])
                r, _, _ = clirun.run_main(['-p', path, '-a', '-E', '-r'])
                singles = []
                for n, _ in sorted(files):
                    so, _, _ = clirun.run_main(['-f', os.path.join(path, n), '-E'])
                    if so.strip():
                        singles.append(json.loads(so))
                ck.case(key=('dir', tuple(files)))
                ck.count('directory order')
                rp = {'op': 'dir-order', 'files': [(n, b.hex()) for n, b in files]}
                try:
                    la, lr = json.loads(a), json.loads(r)
                    if la != list(reversed(lr)):
                        ck.fail('-a and -a -r present different documents', rp, 'dir_reverse')
                    if la != singles:
                        ck.fail('-a differs from decoding each file on its own', rp, 'dir_vs_single')
                except Exception as e:  # noqa
                    ck.fail('-a output is not JSON', rp | {'error': repr(e)}, 'dir_json')
                shutil.rmtree(path, ignore_errors=True)
        finally:
            env_on.uninstall()
    finally:
        shutil.rmtree(tmp, ignore_errors=True)
    return ck.finish(RULE, TRUSTED, ASSUME)


def fresh(fresh_py, data, allow):
    p = subprocess.run([common.PY, '-W', 'ignore', '-B', fresh_py, data.hex(), str(int(allow))], stdout=subprocess.PIPE, stderr=subprocess.PIPE,
                       env=common.child_env(), timeout=60)
    try:
        return json.loads(p.stdout.decode().strip().split('\n')[-1])
    except Exception:
        return ['fresh-failed', p.stderr.decode()[-200:]]


def replay(path):
    rp = json.load(open(path))
    print(json.dumps(rp, indent=1)[:3000])
    return 0
