"""C08 — list, count and display-all agree on the same PELs in file-name order."""
import json
import os
import shutil

import apel
import clirun
import toprun
import common
import jsonio
from common import Check, lean_batch

TRUSTED = ['harness/toprun.py (worlds materialised as real trees, the real peltool.main() run end to end in-process with nothing replaced, recursive snapshots, comparison with the driver op runmain = Pel.runMain of PelModel/Top.lean)',
           'Lean 4.33.0 kernel (+ leanchecker in the thorough tier)',
           'axioms: propext, Classical.choice, Quot.sound only (audited per theorem)',
           'harness/c08.py + clirun.py + apel.py (directory generator, in-process CLI runs, comparison), Drv.lean protocol parsing',
           'compiled driver peldrv agrees with the kernel reading of the same definitions']
ASSUME = ['whole-command model: -o names the -p directory iff absent/empty or the same string; the -f file is not a top-level file of the -p directory; --json is composed in batch form (an output name equal to another input file name is outside the composition)',
          'os.walk, list.sort on str, os.path.splitext and argparse are modelled (walk order is a parameter taken from the real directory), not verified',
          'the CLI is run in-process (peltool.main with a patched argv); a sample is re-run as a real subprocess']
RULE = ('cases = (directory of 0..30 well-formed PEL files with distinct entry ids and assorted names/extensions, selection options, '
        '--reverse, --extension, --hex) each run through -n, -l and -a on the real CLI; non-trivial = at least two files selected; '
        'distinct by (directory bytes, options)')


# a message registry (installed like C03's): two entries whose messages are built from the SRC's own hex words
REG = [{'SRC': {'ReasonCode': '0x8D34', 'Words6To9': {'6': {'Description': 'first word', 'AdditionalDataPropSource': 'W6'}}},
        'Documentation': {'Message': 'code %1 and %2', 'MessageArgSources': ['SRCWord6', 'SRCWord9']}},
       {'SRC': {'ReasonCode': '0xAB34', 'Type': 'BC'}, 'Documentation': {'Message': 'hostboot %1', 'MessageArgSources': ['SRCWord7']}}]


def run(tier, seed):
    ck = Check('C08', tier, seed)
    ck.proof = common.build_and_audit('C08', thorough=(tier == 'thorough'))
    if not ck.proof['driver_ok']:
        return ck.finish(RULE, TRUSTED, ASSUME)
    rng = ck.rng
    thorough = tier == 'thorough'
    # parser modules of creator x that fail in every way: a PEL that uses them is well-formed and appears in all three modes alike
    ENVKW = dict(allow=True, ud={'x1111': ('echo',), 'x2222': ('raises', 'boom'), 'x3333': ('none',), 'x8888': ('import_raises', 'load failure'),
                                 'x5a5a': ('raises', ''), 'x6b6b': ('release_raises', 'done')}, src={'xsrc': ('raises',)}, callout={'x': ('raises',)}, registry=REG)
    env = apel.PluginEnv(**ENVKW).install()
    try:
        cases = []
        for _ in range(120 if thorough else 30):
            d0 = clirun.gen_wf_dir(rng, rng.choice([0, 1, 2, 5, 8, 12, 30 if thorough else 10]))
            for n, p in d0:
                if rng.random() < 0.3:
                    # a reference code the message registry knows: the --list entry then carries a "Message" member (= the full decode's)
                    for sec in p['sections']:
                        if sec['kind'] == 'src' and sec['primary']:
                            sec['src']['ascii'] = rng.choice([b'BD128D34', b'BC12AB34', b'BD008D34']).ljust(32, b' ')
                if rng.random() < 0.2:
                    # a large section AHEAD of the primary SRC, or a primary SRC with many long callouts: the summary lies beyond the first kilobytes
                    if rng.random() < 0.5:
                        p['sections'].insert(0, {'kind': 'ud', 'hdr': dict(apel.gen_hdr(rng), comp=0x7777, sub=9), 'payload': bytes(rng.randrange(256) for _ in range(rng.choice([1100, 4000, 20000])))})
                    else:
                        for sec in p['sections']:
                            if sec['kind'] == 'src' and sec['primary']:
                                big = []
                                for _ in range(10):
                                    c = apel.gen_callout(rng)
                                    c['loc'] = (b'U78DA.ND1.LONG-LOCATION-CODE-' + b'X' * 80)[:80]
                                    c['pce'], c['mru'] = None, None
                                    big.append(c)
                                sec['src']['callouts'] = {'subId': 0xC0, 'subFlags': 0, 'callouts': big}
                if rng.random() < 0.25:
                    p['ph']['creator'] = ord('x')
                    for comp in rng.sample([0x1111, 0x2222, 0x3333, 0x8888, 0x5A5A, 0x6B6B], rng.randrange(1, 4)):
                        p['sections'].append({'kind': 'ud', 'hdr': dict(apel.gen_hdr(rng), comp=comp, sub=7), 'payload': b'payload'})
            d = clirun.keep_decodable(env, d0)
            if len(d) >= 5 and len(cases) % 3 == 0:
                # designed names: one stem a prefix of another, followed by a character that sorts below / above the dot, with and without extension,
                # upper and lower case -- the order of the NAMES differs from the order of (stem, extension) pairs, of lower-cased names, of stems
                ORDER_NAMES = ['a.pel', 'a-b.pel', 'a', 'a.', 'a.b.pel', 'A.pel', 'a_1', 'a0.pel', 'a-b', 'a+.pel', 'a .pel', 'B', 'b.PEL', 'a.pel.bak', '10.pel', '9.pel']
                picked = rng.sample(ORDER_NAMES, min(len(d), len(ORDER_NAMES)))
                d = [(picked[i], p_) if i < len(picked) else (n_, p_) for i, (n_, p_) in enumerate(d)]
            files = [(n, apel.enc_pel(p)) for n, p in d]
            path = clirun.make_dir(files, subdirs={'archive': [('old_' + (files[0][0] if files else 'x'), files[0][1] if files else b'PH')]} if rng.random() < 0.5 else None)
            for _ in range(4):
                cfg = {'every': int(rng.random() < 0.3), 'term': int(rng.random() < 0.2), 's': int(rng.random() < 0.3), 'N': int(rng.random() < 0.3),
                       'H': int(rng.random() < 0.3), 'only': int(rng.random() < 0.3), 'sevs': [g for g in [0, 1, 2, 4, 5, 6, 7] if rng.random() < 0.2]}
                if rng.random() < 0.3:
                    cfg = {}
                rev = rng.random() < 0.4
                ext = rng.choice([None, None, '.pel', '.txt', '', '.PEL', '.bak', '.'])
                cases.append((path, d, files, cfg, rev, ext))
        reqs = [env.tokens()]
        for (path, d, files, cfg, rev, ext) in cases:
            order = clirun.walk_files(path)
            byname = dict(files)
            fl = [(n, byname[n]) for n in order]
            for mode in ('count', 'list', 'all'):
                reqs.append(clirun.model_req(mode, fl, cfg, rev=rev, ext=ext))
            reqs.append(clirun.model_req('list', fl, cfg, hex_=True, rev=rev, ext=ext))
        replies = lean_batch(reqs)[1:]
        it = iter(replies)
        seen_paths = set()
        for (path, d, files, cfg, rev, ext) in cases:
            base = ['-p', path] + clirun.cfg_argv(cfg) + (['-r'] if rev else []) + (['-e', ext] if ext is not None else [])
            outs = {}
            for mode, flag in (('count', '-n'), ('list', '-l'), ('all', '-a')):
                outs[mode] = clirun.run_main(base + [flag])
            outs['hex'] = clirun.run_main(base + ['-l', '-x'])
            models = {m: next(it) for m in ('count', 'list', 'all', 'hex')}
            rp = {'op': 'cli', 'argv': base[2:], 'files': [(n, b.hex()) for n, b in files]}
            ok = True
            try:
                count = json.loads(outs['count'][0])['Number of PELs found']
                lst = json.loads(outs['list'][0], object_pairs_hook=jsonio.pairs_hook)
                ck.count('list entries with a registry "Message" member', outs['list'][0].count('"Message":'))
                alld = json.loads(outs['all'][0], object_pairs_hook=jsonio.pairs_hook)
            except Exception as e:  # noqa
                ck.fail('a directory mode did not print a JSON document', rp | {'error': repr(e), 'stdout': {k: v[0][:200] for k, v in outs.items()}}, 'not_json')
                ok = False
            if ok:
                eid_of = {('%02X' % p['ph']['eid']): n for n, p in d}   # ids are displayed with at least two digits
                list_eids = [k[2:] for k, _ in lst]
                all_eids = [dict(doc)['Private Header'] and dict(dict(doc)['Private Header'])['Entry Id'][2:] for doc in alld]
                ck.case(key=(tuple(files), tuple(base[2:])) if count >= 2 else None,
                        sample={'files': [n for n, _ in files][:6], 'argv': base[2:], 'count': count})
                ck.count('selected %s' % ('0' if count == 0 else '1' if count == 1 else '2+'))
                if not (count == len(lst) == len(alld)):
                    ck.fail('count, list and all disagree on the number of PELs', rp | {'count': count, 'list': len(lst), 'all': len(alld)}, 'same_count')
                elif list_eids != all_eids:
                    ck.fail('list and all refer to different PELs / order', rp | {'list': list_eids, 'all': all_eids}, 'same_set')
                else:
                    names = [eid_of.get(e) for e in list_eids]
                    if None in names or names != sorted(names, reverse=rev):
                        ck.fail('entries are not in %s file-name order' % ('descending' if rev else 'ascending'), rp | {'names': names}, 'order')
                    if ext:
                        bad = [n for n in names if os.path.splitext(n)[1] != ext]
                        if bad:
                            ck.fail('--extension did not restrict the modes to that extension', rp | {'names': bad}, 'extension')
                    for (k, summ), doc in zip(lst, alld):
                        sm, dd = dict(summ), dict(doc)
                        ph, uh = dict(dd['Private Header']), dict(dd['User Header'])
                        exp = {'PLID': ph['Platform Log Id'], 'CreatorID': ph['Creator Subsystem'], 'Subsystem': uh['Subsystem'], 'Commit Time': ph['Committed at'],
                               'Sev': uh['Event Severity'], 'CompID': ph['Created by']}
                        if 'Primary SRC' in dd:
                            exp['SRC'] = dict(dd['Primary SRC'])['Reference Code']
                        if {k2: v for k2, v in sm.items() if k2 != 'Message'} != exp:
                            ck.fail('a --list entry differs from the corresponding fields of the full decode', rp | {'entry': sm, 'expected': exp}, 'summary_fields')
                            break
            for m in ('count', 'list', 'all', 'hex'):
                r = models[m]
                mo, me, mx = r.text(), r.num(), r.num()
                so, se, sx = outs[m]
                if so != mo or sx != mx:
                    k = next((i for i in range(min(len(so), len(mo))) if so[i] != mo[i]), min(len(so), len(mo)))
                    ck.disagree('%s mode output differs from the model' % m, rp | {'mode': m, 'at': k, 'impl': so[max(0, k - 60):k + 60], 'model': mo[max(0, k - 60):k + 60], 'exit': (sx, mx)})
            seen_paths.add(path)
        # a sample as real subprocesses
        # (separate interpreters that have this run's fixture modules and its registry: harness/freshrun.py)
        for (path, d, files, cfg, rev, ext) in cases[:3 if not thorough else 12]:
            base = ['-p', path] + clirun.cfg_argv(cfg) + (['-r'] if rev else []) + (['-e', ext] if ext is not None else [])
            for flag in ('-n', '-l', '-a'):
                so, se, sx = apel.fresh_cli(ENVKW, base + [flag])
                io_, _, ix = clirun.run_main(base + [flag])
                ck.case(key=('sub', path, flag))
                ck.count('subprocess')
                if so != io_ or sx != ix:
                    ck.disagree('subprocess and in-process runs differ', {'argv': base[2:] + [flag]})
        for p in seen_paths:
            shutil.rmtree(p, ignore_errors=True)
    finally:
        env.uninstall()
    # the WHOLE command end to end on real trees vs Pel.runMain (PelModel/Top.lean), and the command-level properties on the real runs
    toprun.check_top(ck, tier, 'agree')
    return ck.finish(RULE, TRUSTED, ASSUME)


def replay(path):
    rp = json.load(open(path))
    print(json.dumps(rp, indent=1)[:3000])
    return 0
