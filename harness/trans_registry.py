"""
Source-to-Lean translator, stream `registry`: the message-registry look-up (property C03, "Error Details").

Reads the CURRENT text of  modules/pel/peltool/registry.py  Registry.getErrorMessage  with `ast` (nothing is imported or run) and writes
lean/PelGen/GenRegistry.lean; the tie is the last theorem of lean/PelProps/TieC03.lean (vocabulary: lean/PelModel/TransRegistry.lean).

The function is a first-match search: a loop over `self.pels` whose body skips entries (`if …: continue`), and at the first entry that
is not skipped fills a dictionary and returns it; after the loop the empty dictionary is returned.  It becomes

    fun reg x1 x2 => firstHit reg (fun e => <the conjunction of the negated skip conditions, in order>) (fun e => <what is copied>)

Everything that decides behaviour is read off the AST: which members are tested and compared, the operators (== / != / in / not in) and
the SIDE each operand stands on, the default of `.get("Type", …)`, the order of the tests as far as a later one relies on an earlier one
(`pel["SRC"]["ReasonCode"]` is only translated where a test has established that the member exists), which members are copied under
which condition.  Anything else raises pytrans.Untranslatable (-> `none`, TRANSLATION-UNAVAILABLE).

TRUSTED NAME MAP / IDIOM TABLE  (Python -> Lean; E = the loop variable, an entry of the registry = Pel.RegEntry, PelModel/Src.lean)
----------------------------------------------------------------------------------------------------------------------------------
  def getErrorMessage(self, a, b)             -> fun (reg : List RegEntry) (x1 x2 : Text)          parameters BY POSITION
  out = {} ; for E in self.pels: BODY ; return out            -> firstHit reg keep copy;   `return out` with nothing stored = no entry (none)
  S := E["SRC"], D := E["Documentation"]  (also through a local name bound to them)
      (every entry of a registry the model describes has both members: RegEntry is the projection, see harness/apel.py PluginEnv.tokens)
  "ReasonCode" in S / not in S                -> e.reasonCode.isSome / e.reasonCode.isNone
  "Type" in S / not in S                      -> e.type.isSome / e.type.isNone
  S["ReasonCode"]                             -> e.reasonCode.getD []     ONLY where an earlier test guarantees the member (else: refused)
  S.get("Type", "<lit>")                      -> e.type.getD <lit>
  t == u / t != u  (texts)                    -> (t == u) / !(t == u)
  t in u / t not in u  (texts)                -> isInfix t u / !(isInfix t u)                       (PelModel/Basic.lean, Python's substring test)
  not c, c1 and c2, c1 or c2                  -> !c, (c1 && c2), (c1 || c2)     (a member guaranteed by an earlier operand may be used in a later one)
  if c: continue                              -> the entry is kept only if !c
  x = <expression>                            -> substituted where x is used (single assignment)
  out['Message'] = D['Message']               -> message := e.message                                 (exactly once; required)
  if 'MessageArgSources' in D: out['MessageArgSources'] = D['MessageArgSources']
                                              -> argSources := if e.argSources.isSome then e.argSources else none
  if 'Words6To9' in S and S['Words6To9']: out['Words6To9'] = S['Words6To9']
                                              -> words := if e.wordsTruthy then e.words else []       (absent and empty coincide in RegEntry)
"""
import ast

import pytrans
from pytrans import Untranslatable as U

PY = 'pel/peltool/registry.py'
TEXT, BOOL = 'text', 'bool'


def where(n):
    return 'line %d' % getattr(n, 'lineno', 0)


class Tr:
    def __init__(self, fn):
        self.fn = fn
        a = fn.args
        if fn.decorator_list or a.vararg or a.kwarg or a.kwonlyargs or a.posonlyargs or a.defaults or a.kw_defaults or len(a.args) != 3:
            raise U('getErrorMessage: unexpected signature')
        self.selfname = a.args[0].arg
        self.params = {a.args[1].arg: 'x1', a.args[2].arg: 'x2'}
        if len(self.params) != 2 or self.selfname in self.params:
            raise U('getErrorMessage: duplicate parameter')
        self.locals = {}        # name -> ('val', term, type) | ('obj', 'SRC' | 'DOC')
        self.ev = None
        self.out = None
        self.rc = False         # a test has established that S["ReasonCode"] exists

    # ---- objects
    def obj(self, n):
        """'E' / 'SRC' / 'DOC' if the expression denotes the entry or one of its two members"""
        if isinstance(n, ast.Name) and isinstance(n.ctx, ast.Load):
            if n.id == self.ev:
                return 'E'
            b = self.locals.get(n.id)
            if b and b[0] == 'obj':
                return b[1]
            return None
        if isinstance(n, ast.Subscript) and self.obj(n.value) == 'E' and isinstance(n.slice, ast.Constant):
            return {'SRC': 'SRC', 'Documentation': 'DOC'}.get(n.slice.value)
        return None

    def member(self, n):
        """(object, key) of `O["key"]`"""
        if isinstance(n, ast.Subscript) and isinstance(n.slice, ast.Constant) and isinstance(n.slice.value, str):
            o = self.obj(n.value)
            if o in ('SRC', 'DOC'):
                return o, n.slice.value
        return None

    # ---- expressions: (term, type)
    def expr(self, n):
        if isinstance(n, ast.Constant) and isinstance(n.value, str):
            return '(%s : Text)' % pytrans.lean_text(n.value), TEXT
        if isinstance(n, ast.Constant) and isinstance(n.value, bool):
            return ('true' if n.value else 'false'), BOOL
        if isinstance(n, ast.Name) and isinstance(n.ctx, ast.Load):
            if n.id in self.locals:
                b = self.locals[n.id]
                if b[0] != 'val':
                    raise U('%s used as a value at %s' % (n.id, where(n)))
                return b[1], b[2]
            if n.id in self.params:
                return self.params[n.id], TEXT
            raise U('unknown name %s at %s' % (n.id, where(n)))
        m = self.member(n)
        if m == ('SRC', 'ReasonCode'):
            if not self.rc:
                raise U('S["ReasonCode"] read at %s without a test that the member exists' % where(n))
            return '(e.reasonCode.getD [])', TEXT
        if isinstance(n, ast.Call) and isinstance(n.func, ast.Attribute) and n.func.attr == 'get' and self.obj(n.func.value) == 'SRC' \
                and not n.keywords and len(n.args) == 2 and isinstance(n.args[0], ast.Constant) and n.args[0].value == 'Type' \
                and isinstance(n.args[1], ast.Constant) and isinstance(n.args[1].value, str):
            return '(e.type.getD %s)' % pytrans.lean_text(n.args[1].value), TEXT
        if isinstance(n, ast.UnaryOp) and isinstance(n.op, ast.Not):
            t, ty = self.expr(n.operand)
            if ty != BOOL:
                raise U('truth value of a text at %s' % where(n))
            return '(!%s)' % t, BOOL
        if isinstance(n, ast.BoolOp):
            saved = self.rc
            parts = []
            for v in n.values:
                t, ty = self.expr(v)
                if ty != BOOL:
                    raise U('truth value of a text at %s' % where(v))
                parts.append(t)
                # a later operand is evaluated only if this one was true (and) / false (or)
                g = self.guarantee(v)
                if (isinstance(n.op, ast.And) and g == 'present-if-true') or (isinstance(n.op, ast.Or) and g == 'present-if-false'):
                    self.rc = True
            self.rc = saved
            return '(' + (' && ' if isinstance(n.op, ast.And) else ' || ').join(parts) + ')', BOOL
        if isinstance(n, ast.Compare) and len(n.ops) == 1:
            op, l, r = n.ops[0], n.left, n.comparators[0]
            if isinstance(op, (ast.In, ast.NotIn)) and isinstance(l, ast.Constant) and self.obj(r) == 'SRC':
                fld = {'ReasonCode': 'reasonCode', 'Type': 'type'}.get(l.value)
                if fld is None:
                    raise U('membership test of %r at %s' % (l.value, where(n)))
                return '(e.%s.%s)' % (fld, 'isSome' if isinstance(op, ast.In) else 'isNone'), BOOL
            a, ta = self.expr(l)
            b, tb = self.expr(r)
            if ta != TEXT or tb != TEXT:
                raise U('comparison of non-texts at %s' % where(n))
            if isinstance(op, ast.Eq):
                return '(%s == %s)' % (a, b), BOOL
            if isinstance(op, ast.NotEq):
                return '(!(%s == %s))' % (a, b), BOOL
            if isinstance(op, ast.In):
                return '(isInfix %s %s)' % (a, b), BOOL
            if isinstance(op, ast.NotIn):
                return '(!(isInfix %s %s))' % (a, b), BOOL
        raise U('expression %s at %s' % (type(n).__name__, where(n)))

    def guarantee(self, n):
        """what the truth value of the test `n` says about S["ReasonCode"]"""
        if isinstance(n, ast.Compare) and len(n.ops) == 1 and isinstance(n.left, ast.Constant) and n.left.value == 'ReasonCode' \
                and self.obj(n.comparators[0]) == 'SRC':
            return 'present-if-true' if isinstance(n.ops[0], ast.In) else 'present-if-false' if isinstance(n.ops[0], ast.NotIn) else None
        if isinstance(n, ast.UnaryOp) and isinstance(n.op, ast.Not):
            g = self.guarantee(n.operand)
            return {'present-if-true': 'present-if-false', 'present-if-false': 'present-if-true'}.get(g)
        if isinstance(n, ast.BoolOp) and isinstance(n.op, ast.Or):
            # the whole disjunction is false only if every operand is false
            return 'present-if-false' if any(self.guarantee(v) == 'present-if-false' for v in n.values) else None
        if isinstance(n, ast.BoolOp) and isinstance(n.op, ast.And):
            return 'present-if-true' if any(self.guarantee(v) == 'present-if-true' for v in n.values) else None
        return None

    # ---- the function
    def run(self):
        body = pytrans.strip_docstring(self.fn.body)
        for n in ast.walk(self.fn):
            if isinstance(n, (ast.FunctionDef, ast.Lambda, ast.ListComp, ast.DictComp, ast.SetComp, ast.GeneratorExp, ast.NamedExpr, ast.Try, ast.While,
                              ast.With, ast.Global, ast.Nonlocal, ast.Delete, ast.Starred, ast.Yield, ast.YieldFrom, ast.Await, ast.Break)) and n is not self.fn:
                raise U('getErrorMessage: %s at %s' % (type(n).__name__, where(n)))
        if len(body) != 3:
            raise U('getErrorMessage: expected `out = {}`, one loop, `return out`')
        a, loop, ret = body
        if not (isinstance(a, ast.Assign) and len(a.targets) == 1 and isinstance(a.targets[0], ast.Name) and isinstance(a.value, ast.Dict) and not a.value.keys):
            raise U('getErrorMessage: the result is not started as an empty dictionary (%s)' % where(a))
        self.out = a.targets[0].id
        if self.out in self.params or self.out == self.selfname:
            raise U('getErrorMessage: parameter reassigned')
        if not (isinstance(loop, ast.For) and isinstance(loop.target, ast.Name) and not loop.orelse and isinstance(loop.iter, ast.Attribute)
                and loop.iter.attr == 'pels' and isinstance(loop.iter.value, ast.Name) and loop.iter.value.id == self.selfname):
            raise U('getErrorMessage: not a loop over self.pels (%s)' % where(loop))
        self.ev = loop.target.id
        if self.ev in self.params or self.ev in (self.selfname, self.out):
            raise U('getErrorMessage: loop variable shadows a name')
        if not self.is_out(ret, ast.Return):
            raise U('getErrorMessage: the function does not end with `return out` (%s)' % where(ret))
        keep, i, stmts = [], 0, pytrans.strip_docstring(loop.body)
        while i < len(stmts):
            st = stmts[i]
            if isinstance(st, ast.If) and not st.orelse and len(st.body) == 1 and isinstance(st.body[0], ast.Continue):
                t, ty = self.expr(st.test)
                if ty != BOOL:
                    raise U('truth value of a text at %s' % where(st))
                keep.append('(!%s)' % t)
                if self.guarantee(st.test) == 'present-if-false':
                    self.rc = True
            elif isinstance(st, ast.Assign) and len(st.targets) == 1 and isinstance(st.targets[0], ast.Name):
                nm = st.targets[0].id
                if nm in self.locals or nm in self.params or nm in (self.selfname, self.out, self.ev):
                    raise U('%s assigned twice at %s' % (nm, where(st)))
                o = self.obj(st.value)
                if o in ('SRC', 'DOC'):
                    self.locals[nm] = ('obj', o)
                else:
                    t, ty = self.expr(st.value)
                    self.locals[nm] = ('val', t, ty)
            else:
                break
            i += 1
        copy = self.hit(stmts[i:])
        return 'fun reg x1 x2 => Pel.firstHit reg\n  (fun e => %s)\n  (fun e => %s)' % (' && '.join(keep) if keep else 'true', copy)

    def is_out(self, st, kind):
        return isinstance(st, kind) and isinstance(st.value, ast.Name) and st.value.id == self.out

    def store(self, st):
        """key of `out['key'] = O['key']`, checked to copy the member of the same name from the right object"""
        if not (isinstance(st, ast.Assign) and len(st.targets) == 1 and isinstance(st.targets[0], ast.Subscript) and isinstance(st.targets[0].value, ast.Name)
                and st.targets[0].value.id == self.out and isinstance(st.targets[0].slice, ast.Constant)):
            return None
        key = st.targets[0].slice.value
        want = {'Message': ('DOC', 'Message'), 'MessageArgSources': ('DOC', 'MessageArgSources'), 'Words6To9': ('SRC', 'Words6To9')}.get(key)
        if want is None or self.member(st.value) != want:
            raise U('out[%r] is not a copy of the member of that name (%s)' % (key, where(st)))
        return key

    def has(self, n, o, key):
        return isinstance(n, ast.Compare) and len(n.ops) == 1 and isinstance(n.ops[0], ast.In) and isinstance(n.left, ast.Constant) and n.left.value == key \
            and self.obj(n.comparators[0]) == o

    def hit(self, stmts):
        if not stmts or not self.is_out(stmts[-1], ast.Return):
            raise U('getErrorMessage: the entry that is not skipped does not end with `return out`')
        seen = {}
        for st in stmts[:-1]:
            if isinstance(st, ast.If) and not st.orelse and len(st.body) == 1:
                key = self.store(st.body[0])
                if key == 'MessageArgSources' and self.has(st.test, 'DOC', key):
                    term = '(if e.argSources.isSome then e.argSources else none)'
                elif key == 'Words6To9' and isinstance(st.test, ast.BoolOp) and isinstance(st.test.op, ast.And) and len(st.test.values) == 2 \
                        and self.has(st.test.values[0], 'SRC', key) and self.member(st.test.values[1]) == ('SRC', key):
                    term = '(if e.wordsTruthy then e.words else [])'
                else:
                    raise U('conditional copy at %s' % where(st))
            else:
                key = self.store(st)
                if key != 'Message':
                    raise U('statement at %s' % where(st))
                term = 'e.message'
            if key in seen:
                raise U('out[%r] stored twice' % key)
            seen[key] = term
        if 'Message' not in seen:
            raise U('getErrorMessage: the message is not copied')
        return '{ message := %s, argSources := %s, words := %s }' % (seen['Message'], seen.get('MessageArgSources', 'none'), seen.get('Words6To9', '[]'))


def gen(repo):
    tree = pytrans.load_module_ast(repo, PY)
    return Tr(pytrans.find_def(tree, 'Registry.getErrorMessage')).run()


def generate(repo, verif):
    gf = pytrans.GenFile(verif, 'GenRegistry', ['PelModel.TransRegistry'], 'modules/pel/peltool/registry.py: Registry.getErrorMessage')

    def thunk():
        try:
            return gen(repo)
        except (OSError, SyntaxError) as e:
            raise U('registry.py cannot be parsed: %s' % e)
    gf.emit('registryGetErrorMessage', 'List RegEntry → Text → Text → Option RegHit', thunk)
    return gf


if __name__ == '__main__':
    import sys
    print(gen(sys.argv[1] if len(sys.argv) > 1 else '/repo'))
