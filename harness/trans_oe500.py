"""
Source-to-Lean translator, stream `oe500`: the shipped hardware-diagnostics parser modules (property C20).

Reads the CURRENT text of
    modules/udparsers/oe500/oe500.py      _parse_signature_list, _parse_register_dump, _parse_callout_ffdc, _parse_hb_scratch_regs,
                                          _parse_scratch_reg_sig, _parse_default, parseUDToJson (the callees inlined at the call)
    modules/srcparsers/oe500/oe500.py     parseSRCToJson
with `ast` (nothing is imported or run) and writes lean/PelGen/GenOe500.lean.  The ties are appended to lean/PelProps/TieC20.lean
(lemmas and tactics: lean/PelProofs/TieOe500.lean; vocabulary: lean/PelModel/TransOe500.lean).

HOW.  A symbolic executor in continuation-passing style walks a function body statement by statement and builds a reader
(`Rd`, the monad of the hand model: reads consume the stream, an exception ends the run).  Expressions are translated by the expression
translator of harness/trans_iodrawer.py (IMPORTED and subclassed, not copied: literals, arithmetic, comparisons, `%` / f-string / .format
formatting, lower/upper/strip, len/str/int); this module adds what the two files need on top of it: calls that read or may raise INSIDE
expressions (bound in evaluation order), lists and dictionaries as objects, counted loops with state, `if` by duplicating the
continuation, functions of the same module inlined at a `return f(...)`.  Every generated name is x<N> in binding order, so local,
parameter and function names never reach the output (except the entry points named in TARGETS).  Everything that decides behaviour is
read off the AST: widths and counts of the reads and their ORDER, slice bounds, pad widths and fill characters, format strings, dictionary
keys and their order, the sub-type numbers and which function they select, the default, comparison operators, which `ParserData` method
is called with which arguments in which order.  Anything not listed below raises pytrans.Untranslatable (-> `none`,
TRANSLATION-UNAVAILABLE); docstrings, bare string statements and `pass` are the only statements that are skipped.

TRUSTED NAME MAP / IDIOM TABLE  (Python -> Lean; `Oe.` = lean/PelModel/TransOe500.lean, `IoSem.` = lean/PelModel/IoDrawerSem.lean)
---------------------------------------------------------------------------------------------------------------------------------------
everything in the table of harness/trans_iodrawer.py that concerns pure expressions (Nat / Text / Bytes values, formatting, comparisons)
module level
  only `import m`, `from m import n`, `def` and docstrings may stand at module level (anything else: not translated); a name bound twice: refused
  global names are resolved through the module's own import statements:
     from pel.datastream import DataStream, from pel.hwdiags.parserdata import ParserData, from collections import OrderedDict, import json
  a name assigned anywhere in a function is local to it (Python scoping): it never denotes the global of the same name
entry points (parameters BY POSITION; the names do not matter)
  parseUDToJson(subtype, version, data)        -> fun cd (sub ver : Nat) (data : Bytes) : PluginOut        cd : List ChipData = what ParserData() loaded
  _parse_*(version, data)                      -> fun cd (ver : Nat) (data : Bytes) : PluginOut
  parseSRCToJson(refcode, word2 .. word9)      -> fun cd (rc w2 .. w9 : Text) : PluginOut
  a function body                              -> Oe.out (do ...): `.json j` = the function returned json.dumps(j), `.raises` = an exception left it
  return json.dumps(v)   (no keywords)         -> pure <v as a J>:  dict -> J.obj, list of str -> J.arr (l.map J.str), list of J -> J.arr, str -> J.str, None -> J.null
  return f(a, ..)   (f a function of the module, or a value selected from a dictionary of such functions)
                                               -> Oe.tail <the body of f with the arguments bound by position>
streams (pel.datastream.DataStream; the reader of PelModel/Reader.lean, tied to datastream.py by TieC05)
  S = DataStream(d, byte_order='big', is_signed=False)   -> Oe.open d       (at most one per function, never in a loop)
  S.get_int(n) / S.get_mem(n)                  -> getInt n / getMem n        (n : Nat; bound where the call stands, in evaluation order)
  b.hex() -> bytesHexL b;  b.tobytes() / bytes(b) / memoryview(b) -> b;  b.rstrip(b'c') / b.lstrip(b'c') -> rstripChar c b / lstripChar c b
  b.decode('utf8' | 'utf-8')                   -> Oe.decodeUtf8 b            (UnicodeDecodeError)
hardware diagnostics (pel.hwdiags.parserdata.ParserData; its methods are translated and tied by stream `iodrawer`, TieC20 hw_get_*)
  P = ParserData()                             -> the chip data `cd`
  P.get_signature(a, b, c)                     -> rdOfOption (IoSem.getSignatureA cd a b c)      (none = AssertionError of the callee)
  P.get_chip_desc(ec, node, chip) / get_sig_desc / get_attn_desc / get_reg_data -> rdOfOption (IoSem.chipDescA / sigDescA / attnDescA / regDataA cd ..)
  a, b = <pair>                                -> .1 / .2
json / dictionaries / lists
  json.loads(t)                                -> Oe.jsonLoads t             (ValueError; `unsupported` = outside the modelled JSON subset)
  OrderedDict() / dict() / {}                  -> a dictionary without members;  {k: v, ..} -> the assignments D[k] = v in order
  D[k] = v                                     -> member set: literal keys are resolved here (an existing key keeps its place, Python's rule);
                                                  with a computed key the dictionary is rendered as dictOf [(k, v), ..] (= foldl objSet, PelModel/TransSrc.lean)
  D[K].append(v) / L.append(v) / L.extend(M)   -> the list ++ [v] / ++ M  (lists are objects: a list that is stored in a dictionary or bound to a
                                                  second name may not be changed afterwards: refused)
  {k1: f1, ..}.get(x, d)  (distinct int literals)  -> if x == k1 then f1 else .. else d      (selection of a function, or of a value)
  t[a:b] (a, b non-negative ints, not only literals) -> IoSem.slice t a b;  t[a:] -> List.drop a t
  t.ljust(w) / t.ljust(w, 'c')                 -> ljust w 32 t / ljust w c t;   sep.join(L) -> joinWith sep L
control
  x = e  (e pure)                              -> the value itself, or `let xN := e` when the term is large
  if c: A else: B  followed by REST            -> if c then A;REST else B;REST     (the continuation is duplicated)
  for i in range([a,] b[, k]): BODY  (k a positive literal; no break / continue / return / else)
        state = the variables (and dictionary members) that BODY changes and that exist before the loop, in order of first binding;
        names first bound inside BODY are local to one iteration (using them after the loop: refused); the loop variable likewise
        BODY reads or may raise  -> forRangeRd a b (fun i st => BODY ; pure st') init          (k = 1; PelModel/TransSrc.lean)
                                    Oe.forStepRd a b k (fun i st => ..) init                   (k > 1)
        BODY is pure             -> Oe.forPure a b k (fun i st => st') init
  and / or / conditional expressions / chained comparisons: operands must be free of reads and raising calls (no short-circuit effects)
"""
import ast
import re

import pytrans
from pytrans import Untranslatable as U
import trans_iodrawer as iod
from trans_iodrawer import V, NAT, INT, BOOL, TEXT, BYTES, NONE, where

JSON = 'json'
UD_PY = 'udparsers/oe500/oe500.py'
SRC_PY = 'srcparsers/oe500/oe500.py'

# what a global name of the module means: (kind of binding) -> tag
GLOBALS = {
    ('from', 'pel.datastream', 'DataStream'): 'DataStream',
    ('from', 'pel.hwdiags.parserdata', 'ParserData'): 'ParserData',
    ('from', 'collections', 'OrderedDict'): 'OrderedDict',
    ('mod', 'json'): 'json',
}
BUILTINS = ('range', 'len', 'dict', 'bytes', 'memoryview', 'str', 'int', 'list', 'tuple')
# ParserData method -> (model function behind its assertions, parameter types, result type)
PARSER_METHODS = {
    'get_signature': ('IoSem.getSignatureA', [TEXT, TEXT, TEXT], JSON),
    'get_chip_desc': ('IoSem.chipDescA', [TEXT, NAT, NAT], TEXT),
    'get_sig_desc': ('IoSem.sigDescA', [TEXT, TEXT, NAT, NAT], TEXT),
    'get_attn_desc': ('IoSem.attnDescA', [TEXT, NAT], TEXT),
    'get_reg_data': ('IoSem.regDataA', [TEXT, TEXT, NAT], ('tuple', (TEXT, TEXT))),
}
MUTATORS = ('append', 'extend')
OTHER_MUTATORS = ('insert', 'pop', 'remove', 'clear', 'sort', 'reverse', 'update', 'setdefault', 'popitem', 'move_to_end', '__setitem__', '__delitem__')
LEAN_TY = {NAT: 'Nat', INT: 'Int', BOOL: 'Bool', TEXT: 'Text', BYTES: 'Bytes', JSON: 'J'}


def lean_ty(ty):
    if ty in LEAN_TY:
        return LEAN_TY[ty]
    if isinstance(ty, tuple) and ty[0] == 'list' and ty[1] is not None:
        return 'List (%s)' % lean_ty(ty[1])
    if isinstance(ty, tuple) and ty[0] == 'tuple':
        return ' × '.join('(%s)' % lean_ty(t) for t in ty[1])
    raise U('no Lean type for %s' % (ty,))


def atomic(t):
    return re.fullmatch(r'[A-Za-z_][A-Za-z0-9_]*(\.[0-9])*|\d+', t) is not None


def par(t):
    """`t` as an argument: parenthesised unless it is an identifier, a numeral, or already one bracketed group"""
    if atomic(t):
        return t
    if t[:1] in '([' and t[-1:] in ')]':
        depth = 0
        for i, c in enumerate(t):
            if c in '([':
                depth += 1
            elif c in ')]':
                depth -= 1
                if depth == 0 and i != len(t) - 1:
                    break
        else:
            return t
    return '(%s)' % t


def is_list(ty):
    return isinstance(ty, tuple) and ty[0] == 'list'


# ---------------------------------------------------------------------------------------------------------------------
# module facts

class Mod:
    def __init__(self, repo, rel):
        self.rel = rel
        self.tree = pytrans.load_module_ast(repo, rel)
        self.names = {}
        for st in self.tree.body:
            if isinstance(st, ast.Import):
                for a in st.names:
                    if a.asname is None and '.' in a.name:
                        self._bind(a.name.split('.')[0], ('mod', a.name.split('.')[0]), st)
                    else:
                        self._bind(a.asname or a.name, ('mod', a.name), st)
            elif isinstance(st, ast.ImportFrom):
                if st.level:
                    raise U('%s: relative import' % rel)
                for a in st.names:
                    if a.name == '*':
                        raise U('%s: star import' % rel)
                    self._bind(a.asname or a.name, ('from', st.module, a.name), st)
            elif isinstance(st, ast.FunctionDef):
                self._bind(st.name, ('def', st), st)
            elif isinstance(st, ast.Expr) and isinstance(st.value, ast.Constant) and isinstance(st.value.value, str):
                pass
            else:
                raise U('%s: module-level statement %s at %s' % (rel, type(st).__name__, where(st)))
        for n in ast.walk(self.tree):
            if isinstance(n, (ast.Global, ast.Nonlocal)):
                raise U('%s uses global/nonlocal' % rel)

    def _bind(self, name, what, st):
        if name in self.names:
            raise U('%s: the global name %s is bound twice (%s)' % (self.rel, name, where(st)))
        self.names[name] = what

    def fn(self, name):
        b = self.names.get(name)
        if b is None or b[0] != 'def':
            raise U('%s: no function %s' % (self.rel, name))
        return check_def(b[1])


def check_def(f):
    if f.decorator_list:
        raise U('%s has decorators' % f.name)
    a = f.args
    if a.vararg or a.kwarg or a.kwonlyargs or a.posonlyargs or a.defaults or a.kw_defaults:
        raise U('%s: unexpected argument list' % f.name)
    names = [x.arg for x in a.args]
    if len(set(names)) != len(names):
        raise U('%s: duplicate parameter' % f.name)
    for n in ast.walk(f):
        if n is not f and isinstance(n, (ast.FunctionDef, ast.AsyncFunctionDef, ast.Lambda, ast.ClassDef, ast.ListComp, ast.SetComp, ast.DictComp,
                                         ast.GeneratorExp, ast.Import, ast.ImportFrom, ast.Delete, ast.NamedExpr, ast.Await, ast.Yield, ast.YieldFrom,
                                         ast.Starred)):
            raise U('%s: %s at %s' % (f.name, type(n).__name__, where(n)))
    return f


def local_names(f):
    out = {x.arg for x in f.args.args}
    for n in ast.walk(f):
        if isinstance(n, ast.Name) and isinstance(n.ctx, (ast.Store, ast.Del)):
            out.add(n.id)
    return out


# ---------------------------------------------------------------------------------------------------------------------
# blocks: steps and a terminator

class Blk:
    def __init__(self):
        self.steps = []          # ('bind', x, term) | ('let', x, term) | ('act', None, term)
        self.term = None         # ('pure', term) | ('tail', term) | ('if', cond, Blk, Blk)

    def is_pure(self):
        if any(k != 'let' for k, _, _ in self.steps):
            return False
        if self.term[0] == 'pure':
            return True
        if self.term[0] == 'if':
            return self.term[2].is_pure() and self.term[3].is_pure()
        return False

    def render(self, monadic, ind):
        pad = '  ' * ind
        lines = []
        for k, x, t in self.steps:
            t = t.replace('\n', '\n' + pad)
            if k == 'bind':
                lines.append('%slet %s ← %s' % (pad, x, t))
            elif k == 'let':
                lines.append('%slet %s := %s' % (pad, x, t))
            else:
                lines.append('%s%s' % (pad, t))
        k = self.term
        if k is None:
            raise U('internal: block without an end')
        if k[0] == 'pure':
            lines.append(pad + ('pure ' + par(k[1]) if monadic else k[1]).replace('\n', '\n' + pad))
        elif k[0] == 'tail':
            if not monadic:
                raise U('internal: tail call in a pure block')
            lines.append((pad + 'Oe.tail ' + par(k[1])).replace('\n', '\n' + pad))
        else:
            lines.append('%sif %s then' % (pad, k[1]))
            lines.append(sub_block(k[2], monadic, ind + 1))
            lines.append('%selse' % pad)
            lines.append(sub_block(k[3], monadic, ind + 1))
        return '\n'.join(lines)


def sub_block(blk, monadic, ind):
    pad = '  ' * ind
    if monadic:
        return '%s(do\n%s)' % (pad, blk.render(True, ind + 1))
    return '%s(\n%s)' % (pad, blk.render(False, ind + 1))


POISON = 'poison'


class Shared:
    """what the executors of one generated definition share: the name counter, the element types of `[]` literals, object identities"""

    def __init__(self):
        self.n = 0
        self.ph = {}             # placeholder -> Lean type
        self.oid = 0
        self.frozen = set()

    def fresh(self, p='x'):
        self.n += 1
        return '%s%d' % (p, self.n)

    def new_oid(self):
        self.oid += 1
        return self.oid


def mk(t, ty, **kw):
    v = V(t, ty)
    v.lit = None
    for k, x in kw.items():
        setattr(v, k, x)
    return v


def clone(v, t):
    w = V(t, v.ty, v.raises, v.sym)
    for k, x in v.__dict__.items():
        if k not in ('t',):
            setattr(w, k, x)
    w.t = t
    return w


# ---------------------------------------------------------------------------------------------------------------------
# the executor

class Ex(iod.Tr):
    def __init__(self, mod, sh, stack):
        super().__init__(None, None, 'pure')
        self.m = mod
        self.sh = sh
        self.stack = stack
        self.blk = None
        self.loop_depth = 0
        self.locals = set()
        self.nbinds = 0

    def fresh(self):
        return self.sh.fresh()

    # --- steps
    def bind(self, term, ty):
        x = self.fresh()
        self.blk.steps.append(('bind', x, term))
        self.nbinds += 1
        return mk(x, ty)

    def act(self, term):
        self.blk.steps.append(('act', None, term))
        self.nbinds += 1

    def let(self, v):
        """a pure value that is about to get a name: itself when small, else a `let`"""
        if v.ty in (NAT, INT, BOOL, TEXT, BYTES, JSON) or is_list(v.ty) or (isinstance(v.ty, tuple) and v.ty[0] == 'tuple'):
            if atomic(v.t) or len(v.t) <= 28 or '‹' in v.t:
                return v
            x = self.fresh()
            self.blk.steps.append(('let', x, v.t))
            return clone(v, x)
        return v

    def no_effects(self, f, what, node):
        n = self.nbinds
        r = f()
        if self.nbinds != n:
            raise U('%s with a read or a raising call inside at %s' % (what, where(node)))
        return r

    def ev(self, node, env, blk):
        self.blk = blk
        v = self.expr(node, env)
        if not hasattr(v, 'lit'):
            v.lit = None
        return v

    def ev_stored(self, node, env, blk):
        """a value that is stored somewhere (assignment, member, element): a REFERENCE to a list / dictionary makes the object shared"""
        v = self.ev(node, env, blk)
        if v.ty == 'dict' or is_list(v.ty):
            if isinstance(node, (ast.Name, ast.Subscript, ast.Attribute)):
                self.sh.frozen.add(v.oid)
        return v

    # --- expressions (overrides of trans_iodrawer.Tr) ----------------------------------------------------------------
    def e_Constant(self, node, env):
        v = super().e_Constant(node, env)
        v.lit = node.value if isinstance(node.value, (str, bytes)) or (isinstance(node.value, int) and not isinstance(node.value, bool)) else None
        return v

    def e_Name(self, node, env):
        n = node.id
        if n in env:
            v = env[n]
            if v.ty == POISON:
                raise U('%s is used after the loop that bound it (%s)' % (n, where(node)))
            return v
        if n in self.locals:
            raise U('local name %s used before it is assigned (%s)' % (n, where(node)))
        b = self.m.names.get(n)
        if b is not None:
            if b in GLOBALS:
                return mk('‹%s›' % GLOBALS[b], ('global', GLOBALS[b]))
            if b[0] == 'def':
                return mk('‹function›', 'func', fn=b[1])
            raise U('the global name %s (%s) is not in the name map (%s)' % (n, b[1:], where(node)))
        if n in BUILTINS:
            return mk('‹%s›' % n, ('builtin', n))
        raise U('unknown name %s at %s' % (n, where(node)))

    def e_Attribute(self, node, env):
        raise U('attribute .%s outside a call at %s' % (node.attr, where(node)))

    def e_BoolOp(self, node, env):
        return self.no_effects(lambda: iod.Tr.e_BoolOp(self, node, env), 'and/or', node)

    def e_IfExp(self, node, env):
        return self.no_effects(lambda: iod.Tr.e_IfExp(self, node, env), 'conditional expression', node)

    def e_Compare(self, node, env):
        if len(node.ops) > 1:
            return self.no_effects(lambda: iod.Tr.e_Compare(self, node, env), 'chained comparison', node)
        return super().e_Compare(node, env)

    def cond(self, node, env):
        if isinstance(node, ast.BoolOp):
            return self.no_effects(lambda: iod.Tr.cond(self, node, env), 'and/or', node)
        return super().cond(node, env)

    def e_Tuple(self, node, env):
        vs = [self.expr(x, env) for x in node.elts]
        if len(vs) < 2:
            raise U('short tuple at %s' % where(node))
        for v in vs:
            if v.ty not in (NAT, INT, TEXT, BYTES, BOOL, JSON):
                raise U('tuple element of type %s at %s' % (v.ty, where(node)))
        return mk('(' + ', '.join(v.t for v in vs) + ')', ('tuple', tuple(v.ty for v in vs)), elts=vs)

    def e_List(self, node, env):
        if node.elts:
            vs = [self.expr(x, env) for x in node.elts]
            vs = [self.storable(v, node) for v in vs]
            if any(v.ty != vs[0].ty for v in vs):
                raise U('mixed list at %s' % where(node))
            return mk('[' + ', '.join(v.t for v in vs) + ']', ('list', vs[0].ty), oid=self.sh.new_oid(), ph=None)
        ph = '‹T%d›' % self.sh.new_oid()
        return mk('([] : List %s)' % ph, ('list', None), oid=self.sh.new_oid(), ph=ph)

    def e_Dict(self, node, env):
        items = []
        for kn, vn in zip(node.keys, node.values):
            if kn is None:
                raise U('** in a dictionary display at %s' % where(node))
            k = self.expr(kn, env)
            if not hasattr(k, 'lit'):
                k.lit = None
            v = self.ev_stored(vn, env, self.blk)
            items.append((k, v))
        return mk('‹dict›', 'dict', items=items, oid=self.sh.new_oid())

    def e_Subscript(self, node, env):
        sl = node.slice
        if isinstance(sl, ast.Slice):
            if sl.step is not None:
                raise U('slice step at %s' % where(node))
            v = self.expr(node.value, env)
            if v.ty not in (TEXT, BYTES) and not (is_list(v.ty) and v.ty[1] is not None):
                raise U('slice of %s at %s' % (v.ty, where(node)))
            lo = None if sl.lower is None else self.need(self.expr(sl.lower, env), NAT, node)
            hi = None if sl.upper is None else self.need(self.expr(sl.upper, env), NAT, node)
            if hi is None:
                if lo is None:
                    return mk(v.t, v.ty)
                return mk('(List.drop %s %s)' % (par(lo.t), par(v.t)), v.ty)
            return mk('(IoSem.slice %s %s %s)' % (par(v.t), par(lo.t) if lo is not None else '0', par(hi.t)), v.ty)
        v = self.expr(node.value, env)
        if v.ty == 'dict':
            k = self.expr(sl, env)
            return self.dict_get(v, k, node)
        if isinstance(v.ty, tuple) and v.ty[0] == 'tuple' and isinstance(sl, ast.Constant) and isinstance(sl.value, int) and not isinstance(sl.value, bool):
            n = len(v.ty[1])
            if 0 <= sl.value < n:
                return self.tuple_proj(v, sl.value)
        raise U('subscript at %s' % where(node))

    def tuple_proj(self, v, i):
        n = len(v.ty[1])
        if getattr(v, 'elts', None):
            return v.elts[i]
        return mk('%s%s' % (par(v.t), '.2' * i + ('.1' if i < n - 1 else '')), v.ty[1][i])

    def dict_get(self, d, k, node):
        if getattr(k, 'lit', None) is None or any(getattr(k0, 'lit', None) is None for k0, _ in d.items):
            raise U('dictionary look-up with a computed key at %s' % where(node))
        found = None
        for k0, v0 in d.items:
            if k0.lit == k.lit and type(k0.lit) is type(k.lit):
                found = v0
        if found is None:
            raise U('dictionary look-up of a key that was not set (%s)' % where(node))
        return found

    # --- calls
    def e_Call(self, node, env):
        f = node.func
        kw = {k.arg: k.value for k in node.keywords}
        if None in kw:
            raise U('**kwargs at %s' % where(node))
        if isinstance(f, ast.Name):
            fv = self.e_Name(f, env)
            if isinstance(fv.ty, tuple) and fv.ty[0] == 'global':
                return self.call_mapped(fv.ty[1], node, kw, env)
            if isinstance(fv.ty, tuple) and fv.ty[0] == 'builtin':
                return self.call_builtin(fv.ty[1], node, kw, env)
            raise U('call of %s outside `return` at %s' % (f.id, where(node)))
        if isinstance(f, ast.Attribute):
            if isinstance(f.value, ast.Constant) and isinstance(f.value.value, str) and f.attr == 'format':
                return self.str_format(f.value, node.args, kw, env, node)
            recv = self.expr(f.value, env)
            return self.call_on(recv, f.attr, node, kw, env)
        raise U('call at %s' % where(node))

    def plain_args(self, node, kw, n, what):
        if kw or len(node.args) != n:
            raise U('%s: %d positional argument(s) expected at %s' % (what, n, where(node)))

    def call_mapped(self, tag, node, kw, env):
        if tag == 'DataStream':
            if self.loop_depth:
                raise U('DataStream created inside a loop at %s' % where(node))
            if len(node.args) != 1 or set(kw) != {'byte_order', 'is_signed'} or pytrans.const_str(kw['byte_order']) != 'big':
                raise U('DataStream(...) of an unknown shape at %s' % where(node))
            sg = kw['is_signed']
            if not (isinstance(sg, ast.Constant) and sg.value is False):
                raise U('DataStream(..., is_signed=...) at %s' % where(node))
            d = self.need(self.expr(node.args[0], env), BYTES, node)
            self.act('Oe.open %s' % par(d.t))
            return mk('‹stream›', 'stream')
        if tag == 'ParserData':
            self.plain_args(node, kw, 0, 'ParserData()')
            return mk('‹parser›', 'parser')
        if tag == 'OrderedDict':
            self.plain_args(node, kw, 0, 'OrderedDict()')
            return mk('‹dict›', 'dict', items=[], oid=self.sh.new_oid())
        raise U('call of %s at %s' % (tag, where(node)))

    def call_builtin(self, name, node, kw, env):
        if name == 'dict':
            self.plain_args(node, kw, 0, 'dict()')
            return mk('‹dict›', 'dict', items=[], oid=self.sh.new_oid())
        if name in ('bytes', 'memoryview'):
            self.plain_args(node, kw, 1, name + '()')
            return self.need(self.expr(node.args[0], env), BYTES, node)
        if name in ('str', 'int', 'len'):
            v = iod.Tr.call_global(self, name, node.args, kw, env, node)
            v.lit = None
            return v
        raise U('call of %s() at %s' % (name, where(node)))

    def call_on(self, recv, name, node, kw, env):
        args = node.args
        if isinstance(recv.ty, tuple) and recv.ty[0] == 'global' and recv.ty[1] == 'json':
            if name == 'loads':
                self.plain_args(node, kw, 1, 'json.loads')
                t = self.need(self.expr(args[0], env), TEXT, node)
                return self.bind('Oe.jsonLoads %s' % par(t.t), JSON)
            raise U('json.%s outside `return json.dumps(..)` at %s' % (name, where(node)))
        if recv.ty == 'stream':
            if name in ('get_int', 'get_mem'):
                self.plain_args(node, kw, 1, 'stream.' + name)
                n = self.need(self.expr(args[0], env), NAT, node)
                return self.bind('%s %s' % ('getInt' if name == 'get_int' else 'getMem', par(n.t)), NAT if name == 'get_int' else BYTES)
            raise U('stream operation %s at %s' % (name, where(node)))
        if recv.ty == 'parser':
            if name not in PARSER_METHODS:
                raise U('ParserData.%s is not in the name map (%s)' % (name, where(node)))
            lean, tys, ret = PARSER_METHODS[name]
            self.plain_args(node, kw, len(tys), 'ParserData.' + name)
            vs = [self.need(self.expr(a, env), ty, node) for a, ty in zip(args, tys)]
            return self.bind('rdOfOption (%s cd %s)' % (lean, ' '.join(par(v.t) for v in vs)), ret)
        if recv.ty == BYTES:
            if name == 'hex':
                self.plain_args(node, kw, 0, 'bytes.hex')
                return mk('(bytesHexL %s)' % par(recv.t), TEXT)
            if name == 'tobytes':
                self.plain_args(node, kw, 0, 'tobytes')
                return recv
            if name in ('rstrip', 'lstrip'):
                self.plain_args(node, kw, 1, 'bytes.' + name)
                c = args[0]
                if not (isinstance(c, ast.Constant) and isinstance(c.value, bytes) and len(c.value) == 1):
                    raise U('bytes.%s with something else than a one-byte literal at %s' % (name, where(node)))
                return mk('(%s %d %s)' % ('rstripChar' if name == 'rstrip' else 'lstripChar', c.value[0], par(recv.t)), BYTES)
            if name == 'decode':
                self.plain_args(node, kw, 1, 'bytes.decode')
                if pytrans.const_str(args[0]) not in ('utf8', 'utf-8'):
                    raise U('decode with an encoding that is not in the name map (%s)' % where(node))
                return self.bind('Oe.decodeUtf8 %s' % par(recv.t), TEXT)
        if recv.ty == TEXT:
            if name == 'ljust':
                if kw or len(args) not in (1, 2):
                    raise U('ljust at %s' % where(node))
                w = self.need(self.expr(args[0], env), NAT, node)
                fill = 32
                if len(args) == 2:
                    c = pytrans.const_str(args[1])
                    if len(c) != 1:
                        raise U('ljust with a fill text of length %d' % len(c))
                    fill = ord(c)
                return mk('(ljust %s %d %s)' % (par(w.t), fill, par(recv.t)), TEXT)
            if name == 'join':
                self.plain_args(node, kw, 1, 'str.join')
                l = self.expr(args[0], env)
                if not is_list(l.ty):
                    raise U('join of %s at %s' % (l.ty, where(node)))
                self.elt(l, TEXT, node)
                return mk('(joinWith %s %s)' % (par(recv.t), par(l.t)), TEXT)
            v = iod.Tr.call_method(self, recv, name, args, kw, env, node)
            v.lit = None
            return v
        if recv.ty == 'dict' and name == 'get':
            self.plain_args(node, kw, 2, 'dict.get')
            k = self.need(self.expr(args[0], env), NAT, node)
            d = self.expr(args[1], env)
            cases = []
            for k0, v0 in recv.items:
                if not (k0.ty == NAT and isinstance(getattr(k0, 'lit', None), int)):
                    raise U('dict.get on a dictionary whose keys are not int literals (%s)' % where(node))
                if any(k0.lit == c for c, _ in cases):
                    raise U('dictionary with a repeated key %d (%s)' % (k0.lit, where(node)))
                cases.append((k0.lit, v0))
            return self.choice(k, cases, d, node)
        raise U('method .%s() on %s at %s' % (name, recv.ty, where(node)))

    def choice(self, k, cases, d, node):
        vals = [v for _, v in cases] + [d]
        if all(v.ty == 'func' for v in vals):
            return mk('‹choice›', 'choice', scrut=k, cases=cases, default=d)
        if all(v.ty == vals[0].ty and v.ty in (NAT, TEXT, BYTES, JSON) for v in vals):
            t = d.t
            for c, v in reversed(cases):
                t = '(if (%s == %d) then %s else %s)' % (par(k.t), c, v.t, t)
            return mk(t, vals[0].ty)
        raise U('dict.get over values of type %s at %s' % (sorted({str(v.ty) for v in vals}), where(node)))

    def elt(self, l, ty, node):
        """the element type of list `l` is `ty` (an empty literal takes it)"""
        if l.ty[1] is None:
            self.resolve(l.ph, ty)
        elif l.ty[1] != ty:
            raise U('list of %s where a list of %s is needed (%s)' % (l.ty[1], ty, where(node)))

    def resolve(self, ph, ty):
        lt = lean_ty(ty)
        if self.sh.ph.get(ph, lt) != lt:
            raise U('an empty list literal is used with two element types')
        self.sh.ph[ph] = lt

    # --- JSON
    def storable(self, v, node):
        """what a list element / dictionary member is on the Lean side"""
        if v.ty == 'dict':
            return mk(self.to_json(v, node), JSON)
        if v.ty in (NAT, INT, BOOL, TEXT, BYTES, JSON) or is_list(v.ty):
            return v
        raise U('a %s is stored in a container at %s' % (v.ty, where(node)))

    def to_json(self, v, node):
        if v.ty == JSON:
            return v.t
        if v.ty == TEXT:
            return '(J.str %s)' % par(v.t)
        if v.ty == NONE:
            return 'J.null'
        if v.ty == BOOL:
            return '(J.bool %s)' % par(v.t)
        if v.ty == NAT:
            return '(J.num ((%s : Nat) : Int))' % v.t
        if is_list(v.ty):
            if v.ty[1] is None:
                self.resolve(v.ph, JSON)
                return '(J.arr %s)' % par(v.t)
            if v.ty[1] == JSON:
                return '(J.arr %s)' % par(v.t)
            if v.ty[1] == TEXT:
                return '(J.arr (List.map J.str %s))' % par(v.t)
            raise U('json.dumps of a list of %s at %s' % (v.ty[1], where(node)))
        if v.ty == 'dict':
            for k, _ in v.items:
                if k.ty != TEXT:
                    raise U('json.dumps of a dictionary with a key of type %s at %s' % (k.ty, where(node)))
            if all(isinstance(getattr(k, 'lit', None), str) for k, _ in v.items):
                final = []
                for k, x in v.items:
                    for e in final:
                        if e[0].lit == k.lit:
                            e[1] = x
                            break
                    else:
                        final.append([k, x])
                return '(J.obj [%s])' % ', '.join('(%s, %s)' % (k.t, self.to_json(x, node)) for k, x in final)
            return '(J.obj (dictOf [%s]))' % ', '.join('(%s, %s)' % (k.t, self.to_json(x, node)) for k, x in v.items)
        raise U('json.dumps of a %s at %s' % (v.ty, where(node)))

    # --- places (a variable, or a literal member of a dictionary variable) --------------------------------------------
    def place_of(self, node, env):
        if isinstance(node, ast.Name):
            return node.id
        if isinstance(node, ast.Subscript) and isinstance(node.value, ast.Name) and isinstance(node.slice, ast.Constant) and isinstance(node.slice.value, str):
            return (node.value.id, node.slice.value)
        raise U('this is not a variable or a member of a dictionary variable (%s)' % where(node))

    def get_place(self, env, p, node):
        if isinstance(p, str):
            if p not in env:
                if p in self.locals:
                    raise U('local name %s used before it is assigned (%s)' % (p, where(node)))
                raise U('unknown name %s at %s' % (p, where(node)))
            v = env[p]
            if v.ty == POISON:
                raise U('%s is used after the loop that bound it (%s)' % (p, where(node)))
            return v
        d = self.get_place(env, p[0], node)
        if d.ty != 'dict':
            raise U('%s is not a dictionary (%s)' % (p[0], where(node)))
        for k0, v0 in d.items:
            if getattr(k0, 'lit', None) is None:
                raise U('member of a dictionary with computed keys at %s' % where(node))
        hit = [v0 for k0, v0 in d.items if k0.lit == p[1]]
        if not hit:
            raise U('member %r was not set (%s)' % (p[1], where(node)))
        return hit[-1]

    def set_place(self, env, p, v, node):
        """env is a private copy"""
        if isinstance(p, str):
            env[p] = v
            return
        d = self.get_place(env, p[0], node)
        if d.oid in self.sh.frozen:
            raise U('a dictionary that is shared is changed at %s' % where(node))
        items = []
        done = False
        for k0, v0 in d.items:
            if k0.lit == p[1] and not done:
                items.append((k0, v))
                done = True
            elif k0.lit == p[1]:
                continue
            else:
                items.append((k0, v0))
        if not done:
            items.append((mk(pytrans.lean_text(p[1]) if p[1] else '([] : Text)', TEXT, lit=p[1]), v))
        env[p[0]] = mk('‹dict›', 'dict', items=items, oid=d.oid)

    # --- statements ---------------------------------------------------------------------------------------------------
    def exec_block(self, stmts, env, blk, cont):
        if not stmts:
            return cont(env, blk)
        st, rest = stmts[0], stmts[1:]
        if isinstance(st, ast.Return) and rest:
            raise U('statements after return at %s' % where(st))
        h = getattr(self, 'x_' + type(st).__name__, None)
        if h is None:
            raise U('statement %s at %s' % (type(st).__name__, where(st)))
        return h(st, env, blk, lambda e, b: self.exec_block(rest, e, b, cont))

    def x_Assign(self, st, env, blk, cont):
        if len(st.targets) != 1:
            raise U('chained assignment at %s' % where(st))
        tgt = st.targets[0]
        env = dict(env)
        v = self.ev_stored(st.value, env, blk)
        if isinstance(tgt, ast.Name):
            env[tgt.id] = self.let(v)
            return cont(env, blk)
        if isinstance(tgt, (ast.Tuple, ast.List)):
            if not (isinstance(v.ty, tuple) and v.ty[0] == 'tuple') or len(v.ty[1]) != len(tgt.elts):
                raise U('unpacking of %s at %s' % (v.ty, where(st)))
            if not all(isinstance(e, ast.Name) for e in tgt.elts) or len({e.id for e in tgt.elts}) != len(tgt.elts):
                raise U('unpacking target at %s' % where(st))
            if not getattr(v, 'elts', None) and not atomic(v.t):
                x = self.fresh()
                blk.steps.append(('let', x, v.t))
                v = clone(v, x)
            for i, e in enumerate(tgt.elts):
                env[e.id] = self.tuple_proj(v, i)
            return cont(env, blk)
        if isinstance(tgt, ast.Subscript) and isinstance(tgt.value, ast.Name):
            if self.loop_depth:
                raise U('dictionary item assignment inside a loop at %s' % where(st))
            d = self.get_place(env, tgt.value.id, st)
            if d.ty != 'dict':
                raise U('item assignment to a %s at %s' % (d.ty, where(st)))
            if d.oid in self.sh.frozen:
                raise U('a dictionary that is shared is changed at %s' % where(st))
            k = self.ev(tgt.slice, env, blk)
            if k.ty != TEXT:
                raise U('dictionary key of type %s at %s' % (k.ty, where(st)))
            v = self.let(v) if v.ty not in ('dict',) else v
            env[tgt.value.id] = mk('‹dict›', 'dict', items=d.items + [(k, v)], oid=d.oid)
            return cont(env, blk)
        raise U('assignment target at %s' % where(st))

    def x_AnnAssign(self, st, env, blk, cont):
        if st.value is None or not st.simple or not isinstance(st.target, ast.Name):
            raise U('annotated assignment at %s' % where(st))
        fake = ast.Assign(targets=[st.target], value=st.value)
        ast.copy_location(fake, st)
        return self.x_Assign(fake, env, blk, cont)

    def x_AugAssign(self, st, env, blk, cont):
        if not isinstance(st.target, ast.Name):
            raise U('augmented assignment target at %s' % where(st))
        cur = self.get_place(env, st.target.id, st)
        if cur.ty not in (NAT, TEXT):
            raise U('augmented assignment to a %s at %s' % (cur.ty, where(st)))
        fake = ast.Assign(targets=[ast.Name(id=st.target.id, ctx=ast.Store())],
                          value=ast.BinOp(left=ast.Name(id=st.target.id, ctx=ast.Load()), op=st.op, right=st.value))
        ast.copy_location(fake, st)
        ast.fix_missing_locations(fake)
        return self.x_Assign(fake, env, blk, cont)

    def x_Expr(self, st, env, blk, cont):
        call = st.value
        if not isinstance(call, ast.Call) or not isinstance(call.func, ast.Attribute):
            raise U('expression statement at %s' % where(st))
        f = call.func
        env = dict(env)
        if f.attr in MUTATORS:
            if call.keywords or len(call.args) != 1:
                raise U('%s at %s' % (f.attr, where(st)))
            p = self.place_of(f.value, env)
            cur = self.get_place(env, p, st)
            if not is_list(cur.ty):
                raise U('.%s() on a %s at %s' % (f.attr, cur.ty, where(st)))
            if cur.oid in self.sh.frozen:
                raise U('a list that is shared (stored in a dictionary or bound to a second name) is changed at %s' % where(st))
            v = self.ev_stored(call.args[0], env, blk)
            cur = self.get_place(env, p, st)
            if f.attr == 'append':
                v = self.storable(v, st)
                if is_list(v.ty):
                    raise U('list of lists at %s' % where(st))
                self.elt(cur, v.ty, st)
                nv = mk('(%s ++ [%s])' % (cur.t, v.t), ('list', v.ty), oid=cur.oid, ph=cur.ph)
            else:
                if not is_list(v.ty):
                    raise U('extend with a %s at %s' % (v.ty, where(st)))
                if v.ty[1] is None and cur.ty[1] is None:
                    raise U('extend of an empty list by an empty list at %s' % where(st))
                if v.ty[1] is None:
                    self.elt(v, cur.ty[1], st)
                self.elt(cur, v.ty[1] if v.ty[1] is not None else cur.ty[1], st)
                nv = mk('(%s ++ %s)' % (cur.t, v.t), ('list', v.ty[1] if v.ty[1] is not None else cur.ty[1]), oid=cur.oid, ph=cur.ph)
            x = self.fresh()
            blk.steps.append(('let', x, nv.t))
            self.set_place(env, p, clone(nv, x), st)
            return cont(env, blk)
        # a read whose value is dropped (skipping bytes)
        recv = self.ev(f.value, env, blk)
        if recv.ty == 'stream' and f.attr in ('get_int', 'get_mem'):
            self.ev(call, env, blk)
            return cont(env, blk)
        raise U('call statement at %s' % where(st))

    def x_If(self, st, env, blk, cont):
        body, orelse = pytrans.strip_docstring(st.body), pytrans.strip_docstring(st.orelse)
        if not body:
            raise U('empty if body at %s' % where(st))
        self.blk = blk
        c = self.cond(st.test, env)
        b1, b2 = Blk(), Blk()
        self.exec_block(body, dict(env), b1, cont)
        self.exec_block(orelse, dict(env), b2, cont)
        blk.term = ('if', c, b1, b2)

    def x_Return(self, st, env, blk, cont):
        if self.loop_depth:
            raise U('return inside a loop at %s' % where(st))
        c = st.value
        if not isinstance(c, ast.Call):
            raise U('return of something that is not json.dumps(..) or a call of a function of the module (%s)' % where(st))
        if c.keywords:
            raise U('keyword arguments in the returned call at %s' % where(st))
        f = c.func
        if isinstance(f, ast.Attribute) and f.attr == 'dumps':
            recv = self.ev(f.value, env, blk)
            if not (isinstance(recv.ty, tuple) and recv.ty == ('global', 'json')):
                raise U('.dumps of something that is not the json module at %s' % where(st))
            if len(c.args) != 1:
                raise U('json.dumps with %d arguments at %s' % (len(c.args), where(st)))
            v = self.ev(c.args[0], env, blk)
            blk.term = ('pure', self.to_json(v, st))
            return
        fv = self.ev(f, env, blk)
        if fv.ty not in ('func', 'choice'):
            raise U('return of a call of %s at %s' % (fv.ty, where(st)))
        args = []
        for a in c.args:
            v = self.ev(a, env, blk)
            if v.ty not in (NAT, TEXT, BYTES):
                raise U('argument of type %s in a call of a function of the module at %s' % (v.ty, where(st)))
            args.append(self.let(v))
        if fv.ty == 'func':
            blk.term = ('tail', self.inline(fv.fn, args, st))
            return
        cur = blk
        for k, v in fv.cases:
            b1, b2 = Blk(), Blk()
            b1.term = ('tail', self.inline(v.fn, args, st))
            cur.term = ('if', '(%s == %d)' % (par(fv.scrut.t), k), b1, b2)
            cur = b2
        cur.term = ('tail', self.inline(fv.default.fn, args, st))

    def inline(self, f, args, node):
        if f.name in self.stack:
            raise U('recursive call of %s at %s' % (f.name, where(node)))
        if len(self.stack) > 4:
            raise U('call depth at %s' % where(node))
        check_def(f)
        sub = Ex(self.m, self.sh, self.stack + [f.name])
        return sub.function_term(f, args)

    def function_term(self, f, args):
        names = [a.arg for a in f.args.args]
        if len(names) != len(args):
            raise U('%s has %d parameters, %d arguments are passed' % (f.name, len(names), len(args)))
        self.locals = local_names(f)
        nstreams = 0
        for n in ast.walk(f):
            if isinstance(n, ast.Call) and isinstance(n.func, ast.Name) and n.func.id not in self.locals and GLOBALS.get(self.m.names.get(n.func.id)) == 'DataStream':
                nstreams += 1
        if nstreams > 1:
            raise U('%s creates more than one DataStream' % f.name)
        env = dict(zip(names, args))
        body = pytrans.strip_docstring(f.body)
        blk = Blk()

        def end(e, b):
            raise U('%s can end without a return statement' % f.name)
        self.exec_block(body, env, blk, end)
        return '(Oe.out (do\n%s))' % blk.render(True, 1)

    # --- loops
    def mutated(self, body):
        out = []

        def add(p):
            if p not in out:
                out.append(p)
        for st in body:
            for n in ast.walk(st):
                if isinstance(n, ast.Assign):
                    for t in n.targets:
                        for e in (t.elts if isinstance(t, (ast.Tuple, ast.List)) else [t]):
                            if isinstance(e, ast.Name):
                                add(e.id)
                            else:
                                raise U('assignment target inside a loop at %s' % where(n))
                elif isinstance(n, (ast.AugAssign, ast.AnnAssign)):
                    if not isinstance(n.target, ast.Name):
                        raise U('assignment target inside a loop at %s' % where(n))
                    add(n.target.id)
                elif isinstance(n, ast.For):
                    if not isinstance(n.target, ast.Name):
                        raise U('loop target at %s' % where(n))
                    add(n.target.id)
                elif isinstance(n, ast.Call) and isinstance(n.func, ast.Attribute):
                    if n.func.attr in MUTATORS:
                        add(self.place_of(n.func.value, None))
                    elif n.func.attr in OTHER_MUTATORS:
                        raise U('.%s() inside a loop at %s' % (n.func.attr, where(n)))
                elif isinstance(n, (ast.Break, ast.Continue, ast.Return, ast.While, ast.Try, ast.With, ast.Raise, ast.Assert)):
                    raise U('%s inside a loop at %s' % (type(n).__name__, where(n)))
        return out

    @staticmethod
    def proj(s, i, n):
        if n == 1:
            return s
        return '%s%s' % (s, '.2' * i + ('.1' if i < n - 1 else ''))

    def x_For(self, st, env, blk, cont):
        if st.orelse:
            raise U('for/else at %s' % where(st))
        if not isinstance(st.target, ast.Name):
            raise U('loop target at %s' % where(st))
        it = st.iter
        self.blk = blk
        if not (isinstance(it, ast.Call) and isinstance(it.func, ast.Name) and not it.keywords and 1 <= len(it.args) <= 3):
            raise U('loop over something that is not range(..) at %s' % where(st))
        rv = self.e_Name(it.func, env)
        if rv.ty != ('builtin', 'range'):
            raise U('loop over something that is not range(..) at %s' % where(st))
        bounds = [self.let(self.need(self.ev(a, env, blk), NAT, it)) for a in it.args]
        a, b, k = ('0', bounds[0].t, '1') if len(bounds) == 1 else (bounds[0].t, bounds[1].t, bounds[2].t if len(bounds) == 3 else '1')
        if not re.fullmatch(r'\d+', k) or int(k) <= 0:
            raise U('range() with a step that is not a positive literal at %s' % where(st))
        body = pytrans.strip_docstring(st.body)
        if not body:
            raise U('empty loop body at %s' % where(st))
        mut = self.mutated(body)
        tname = st.target.id
        if tname in mut:
            raise U('the loop variable is assigned in the loop body (%s)' % where(st))
        keys = []
        for key in list(env):
            if key in mut:
                keys.append(key)
            for p in mut:
                if isinstance(p, tuple) and p[0] == key and p not in keys:
                    keys.append(p)
        for p in mut:
            if isinstance(p, tuple) and p not in keys:
                raise U('member %r of %s changed in a loop without having been set before (%s)' % (p[1], p[0], where(st)))
        entry = []
        for p in keys:
            v = self.get_place(env, p, st)
            if v.ty not in (NAT, INT, BOOL, TEXT, BYTES, JSON) and not is_list(v.ty):
                raise U('a %s is changed inside a loop at %s' % (v.ty, where(st)))
            if is_list(v.ty) and v.oid in self.sh.frozen:
                raise U('a list that is shared is changed in a loop at %s' % where(st))
            entry.append(v)
        iv, sv = self.sh.fresh('i'), self.sh.fresh('st')
        env_b = dict(env)
        for i, (p, v) in enumerate(zip(keys, entry)):
            self.set_place(env_b, p, clone(v, self.proj(sv, i, len(keys))), st)
        env_b[tname] = mk(iv, NAT)
        ends = []

        def at_end(e, b):
            vs = [self.get_place(e, p, st) for p in keys]
            ends.append(vs)
            b.term = ('pure', '(' + ', '.join(v.t for v in vs) + ')' if vs else '()')
        body_blk = Blk()
        self.loop_depth += 1
        try:
            self.exec_block(body, env_b, body_blk, at_end)
        finally:
            self.loop_depth -= 1
        # the state has one type: that of the first end; every other end and the entry must agree (an empty literal takes it)
        tys = []
        for i, v0 in enumerate(entry):
            ty = ends[0][i].ty
            for vs in ends:
                if vs[i].ty != ty:
                    raise U('a loop variable ends the body with different types (%s)' % where(st))
            if is_list(ty):
                if ty[1] is None:
                    raise U('a list that stays empty is loop state at %s' % where(st))
                if v0.ty[1] is None:
                    self.resolve(v0.ph, ty[1])
                elif v0.ty != ty:
                    raise U('a list changes its element type in a loop at %s' % where(st))
            elif v0.ty != ty:
                raise U('a variable changes its type in a loop (%s -> %s, %s)' % (v0.ty, ty, where(st)))
            tys.append(ty)
        init = '(' + ', '.join(v.t for v in entry) + ')' if entry else '()'
        pure = body_blk.is_pure()
        lam = '(fun %s %s =>\n%s)' % (iv, sv, sub_block(body_blk, not pure, 1))
        self.blk = blk
        r = self.fresh()
        if pure:
            blk.steps.append(('let', r, 'Oe.forPure %s %s %s %s %s' % (par(a), par(b), k, lam, init)))
        elif k == '1':
            blk.steps.append(('bind', r, 'forRangeRd %s %s %s %s' % (par(a), par(b), lam, init)))
            self.nbinds += 1
        else:
            blk.steps.append(('bind', r, 'Oe.forStepRd %s %s %s %s %s' % (par(a), par(b), k, lam, init)))
            self.nbinds += 1
        env_a = dict(env)
        for i, (p, v0, ty) in enumerate(zip(keys, entry, tys)):
            nv = clone(v0, self.proj(r, i, len(keys)))
            nv.ty = ty
            self.set_place(env_a, p, nv, st)
        for p in mut + [tname]:
            if isinstance(p, str) and p not in env:
                env_a[p] = mk('‹gone›', POISON)
        return cont(env_a, blk)


# ---------------------------------------------------------------------------------------------------------------------
# the targets

def translate(repo, rel, fname, tys):
    mod = Mod(repo, rel)
    f = mod.fn(fname)
    sh = Shared()
    ex = Ex(mod, sh, [fname])
    args, binders = [], ['(cd : List ChipData)']
    for ty in tys:
        x = sh.fresh()
        args.append(mk(x, ty))
        binders.append('(%s : %s)' % (x, LEAN_TY[ty]))
    body = ex.function_term(f, args)
    for ph in re.findall(r'‹T\d+›', body):
        body = body.replace(ph, sh.ph.get(ph, '_'))
    if '‹' in body:
        raise U('%s: a value without a Lean term reached the output' % fname)
    return 'fun %s =>\n%s' % (' '.join(binders), body)


UD_SUB = 'List ChipData → Nat → Bytes → PluginOut'
TARGETS = [
    # Lean name                         Lean type                                       file     function                  parameter types
    ('oe500_parse_signature_list',      UD_SUB,                                         UD_PY,   '_parse_signature_list',   [NAT, BYTES]),
    ('oe500_parse_register_dump',       UD_SUB,                                         UD_PY,   '_parse_register_dump',    [NAT, BYTES]),
    ('oe500_parse_callout_ffdc',        UD_SUB,                                         UD_PY,   '_parse_callout_ffdc',     [NAT, BYTES]),
    ('oe500_parse_hb_scratch_regs',     UD_SUB,                                         UD_PY,   '_parse_hb_scratch_regs',  [NAT, BYTES]),
    ('oe500_parse_scratch_reg_sig',     UD_SUB,                                         UD_PY,   '_parse_scratch_reg_sig',  [NAT, BYTES]),
    ('oe500_parse_default',             UD_SUB,                                         UD_PY,   '_parse_default',          [NAT, BYTES]),
    ('oe500_parseUDToJson',             'List ChipData → Nat → Nat → Bytes → PluginOut', UD_PY,  'parseUDToJson',           [NAT, NAT, BYTES]),
    ('oe500_parseSRCToJson',            'List ChipData → Text → Text → Text → Text → Text → Text → Text → Text → Text → PluginOut',
     SRC_PY, 'parseSRCToJson', [TEXT] * 9),
]


def generate(repo, verif):
    gen = pytrans.GenFile(verif, 'GenOe500', ['PelModel.TransOe500'], 'modules/udparsers/oe500/oe500.py, modules/srcparsers/oe500/oe500.py')
    for name, ty, rel, fname, tys in TARGETS:
        def thunk(rel=rel, fname=fname, tys=tys):
            return translate(repo, rel, fname, tys)
        gen.emit(name, ty, thunk)
    return gen


if __name__ == '__main__':
    import os
    import sys
    repo = os.environ.get('VERIF_REPO', '/repo')
    g = generate(repo, os.path.dirname(os.path.dirname(os.path.abspath(__file__))))
    sys.stdout.write(g.render())
    for d in g.defs:
        if d[2] is None:
            sys.stderr.write('UNAVAILABLE %s: %s\n' % (d[0], d[3]))
