"""C11 — only delete options remove files, and only the files they name."""
import json
import os
import shutil
import tempfile

import apel
import clirun
import toprun
import common
import mainrun
from common import Check, lean_batch

TRUSTED = ['harness/toprun.py (worlds materialised as real trees, the real peltool.main() run end to end in-process with nothing replaced, recursive snapshots, comparison with the driver op runmain = Pel.runMain of PelModel/Top.lean)',
           'Lean 4.33.0 kernel (+ leanchecker in the thorough tier)',
           'axioms: propext, Classical.choice, Quot.sound only (audited per theorem)',
           'harness/c11.py + clirun.py (tree generator, recursive snapshots, in-process CLI runs), Drv.lean protocol parsing',
           'harness/mainrun.py (recorders substituted for the functions main() calls and for os.path.isdir/isfile, os.walk, os.remove; '
           'command-line generator; comparison with PelModel/Main.lean)',
           'compiled driver peldrv agrees with the kernel reading of the same definitions']
ASSUME = ['whole-command model: -o names the -p directory iff absent/empty or the same string; the -f file is not a top-level file of the -p directory; --json is composed in batch form (an output name equal to another input file name is outside the composition)',
          'real filesystem semantics (symlinks, special files, permissions) are outside the model',
          'os.walk order is a parameter: for --delete the removed file must be one of the candidates',
          'main() is modelled from the namespace argparse returns (Pel.Args), outside a BMC (the parser has -p, not -A); the argument '
          'parser itself (abbreviations, repeated options, values beginning with "-") is exercised through real command lines, not modelled',
          'in the main() runs the callees are recorders: that the callees themselves touch only what they are given is the first half of this check']
RULE = ('cases = (tree with PEL files, junk files, nested directories incl. an archive whose file names contain the id; CLI mode or mix of '
        'modes); the whole tree is snapshotted (path, type, sha1) before and after the real invocation; non-trivial = the tree has at '
        'least two top-level files and a subdirectory; distinct by (tree, argv).  main() cases = (command line built from the thirteen mode '
        'options -f -j -i --bmc-id --plid --src --src-exclude -l -n -a -d -D --clean with empty and non-empty values, selection switches, '
        'answers of isdir/isfile, os.walk file list, return value of parseAndPrintPELFile): the real main() runs with every callee recorded and '
        'the function reached, its arguments, the Config, exit status/message, the -j call list and main()\'s own os.remove are compared with '
        'Pel.dispatch; all pairs of mode options co-occur, and the subsets of the thirteen are swept (all 8192 in the thorough tier, 1024 '
        'sampled in the quick tier); non-trivial = at least two mode options on the command line')


def run(tier, seed):
    ck = Check('C11', tier, seed)
    ck.proof = common.build_and_audit('C11', thorough=(tier == 'thorough'))
    if not ck.proof['driver_ok']:
        return ck.finish(RULE, TRUSTED, ASSUME)
    rng = ck.rng
    thorough = tier == 'thorough'
    env = apel.PluginEnv(allow=True).install()
    paths = []
    try:
        for _ in range(40 if thorough else 10):
            d = clirun.keep_decodable(env, clirun.gen_wf_dir(rng, rng.choice([1, 2, 4, 7])))
            files = [(n, apel.enc_pel(p)) for n, p in d]
            files += [('junk_%d' % i, bytes(rng.randrange(256) for _ in range(rng.randrange(0, 80)))) for i in range(rng.randrange(0, 3))]
            eid = d[0][1]['ph']['eid'] if d else 0x1234
            pid = '%08X' % eid
            if rng.random() < 0.5:
                files.append(('copy_%s_again' % pid, files[0][1] if files else b''))
            sub = {'archive': [('arch_%s' % pid, files[0][1] if files else b'x'), ('other', b'data')], 'nested': {'deeper': [('%s.pel' % pid, b'zz')]}}
            argvs = [['-l'], ['-a'], ['-n'], ['-l', '-x'], ['-i', pid], ['--bmc-id', '1'], ['--plid', pid], ['--src', 'BD'], ['-l', '-D'], ['-a', '-d', pid], ['-n', '-D'],
                     ['-d', pid], ['-d', '0x' + pid.lower()], ['-d', 'FFFFFFF0'], ['-d', '123'], ['-D'], ['-j'], ['-j', '-c'], ['-j', '-D'], ['-i', pid, '-D']]
            # an id that names no top-level file (it occurs in the directory PATH and inside subdirectories only)
            ghost = '%08X' % next(x for x in (0x5EED0000 + k for k in range(99)) if all('%08X' % x not in n for n, _ in files))
            sub['ghost'] = [('only_in_subdir_%s' % ghost, b'sub')]
            argvs += [['-d', ghost], ['-d', '0x' + ghost]]
            variants = [(argv, files, None) for argv in (argvs if thorough else rng.sample(argvs, 9) + [['-d', pid], ['-D'], ['-d', ghost]])]
            # the directory's own path contains an id; a directory without top-level files whose subdirectories have files
            variants += [(['-d', ghost], files, ghost), (['-d', pid], files, pid), (['-D'], files, ghost),
                         (['-D'], [], None), (['-d', pid], [], None), (['-l'], [], None), (['-j', '-c'], [], None)]
            # always: --json (with and without --clean) into an output directory where the first output name already exists as a directory
            forced = [['-j'], ['-j', '-c']]
            variants += [(fa, files, None) for fa in forced]
            for argv, files, in_path in variants:
                base = None
                if in_path:
                    base = tempfile.mkdtemp(prefix='pels_%s_' % in_path)
                    paths.append(base)
                path = clirun.make_dir(files, subdirs=sub, base=base)
                paths.append(path)
                outdir = None
                extra = []
                force = any(argv is fa for fa in forced)
                if '-j' in argv and (force or rng.random() < 0.6):
                    outdir = clirun.make_dir([])
                    paths.append(outdir)
                    extra = ['-o', outdir]
                    if files and files[0][0] in dict(d) and (force or rng.random() < 0.5):
                        # the name --json is about to write already exists as a DIRECTORY: nothing may be left behind under another name
                        n0, p0 = files[0][0], dict(d)[files[0][0]]
                        os.makedirs(os.path.join(outdir, '%s.0x%08X.json' % (n0, p0['ph']['eid'])), exist_ok=True)
                        os.makedirs(os.path.join(outdir, '%s.%08X.json' % (n0, p0['ph']['eid'])), exist_ok=True)
                exfile = None
                before = clirun.snapshot(path)
                order = clirun.walk_files(path)
                so, se, sx = clirun.run_main(['-p', path, '-E'] + argv + extra)
                after = clirun.snapshot(path)
                top = {n for n in before if '/' not in n and before[n][0] == 'file'}
                removed = sorted(set(before) - set(after))
                added = sorted(set(after) - set(before))
                changed = sorted(n for n in before if n in after and before[n] != after[n])
                created_out = sorted(clirun.snapshot(outdir)) if outdir else []
                ck.case(key=(tuple(files), tuple(argv)) if len(top) >= 2 else None, sample={'argv': argv, 'removed': removed[:3], 'added': (added + created_out)[:3]})
                ck.count('argv ' + ' '.join(a for a in argv if a.startswith('-')))
                rp = {'op': 'cli-effects', 'argv': argv + extra, 'top_level': sorted(top), 'removed': removed, 'added': added, 'changed': changed}
                first = next(a for a in argv if a in ('-l', '-a', '-n', '-i', '--bmc-id', '--plid', '--src', '-d', '-D', '-j'))
                # dispatch order of main(): json, id, bmc-id, plid, src, (src-exclude), list, count, all, delete, delete-all
                prio = ['-j', '-i', '--bmc-id', '--plid', '--src', '-l', '-n', '-a', '-d', '-D']
                act = min((a for a in argv if a in prio), key=prio.index)
                if changed:
                    ck.fail('a file was modified in place', rp, 'modified')
                if act in ('-l', '-a', '-n', '-i', '--bmc-id', '--plid', '--src'):
                    if removed or added:
                        ck.fail('a read-only mode changed the directory tree', rp, 'readonly_changed')
                elif act == '-d':
                    arg = argv[argv.index('-d') + 1]
                    p8 = arg.upper()[2:] if arg.upper().startswith('0X') else arg.upper()
                    cands = [n for n in top if p8 in n] if len(p8) == 8 else []
                    if added or len(removed) > 1 or (removed and removed[0] not in cands) or (cands and not removed):
                        ck.fail('--delete did not remove exactly one top-level file whose name contains the id', rp | {'candidates': cands}, 'delete_one')
                    if not cands and len(p8) == 8 and so != 'PEL not found\n':
                        ck.fail('--delete did not report "PEL not found"', rp | {'stdout': so[:100]}, 'delete_notfound')
                elif act == '-D':
                    if added or set(removed) != top:
                        ck.fail('--delete-all did not remove all and only the top-level regular files', rp, 'delete_all')
                elif act == '-j':
                    clean = '-c' in argv
                    names_ok = all(any(a.startswith(t + '.') and a.endswith('.json') for t in top) for a in (created_out if outdir else added))
                    if not names_ok:
                        ck.fail('--json created a file not named <pel file>.<entry id>.json', rp | {'created': created_out or added}, 'json_names')
                    if (not clean and removed) or any(r not in top for r in removed):
                        ck.fail('--json removed files it should not', rp, 'json_removed')
                    if outdir and added:
                        ck.fail('--json -o created files outside the output directory', rp, 'json_outside')
                # correspondence for the two delete modes
                if act in ('-d', '-D') and first == act:
                    byname = dict(files)
                    fl = [(n, byname[n]) for n in order]
                    r = lean_batch([clirun.model_req('delete' if act == '-d' else 'deleteall', fl, {'every': 1}, arg=argv[argv.index('-d') + 1] if act == '-d' else '')])[0]
                    mo, me, mx = r.text(), r.num(), r.num()
                    left = [r.text() for _ in range(r.num())]
                    real_left = [n for n in order if n in after]
                    if (so, sx) != (mo, mx) or sorted(left) != sorted(real_left):
                        ck.disagree('delete mode differs from the model', rp | {'model_left': left, 'impl_left': real_left, 'stdout': (so, mo)})
    finally:
        env.uninstall()
        for p in paths:
            shutil.rmtree(p, ignore_errors=True)
    # main() itself: which function is reached with which arguments (PelModel/Main.lean), all mode-option combinations
    n_main = mainrun.check_main(ck, tier, 'all')
    # the WHOLE command end to end on real trees vs Pel.runMain (PelModel/Top.lean), and the command-level properties on the real runs
    toprun.check_top(ck, tier, 'effects')
    # the same inside a BMC (no -p; -A = the archive below the log directory): Pel.runMainBmc, C11.bmc_*
    import bmcrun
    bmcrun.check_bmc(ck, tier)
    return ck.finish(RULE, TRUSTED, ASSUME, extra={'main_cases': n_main, 'main_sweep': 'all 8192 subsets of the thirteen mode options (x both '
                                                   'return values of parseAndPrintPELFile when -f is given)' if thorough else
                                                   '1024 sampled subsets of the thirteen mode options'})


def replay(path):
    rp = json.load(open(path))
    print(json.dumps(rp, indent=1)[:3000])
    if rp.get('op') == 'main':
        return mainrun.replay(rp)
    for d in rp.get('disagreements', []):
        if d.get('replay', {}).get('op') == 'main':
            return mainrun.replay(d['replay'])
    return 0
