"""
Source-to-Lean translator for the output naming and the JSON aligner of peltool.py (stream `output`, properties C01, C06).

Reads the CURRENT text of
    modules/pel/peltool/peltool.py       buildOutput, keyEndIndex, prettyPrint
with `ast` and writes lean/PelGen/GenOutput.lean.  PelProps/TieC01.lean (`buildOutput`) and PelProps/TieC06.lean (`keyEndIndex`,
`prettyPrint`) prove the hand-written model (PelModel/Pel.lean `buildOutput`, PelModel/Json.lean `keyEndIndex` / `keyScan` /
`prettyPrint`) equal to what is generated here.

These functions are imperative: index loops over mutable locals, a dictionary of two-element lists updated in place, `return` from
inside a `while`.  The translation is STATE PASSING into the `Option` monad (`none` = the Python code raises IndexError / KeyError,
or a fuelled loop does not finish): every statement becomes a `let` or a bind, every loop a combinator of
lean/PelModel/TransOutput.lean applied to the tuple of locals the loop body assigns.  Everything that decides behaviour comes from
the AST: every literal (the quote, the backslash, the colon, the blank of `lstrip`, the separator of `split` / `join`, -1, the
increments 1 and 2, CHARACTER_SPACE, the default of `desiredSpace`, the initial counter pair `[1, 0]`, the blank of `name + ' ' + …`),
every operator and comparison, the order of statements and of `if` / `elif` branches, which subscript is read or written where.
A statement or expression that is not listed below makes the function `none` (TRANSLATION-UNAVAILABLE); nothing is skipped silently
except docstrings / bare string statements / `pass`.

=====================================================================================================================
TRUSTED TABLE: name maps and idioms (the only knowledge about the code that is hard-wired here)
=====================================================================================================================
Function interfaces (by parameter POSITION, names do not matter)
    buildOutput(p1, p2)     p1 : list of dict[str -> JSON value]   p2 : dict[str -> JSON value]; no `return`; the RESULT is the final p2
                            (the caller passes two distinct objects: the parameters do not alias each other)
    keyEndIndex(p1)         p1 : str; returns int
    prettyPrint(p1, p2=D)   p1 : str, p2 : int; returns str; the literal D is emitted as Gen.prettyPrintDefaultSpace?
    a call `keyEndIndex(e)` inside prettyPrint -> the first parameter of the generated term (instantiated with Gen.keyEndIndex? in the tie)
Python values
    int -> Int        str -> Text (code points)        bool -> Bool        list[T] -> List T        dict[K, V] -> List (K × V) in insertion order
    a JSON value -> J (opaque: only stored and copied)          a computation that may raise -> Option (none = raises / out of fuel)
Expressions (evaluation order left to right as in Python; `and` / `or` / `x if c else y` evaluate lazily)
    int literal, -literal -> (n : Int)      str literal -> its code points      a + b, a - b, a * b (ints) -> + - *      a + b (strs) -> ++
    n * s, s * n (int, str) -> pyMulStr n s          -a -> -a          not a -> !a          a and b / a or b -> && / || (lazy when b may raise)
    a < b, <=, >, >=, ==, != (ints), ==, != (strs) -> decide (a < b) …          x if c else y -> if c then x else y
    a in s / a not in s (strs) -> pyInStr a s          k in d / k not in d (dict) -> pyDictHas d k
    len(x) -> pyLen x          str(n) (int) -> intDec n          list(d.keys()), list(d) (dict) -> pyKeys d
    s[i] (str) -> pyCharAt s i          l[i] (list) -> pyAt? l i          d[k] (dict) -> pyDictGet? d k        (IndexError / KeyError = none)
    x[a:b], x[:b], x[a:] -> pySl x a b          s.lstrip(t) -> pyLstrip t s          s.split(c) (c a ONE-character literal) -> pySplit1 c s
    t.join(l) -> joinWith t l          [a, b, …] -> [a, b, …]          {} -> []
Statements
    x = e, x: T = e, x += e, x -= e, x *= e        -> let
    d[k] = e (dict) -> pyDictSet d k e          l[i] = e (list) -> pyListSet? l i e          d[k][j] = e -> d[k] replaced by (d[k] with item j set)
        (the last form is value semantics for an in-place update: sound because every value stored in d is a FRESH list display of
         ints / strs and d[k] is never bound to a name or stored elsewhere — both checked; a mutable value is never copied to another
         name, except `y = c[i]…` where the container c is never changed by the function and nothing is changed through y: reading only)
    the type of `x = {}` is presumed from the first store `x[k] = [literals]` and then checked by unification at every use
    if / elif / else: a branch that always returns takes no continuation; branches without `return` are joined on the tuple of the
        locals they assign (those bound before, and those bound by a plain assignment in BOTH branches; a local bound in one branch
        only is not bound afterwards); otherwise the `if` must be the last statement of its block (the block's continuation is copied)
    for v in range(e): body (no return / break / continue / else; v not assigned) -> pyFor (pyRange e) body state
        state = the locals assigned in the body that exist before the loop, in order of their first binding; locals first bound in
        the body are local to one pass
    while I < len(S): body  (also len(S) > I; no break / continue / else; `return` allowed) -> pyWhile cond body rest fuel state
        fuel = S.length + 1, chosen after checking SYNTACTICALLY that S is not assigned in the body and every path through the body that
        does not return performs `I += <positive literal>` and nothing else assigns I.  The check only justifies the choice: if the fuel
        were too small the loop would be `none` and the tie theorem (… = some …) unprovable.
    return e -> the value (inside a `while`: LoopStep.ret)          docstrings, bare strings, `pass` -> nothing
Module level: `buildOutput`, `keyEndIndex`, `prettyPrint` are each bound exactly once, by an undecorated `def`; `len`, `range`, `list`, `str`
    are not bound at module level; no star import; no `global`.  A local of the same name as a builtin / callee un-maps it.
"""
import ast

import pytrans
from pytrans import GenFile, Untranslatable, find_def, strip_docstring, lean_text
from trans_peltool import module_bindings

PELTOOL = 'pel/peltool/peltool.py'
FUNCTIONS = ['buildOutput', 'keyEndIndex', 'prettyPrint']
BUILTINS = ['len', 'range', 'list', 'str']


def U(node, why):
    return Untranslatable('%s (line %s)' % (why, getattr(node, 'lineno', '?')))


# ------------------------------------------------------------------------------------------------------------------
# types

class TVar:
    """a type that is not known yet (the key / value type of `{}`)"""
    n = 0

    def __init__(self):
        TVar.n += 1
        self.id = TVar.n
        self.val = None


INT, STR, BOOL, JSON, UNIT = ('int',), ('str',), ('bool',), ('json',), ('unit',)


def LIST(t):
    return ('list', t)


def DICT(k, v):
    return ('dict', k, v)


def prune(t):
    while isinstance(t, TVar) and t.val is not None:
        t = t.val
    return t


def unify(a, b, node):
    a, b = prune(a), prune(b)
    if a is b:
        return
    if isinstance(a, TVar):
        a.val = b
        return
    if isinstance(b, TVar):
        b.val = a
        return
    if a[0] != b[0] or len(a) != len(b):
        raise U(node, 'type mismatch %s / %s' % (show(a), show(b)))
    for x, y in zip(a[1:], b[1:]):
        unify(x, y, node)


def show(t):
    t = prune(t)
    if isinstance(t, TVar):
        return '?'
    return t[0] + ('[' + ', '.join(show(x) for x in t[1:]) + ']' if len(t) > 1 else '')


def lty(t):
    """Lean type; unknown types are marked and resolved when the whole function has been read"""
    t = prune(t)
    if isinstance(t, TVar):
        return '@@T%d@@' % t.id
    if t == INT:
        return 'Int'
    if t == STR:
        return 'Text'
    if t == BOOL:
        return 'Bool'
    if t == JSON:
        return 'J'
    if t == UNIT:
        return 'Unit'
    if t[0] == 'list':
        return 'List (%s)' % lty(t[1])
    if t[0] == 'dict':
        return 'List (%s × %s)' % (lty(t[1]), lty(t[2]))
    raise Untranslatable('type ' + repr(t))


def is_immutable(t):
    t = prune(t)
    return t in (INT, STR, BOOL)


def is_mutable(t):
    t = prune(t)
    return isinstance(t, TVar) or t[0] in ('list', 'dict') or t == JSON


# ------------------------------------------------------------------------------------------------------------------
# syntactic helpers

def assigned_names(stmts):
    """names a block (re)binds or mutates through a subscript store, in order of first occurrence"""
    out = []

    def add(n):
        if n not in out:
            out.append(n)

    def root(t):
        while isinstance(t, ast.Subscript):
            t = t.value
        return t

    def walk(sts):
        for st in sts:
            if isinstance(st, ast.Assign):
                for t in st.targets:
                    r = root(t)
                    if isinstance(r, ast.Name):
                        add(r.id)
            elif isinstance(st, (ast.AugAssign, ast.AnnAssign)):
                r = root(st.target)
                if isinstance(r, ast.Name):
                    add(r.id)
            elif isinstance(st, (ast.If, ast.While)):
                walk(st.body)
                walk(st.orelse)
            elif isinstance(st, ast.For):
                r = root(st.target)
                if isinstance(r, ast.Name):
                    add(r.id)
                walk(st.body)
                walk(st.orelse)
    walk(stmts)
    return out


def definitely_assigned(stmts):
    """names every path through the block binds by a plain assignment"""
    out = []
    for st in strip_docstring(stmts):
        if isinstance(st, ast.Assign) and len(st.targets) == 1 and isinstance(st.targets[0], ast.Name):
            if st.targets[0].id not in out:
                out.append(st.targets[0].id)
        elif isinstance(st, ast.AnnAssign) and isinstance(st.target, ast.Name) and st.value is not None:
            if st.target.id not in out:
                out.append(st.target.id)
        elif isinstance(st, ast.If):
            for n in definitely_assigned(st.body):
                if n in definitely_assigned(st.orelse) and n not in out:
                    out.append(n)
    return out


def has_node(stmts, kinds):
    return any(isinstance(n, kinds) for st in stmts for n in ast.walk(st))


def always_returns(stmts):
    stmts = strip_docstring(stmts)
    if not stmts:
        return False
    last = stmts[-1]
    if isinstance(last, ast.Return):
        return True
    if isinstance(last, ast.If):
        return always_returns(last.body) and always_returns(last.orelse)
    return False


def subscript_store_roots(fn):
    """names that are the root of a subscript store anywhere in the function (containers mutated in place)"""
    out = set()
    for n in ast.walk(fn):
        tg = []
        if isinstance(n, ast.Assign):
            tg = n.targets
        elif isinstance(n, (ast.AugAssign, ast.AnnAssign)):
            tg = [n.target]
        for t in tg:
            if isinstance(t, ast.Subscript):
                r = t
                while isinstance(r, ast.Subscript):
                    r = r.value
                if isinstance(r, ast.Name):
                    out.add(r.id)
    return out


# ------------------------------------------------------------------------------------------------------------------
# the translator of one function

class Ctx:
    def __init__(self, env, ret, in_loop=False):
        self.env = env            # python name -> (lean name, type); insertion order = order of first binding
        self.ret = ret            # pure Lean term, type -> Lean term of the enclosing computation type
        self.in_loop = in_loop

    def with_env(self, env):
        return Ctx(env, self.ret, self.in_loop)


class Fn:
    def __init__(self, fn, param_types, result, callees):
        self.fn = fn
        self.n = 0
        self.result = result            # ('return', type) | ('param', index)
        self.callees = callees          # python name -> (lean term, [arg types], result type)   (partial functions)
        self.param_types = param_types
        self.mutated = subscript_store_roots(fn)
        self.nested_store = set()       # dict locals that are updated through d[k][j] = e
        self.checks = []                # deferred checks (run when all types are known)

    def fresh(self):
        self.n += 1
        return 'v%d' % self.n

    # ---------------------------------------------------------------- expressions (CPS: k(pure term, type) -> Lean term : Option R)
    def ex(self, e, ctx, k):
        env = ctx.env
        if isinstance(e, ast.Constant):
            if isinstance(e.value, bool) or e.value is None:
                raise U(e, 'constant %r' % (e.value,))
            if isinstance(e.value, int):
                return k('(%d : Int)' % e.value, INT)
            if isinstance(e.value, str):
                return k('(%s : Text)' % lean_text(e.value), STR)
            raise U(e, 'constant %r' % (e.value,))
        if isinstance(e, ast.Name):
            if e.id not in env:
                raise U(e, 'name %s is not a local that is certainly bound here' % e.id)
            v, ty = env[e.id]
            if is_mutable(ty) and prune(ty) != JSON:
                raise U(e, 'the mutable value %s is used as a whole (it could be aliased)' % e.id)
            return k(v, ty)
        if isinstance(e, ast.UnaryOp):
            if isinstance(e.op, ast.USub):
                if isinstance(e.operand, ast.Constant) and type(e.operand.value) is int:
                    return k('(-%d : Int)' % e.operand.value, INT)
                return self.ex(e.operand, ctx, lambda t, ty: self.need(ty, INT, e) or k('(-%s)' % t, INT))
            if isinstance(e.op, ast.Not):
                return self.ex(e.operand, ctx, lambda t, ty: self.need(ty, BOOL, e) or k('(!%s)' % t, BOOL))
            raise U(e, 'unary operator %s' % type(e.op).__name__)
        if isinstance(e, ast.BinOp):
            def after_left(a, ta):
                def after_right(b, tb):
                    ta_, tb_ = prune(ta), prune(tb)
                    if isinstance(e.op, ast.Add):
                        if ta_ == INT and tb_ == INT:
                            return k('(%s + %s)' % (a, b), INT)
                        if ta_ == STR and tb_ == STR:
                            return k('(%s ++ %s)' % (a, b), STR)
                    elif isinstance(e.op, ast.Sub):
                        if ta_ == INT and tb_ == INT:
                            return k('(%s - %s)' % (a, b), INT)
                    elif isinstance(e.op, ast.Mult):
                        if ta_ == INT and tb_ == INT:
                            return k('(%s * %s)' % (a, b), INT)
                        if ta_ == INT and tb_ == STR:
                            return k('(pyMulStr %s %s)' % (a, b), STR)
                        if ta_ == STR and tb_ == INT:
                            return k('(pyMulStr %s %s)' % (b, a), STR)
                    raise U(e, 'operator %s on %s, %s' % (type(e.op).__name__, show(ta), show(tb)))
                return self.ex(e.right, ctx, after_right)
            return self.ex(e.left, ctx, after_left)
        if isinstance(e, ast.Compare):
            if len(e.ops) != 1:
                raise U(e, 'chained comparison')
            op, rhs = e.ops[0], e.comparators[0]
            if isinstance(op, (ast.In, ast.NotIn)):
                neg = isinstance(op, ast.NotIn)

                def after_needle(a, ta):
                    def fin(t):
                        return k('(!%s)' % t if neg else t, BOOL)
                    if isinstance(rhs, ast.Name) and rhs.id in env:
                        v, ty = env[rhs.id]
                        ty = prune(ty)
                        if isinstance(ty, TVar):
                            raise U(e, '`in` on a value of unknown type')
                        if ty[0] == 'dict':
                            unify(ty[1], ta, e)
                            return fin('(pyDictHas %s %s)' % (v, a))
                    return self.ex(rhs, ctx, lambda b, tb: self.need(ta, STR, e) or self.need(tb, STR, e) or fin('(pyInStr %s %s)' % (a, b)))
                return self.ex(e.left, ctx, after_needle)

            def after_l(a, ta):
                def after_r(b, tb):
                    unify(ta, tb, e)
                    t = prune(ta)
                    if t == INT:
                        sym = {ast.Lt: '<', ast.LtE: '≤', ast.Gt: '>', ast.GtE: '≥', ast.Eq: '=', ast.NotEq: '≠'}.get(type(op))
                    elif t == STR:
                        sym = {ast.Eq: '=', ast.NotEq: '≠'}.get(type(op))
                    else:
                        sym = None
                    if sym is None:
                        raise U(e, 'comparison %s on %s' % (type(op).__name__, show(t)))
                    return k('(decide (%s %s %s))' % (a, sym, b), BOOL)
                return self.ex(rhs, ctx, after_r)
            return self.ex(e.left, ctx, after_l)
        if isinstance(e, ast.BoolOp):
            isand = isinstance(e.op, ast.And)

            def chain(vals):
                if len(vals) == 1:
                    return lambda kk: self.ex(vals[0], ctx, lambda t, ty: self.need(ty, BOOL, e) or kk(t))
                first, rest = vals[0], vals[1:]

                def run(kk):
                    def after_first(a, ta):
                        self.need(ta, BOOL, e)
                        # is the rest pure?  translate it with the identity continuation and look for a bind
                        marker = []
                        inner = chain(rest)(lambda t: marker.append(t) or ('pure %s' % t))
                        if len(marker) == 1 and inner == 'pure %s' % marker[0]:
                            return kk('(%s %s %s)' % (a, '&&' if isand else '||', marker[0]))
                        v = self.fresh()
                        if isand:
                            lazy = '(if %s then %s else pure false)' % (a, inner)
                        else:
                            lazy = '(if %s then pure true else %s)' % (a, inner)
                        return '(%s >>= fun (%s : Bool) =>\n%s)' % (lazy, v, kk(v))
                    return self.ex(first, ctx, after_first)
                return run
            return chain(e.values)(lambda t: k(t, BOOL))
        if isinstance(e, ast.IfExp):
            def after_test(c, tc):
                self.need(tc, BOOL, e)
                got = {}
                ma = self.ex(e.body, ctx, lambda t, ty: got.setdefault('a', (t, ty)) and 'pure %s' % t)
                mb = self.ex(e.orelse, ctx, lambda t, ty: got.setdefault('b', (t, ty)) and 'pure %s' % t)
                if 'a' not in got or 'b' not in got:
                    raise U(e, 'conditional expression')
                unify(got['a'][1], got['b'][1], e)
                ty = got['a'][1]
                if ma == 'pure %s' % got['a'][0] and mb == 'pure %s' % got['b'][0]:
                    return k('(if %s then %s else %s)' % (c, got['a'][0], got['b'][0]), ty)
                v = self.fresh()
                return '((if %s then %s else %s) >>= fun (%s : %s) =>\n%s)' % (c, ma, mb, v, lty(ty), k(v, ty))
            return self.ex(e.test, ctx, after_test)
        if isinstance(e, ast.Subscript):
            return self.subscript(e, ctx, k)
        if isinstance(e, ast.Call):
            return self.call(e, ctx, k)
        if isinstance(e, ast.List):
            if not e.elts:
                raise U(e, 'empty list display')

            def elems(i, acc, ty0):
                if i == len(e.elts):
                    return k('[%s]' % ', '.join(acc), LIST(ty0))

                def one(t, ty):
                    unify(ty, ty0, e)
                    if not is_immutable(ty):
                        raise U(e, 'list display with a mutable element')
                    return elems(i + 1, acc + [t], ty0)
                return self.ex(e.elts[i], ctx, one)
            return elems(0, [], TVar())
        if isinstance(e, ast.Dict):
            if e.keys:
                raise U(e, 'non-empty dict display')
            return k('[]', DICT(TVar(), TVar()))
        raise U(e, 'expression %s' % type(e).__name__)

    def need(self, ty, want, node):
        unify(ty, want, node)
        return None

    def container(self, e, ctx, k):
        """a container expression in a position where it is only LOOKED INTO (value of a subscript, argument of len / keys / in / join):
        a local name, or a subscript chain"""
        if isinstance(e, ast.Name):
            if e.id not in ctx.env:
                raise U(e, 'name %s is not a local that is certainly bound here' % e.id)
            return k(*ctx.env[e.id])
        if isinstance(e, ast.Subscript) and not isinstance(e.slice, ast.Slice):
            return self.subscript(e, ctx, k, inner=True)
        return self.ex(e, ctx, k)

    def subscript(self, e, ctx, k, inner=False):
        if not isinstance(e.ctx, ast.Load):
            raise U(e, 'subscript context')

        def after_value(v, tv):
            tv = prune(tv)
            if isinstance(tv, TVar):
                raise U(e, 'subscript of a value of unknown type')
            if isinstance(e.slice, ast.Slice):
                if e.slice.step is not None:
                    raise U(e, 'slice with a step')
                if tv != STR and tv[0] != 'list':
                    raise U(e, 'slice of %s' % show(tv))
                if tv[0] == 'list' and not is_immutable(tv[1]):
                    raise U(e, 'slice of a list of mutable values')

                def bound(b, kk):
                    if b is None:
                        return kk('none')
                    return self.ex(b, ctx, lambda t, ty: self.need(ty, INT, e) or kk('(some %s)' % t))
                return bound(e.slice.lower, lambda lo: bound(e.slice.upper, lambda hi: k('(pySl %s %s %s)' % (v, lo, hi), tv)))

            def after_index(i, ti):
                w = self.fresh()
                if tv == STR:
                    self.need(ti, INT, e)
                    op, tr = 'pyCharAt %s %s' % (v, i), STR
                elif tv[0] == 'list':
                    self.need(ti, INT, e)
                    op, tr = 'pyAt? %s %s' % (v, i), tv[1]
                elif tv[0] == 'dict':
                    unify(ti, tv[1], e)
                    op, tr = 'pyDictGet? %s %s' % (v, i), tv[2]
                else:
                    raise U(e, 'subscript of %s' % show(tv))
                if is_mutable(tr) and not inner:
                    # a mutable item may be copied out only if it is a JSON value (never looked into or changed by these functions)
                    if prune(tr) != JSON:
                        raise U(e, 'a mutable item is used as a whole (it could be aliased)')
                return '(%s >>= fun (%s : %s) =>\n%s)' % (op, w, lty(tr), k(w, tr))
            return self.ex(e.slice, ctx, after_index)
        return self.container(e.value, ctx, after_value)

    def call(self, e, ctx, k):
        if e.keywords:
            raise U(e, 'keyword arguments')
        f = e.func
        if isinstance(f, ast.Name):
            if f.id in ctx.env or f.id in assigned_names(self.fn.body) or f.id in [a.arg for a in self.fn.args.args]:
                raise U(e, 'call of the local %s' % f.id)
            if f.id == 'len' and len(e.args) == 1:
                def fin(t, ty):
                    ty = prune(ty)
                    if isinstance(ty, TVar) or not (ty == STR or ty[0] in ('list', 'dict')):
                        raise U(e, 'len of %s' % show(ty))
                    return k('(pyLen %s)' % t, INT)
                return self.container(e.args[0], ctx, fin)
            if f.id == 'str' and len(e.args) == 1:
                return self.ex(e.args[0], ctx, lambda t, ty: self.need(ty, INT, e) or k('(intDec %s)' % t, STR))
            if f.id == 'list' and len(e.args) == 1:
                a = e.args[0]
                if isinstance(a, ast.Call) and isinstance(a.func, ast.Attribute) and a.func.attr == 'keys' and not a.args and not a.keywords:
                    a = a.func.value

                def fin(t, ty):
                    ty = prune(ty)
                    if isinstance(ty, TVar) or ty[0] != 'dict' or not is_immutable(ty[1]):
                        raise U(e, 'list() of %s' % show(ty))
                    return k('(pyKeys %s)' % t, LIST(ty[1]))
                return self.container(a, ctx, fin)
            if f.id in self.callees and f.id not in ctx.env:
                term, argtys, rty = self.callees[f.id]
                if len(e.args) != len(argtys):
                    raise U(e, 'arguments of %s' % f.id)

                def args(i, acc):
                    if i == len(argtys):
                        w = self.fresh()
                        return '(%s %s >>= fun (%s : %s) =>\n%s)' % (term, ' '.join(acc), w, lty(rty), k(w, rty))
                    return self.ex(e.args[i], ctx, lambda t, ty: self.need(ty, argtys[i], e) or args(i + 1, acc + [t]))
                return args(0, [])
            raise U(e, 'call of %s' % f.id)
        if isinstance(f, ast.Attribute):
            m = f.attr
            if m == 'lstrip' and len(e.args) == 1:
                return self.ex(f.value, ctx, lambda s_, ts: self.need(ts, STR, e) or
                               self.ex(e.args[0], ctx, lambda c, tc: self.need(tc, STR, e) or k('(pyLstrip %s %s)' % (c, s_), STR)))
            if m == 'split' and len(e.args) == 1:
                a = e.args[0]
                if not (isinstance(a, ast.Constant) and isinstance(a.value, str) and len(a.value) == 1):
                    raise U(e, 'split with a separator that is not a one-character literal')
                return self.ex(f.value, ctx, lambda s_, ts: self.need(ts, STR, e) or k('(pySplit1 %d %s)' % (ord(a.value), s_), LIST(STR)))
            if m == 'join' and len(e.args) == 1:
                def after_sep(sep, tsep):
                    self.need(tsep, STR, e)

                    def fin(l, tl):
                        unify(tl, LIST(STR), e)
                        return k('(joinWith %s %s)' % (sep, l), STR)
                    return self.container(e.args[0], ctx, fin)
                return self.ex(f.value, ctx, after_sep)
            raise U(e, 'method %s' % m)
        raise U(e, 'call')

    # ---------------------------------------------------------------- statements (CPS: k(env) -> Lean term for what follows)
    def block(self, stmts, ctx, k):
        stmts = strip_docstring(stmts)
        if not stmts:
            return k(ctx.env)
        st, rest = stmts[0], stmts[1:]
        env = ctx.env

        def go_on(env2):
            return self.block(rest, ctx.with_env(env2), k)

        if isinstance(st, ast.Return):
            if rest:
                raise U(st, 'statements after return')
            if st.value is None:
                raise U(st, 'return without a value')
            if self.result[0] != 'return':
                raise U(st, 'return in a procedure')
            return self.ex(st.value, ctx, lambda t, ty: self.need(ty, self.result[1], st) or ctx.ret(t))
        if isinstance(st, (ast.Assign, ast.AnnAssign, ast.AugAssign)):
            if isinstance(st, ast.Assign):
                if len(st.targets) != 1:
                    raise U(st, 'multiple assignment targets')
                tgt, val = st.targets[0], st.value
            elif isinstance(st, ast.AnnAssign):
                if st.value is None or not st.simple:
                    raise U(st, 'annotation without a value')
                tgt, val = st.target, st.value
            else:
                if not isinstance(st.op, (ast.Add, ast.Sub, ast.Mult)):
                    raise U(st, 'augmented assignment %s' % type(st.op).__name__)
                if not isinstance(st.target, ast.Name):
                    raise U(st, 'augmented assignment to a subscript')
                tgt = st.target
                val = ast.copy_location(ast.BinOp(left=ast.Name(id=tgt.id, ctx=ast.Load()), op=st.op, right=st.value), st)
                ast.fix_missing_locations(val)
            if isinstance(tgt, ast.Name):
                return self.assign_name(tgt, val, st, ctx, go_on)
            if isinstance(tgt, ast.Subscript):
                return self.assign_subscript(tgt, val, st, ctx, go_on)
            raise U(st, 'assignment target %s' % type(tgt).__name__)
        if isinstance(st, ast.If):
            return self.if_stmt(st, rest, ctx, k)
        if isinstance(st, ast.For):
            return self.for_stmt(st, ctx, go_on)
        if isinstance(st, ast.While):
            return self.while_stmt(st, rest, ctx, k)
        raise U(st, 'statement %s' % type(st).__name__)

    def assign_name(self, tgt, val, st, ctx, go_on):
        env = ctx.env
        if tgt.id in self.callees or tgt.id in BUILTINS:
            raise U(st, 'a local named %s' % tgt.id)

        def bind(t, ty, frozen=False):
            if tgt.id in env:
                unify(env[tgt.id][1], ty, st)
            if isinstance(val, ast.Dict) and not val.keys:
                self.presume_dict_type(tgt.id, ty, st)
            if is_mutable(ty) and prune(ty) != JSON and not self.fresh_value(val) and not frozen:
                raise U(st, 'a mutable value is bound to a second name')
            v = self.fresh()
            env2 = dict(env)
            env2[tgt.id] = (v, ty)           # an existing key keeps its position: order of FIRST binding
            return 'let %s : %s := %s\n%s' % (v, lty(ty), t, go_on(env2))
        if self.frozen_item(val) and tgt.id not in self.mutated:
            # an item of a container that this function never changes, bound to a name that is never changed through: reading only
            return self.subscript(val, ctx, lambda t, ty: bind(t, ty, True), inner=True)
        return self.ex(val, ctx, bind)

    def presume_dict_type(self, x, ty, st):
        """the type of `x = {}` from the first store `x[k] = [literal, …]` of the function (any later use must agree: unification)"""
        ty = prune(ty)
        for n in ast.walk(self.fn):
            if isinstance(n, ast.Assign) and len(n.targets) == 1:
                t = n.targets[0]
                if isinstance(t, ast.Subscript) and isinstance(t.value, ast.Name) and t.value.id == x and isinstance(n.value, ast.List) and n.value.elts:
                    if all(isinstance(e, ast.Constant) and type(e.value) is int for e in n.value.elts):
                        unify(ty[2], LIST(INT), st)
                        return
                    if all(isinstance(e, ast.Constant) and type(e.value) is str for e in n.value.elts):
                        unify(ty[2], LIST(STR), st)
                        return

    def frozen_item(self, val):
        if not (isinstance(val, ast.Subscript) and not isinstance(val.slice, ast.Slice)):
            return False
        r = val
        while isinstance(r, ast.Subscript):
            r = r.value
        return isinstance(r, ast.Name) and r.id not in self.mutated

    @staticmethod
    def fresh_value(val):
        if isinstance(val, (ast.Dict, ast.List)):
            return True
        # the result of split() / join() / list() / slices is a new object
        if isinstance(val, ast.Call) and isinstance(val.func, ast.Attribute) and val.func.attr in ('split',):
            return True
        if isinstance(val, ast.Call) and isinstance(val.func, ast.Name) and val.func.id == 'list':
            return True
        return False

    def assign_subscript(self, tgt, val, st, ctx, go_on):
        env = ctx.env
        base = tgt.value
        if isinstance(tgt.slice, ast.Slice):
            raise U(st, 'slice assignment')

        def after_value(t, ty):
            if isinstance(base, ast.Name):
                # X[k] = e
                if base.id not in env:
                    raise U(st, 'name %s is not a local that is certainly bound here' % base.id)
                xv, xt = env[base.id]
                xt = prune(xt)
                if isinstance(xt, TVar):
                    raise U(st, 'subscript store into a value of unknown type')

                def after_key(kk, tk):
                    v = self.fresh()
                    env2 = dict(env)
                    if xt[0] == 'dict':
                        unify(tk, xt[1], st)
                        unify(ty, xt[2], st)
                        if is_mutable(ty) and prune(ty) != JSON and not self.fresh_value(val):
                            raise U(st, 'a mutable value that is not a fresh display is stored in a dictionary')
                        env2[base.id] = (v, xt)
                        return 'let %s : %s := pyDictSet %s %s %s\n%s' % (v, lty(xt), xv, kk, t, go_on(env2))
                    if xt[0] == 'list':
                        self.need(tk, INT, st)
                        unify(ty, xt[1], st)
                        if is_mutable(ty):
                            raise U(st, 'a mutable value is stored in a list')
                        env2[base.id] = (v, xt)
                        return '(pyListSet? %s %s %s >>= fun (%s : %s) =>\n%s)' % (xv, kk, t, v, lty(xt), go_on(env2))
                    raise U(st, 'subscript store into %s' % show(xt))
                return self.ex(tgt.slice, ctx, after_key)
            if isinstance(base, ast.Subscript) and isinstance(base.value, ast.Name) and not isinstance(base.slice, ast.Slice):
                # X[k][j] = e
                x = base.value.id
                if x not in env:
                    raise U(st, 'name %s is not a local that is certainly bound here' % x)
                xv, xt = env[x]
                xt = prune(xt)
                if isinstance(xt, TVar) or xt[0] != 'dict' or isinstance(prune(xt[2]), TVar) or prune(xt[2])[0] != 'list':
                    raise U(st, 'nested subscript store into %s' % show(xt))
                self.nested_store.add(x)
                inner_t = prune(xt[2])
                unify(ty, inner_t[1], st)
                if not is_immutable(ty):
                    raise U(st, 'nested subscript store of a mutable value')

                def after_k(kk, tk):
                    unify(tk, xt[1], st)
                    cur = self.fresh()

                    def after_j(jj, tj):
                        self.need(tj, INT, st)
                        w, v = self.fresh(), self.fresh()
                        env2 = dict(env)
                        env2[x] = (v, xt)
                        return '(pyListSet? %s %s %s >>= fun (%s : %s) =>\nlet %s : %s := pyDictSet %s %s %s\n%s)' % (
                            cur, jj, t, w, lty(inner_t), v, lty(xt), xv, kk, w, go_on(env2))
                    return '(pyDictGet? %s %s >>= fun (%s : %s) =>\n%s)' % (xv, kk, cur, lty(inner_t), self.ex(tgt.slice, ctx, after_j))
                return self.ex(base.slice, ctx, after_k)
            raise U(st, 'assignment target')
        return self.ex(val, ctx, after_value)

    def state_vars(self, body, env, extra_forbidden=()):
        names = [n for n in assigned_names(body) if n in env]
        for n in names:
            if n in extra_forbidden:
                raise Untranslatable('the loop variable %s is assigned in the loop' % n)
        order = [n for n in env if n in names]          # order of first binding
        return order

    def tuple_of(self, names, env):
        if not names:
            return '()', 'Unit'
        return ('(' + ', '.join(env[n][0] for n in names) + ')' if len(names) > 1 else env[names[0]][0],
                ' × '.join('(%s)' % lty(env[n][1]) for n in names) if len(names) > 1 else lty(env[names[0]][1]))

    def pattern(self, names, env):
        """fresh Lean names for the state variables -> (binder text, new env)"""
        env2 = dict(env)
        fresh = []
        for n in names:
            v = self.fresh()
            env2[n] = (v, env[n][1])
            fresh.append(v)
        if not names:
            return '(_ : Unit)', env2
        if len(names) == 1:
            return '(%s : %s)' % (fresh[0], lty(env[names[0]][1])), env2
        return '((%s) : %s)' % (', '.join(fresh), ' × '.join('(%s)' % lty(env[n][1]) for n in names)), env2

    def restrict(self, env_after, env_before):
        """locals first bound inside a block are not certainly bound after it"""
        return {n: env_after[n] for n in env_before}

    def if_stmt(self, st, rest, ctx, k):
        env = ctx.env
        a, b = st.body, st.orelse

        def with_test(c, tc):
            self.need(tc, BOOL, st)
            ra, rb = always_returns(a), always_returns(b)
            if ra and rb:
                if strip_docstring(rest):
                    raise U(st, 'statements after an if whose branches all return')
                dead = lambda env_: (_ for _ in ()).throw(U(st, 'unreachable continuation'))
                return '(if %s then\n%s\nelse\n%s)' % (c, self.block(a, ctx, dead), self.block(b, ctx, dead))
            if ra:
                dead = lambda env_: (_ for _ in ()).throw(U(st, 'unreachable continuation'))
                return '(if %s then\n%s\nelse\n%s)' % (c, self.block(a, ctx, dead),
                                                       self.block(b, ctx, lambda e2: self.block(rest, ctx.with_env(e2), k)))
            if rb:
                dead = lambda env_: (_ for _ in ()).throw(U(st, 'unreachable continuation'))
                return '(if %s then\n%s\nelse\n%s)' % (c, self.block(a, ctx, lambda e2: self.block(rest, ctx.with_env(e2), k)),
                                                       self.block(b, ctx, dead))
            if not has_node(a + b, (ast.Return,)):
                names = [n for n in env if n in assigned_names(a + b)]
                both = [n for n in definitely_assigned(a) if n in definitely_assigned(b) and n not in env]
                names = names + both
                ends = []

                def leave(e2):
                    ends.append(e2)
                    return 'pure %s' % self.tuple_of(names, e2)[0]
                ta = self.block(a, ctx, leave)
                tb = self.block(b, ctx, leave)
                if len(ends) != 2:
                    raise U(st, 'if branches')
                env1 = dict(env)
                for n in both:
                    unify(ends[0][n][1], ends[1][n][1], st)
                    env1[n] = ends[0][n]
                pat, env2 = self.pattern(names, env1)
                return '((if %s then\n%s\nelse\n%s) >>= fun %s =>\n%s)' % (c, ta, tb, pat, self.block(rest, ctx.with_env(env2), k))
            if strip_docstring(rest):
                raise U(st, 'an if with a return in some paths only is followed by statements')
            cont = lambda e2: k(self.restrict(e2, env))
            return '(if %s then\n%s\nelse\n%s)' % (c, self.block(a, ctx, cont), self.block(b, ctx, cont))
        return self.ex(st.test, ctx, with_test)

    def for_stmt(self, st, ctx, go_on):
        env = ctx.env
        if st.orelse:
            raise U(st, 'for … else')
        if has_node(st.body, (ast.Return, ast.Break, ast.Continue)):
            raise U(st, 'return / break / continue inside a for loop')
        if not isinstance(st.target, ast.Name):
            raise U(st, 'for target')
        lv = st.target.id
        if lv in env or lv in self.callees or lv in BUILTINS:
            raise U(st, 'the loop variable %s is already bound' % lv)
        it = st.iter
        if not (isinstance(it, ast.Call) and isinstance(it.func, ast.Name) and it.func.id == 'range' and len(it.args) == 1 and not it.keywords
                and 'range' not in env):
            raise U(st, 'for over something other than range(e)')
        names = self.state_vars(st.body, env, extra_forbidden=(lv,))
        if lv in assigned_names(st.body):
            raise U(st, 'the loop variable %s is assigned in the loop' % lv)

        def with_n(n, tn):
            self.need(tn, INT, st)
            iv = self.fresh()
            pat, env_in = self.pattern(names, env)
            env_body = dict(env_in)
            env_body[lv] = (iv, INT)
            body = self.block(st.body, Ctx(env_body, ctx.ret, True), lambda e2: 'pure %s' % self.tuple_of(names, e2)[0])
            pat_out, env_out = self.pattern(names, env)
            init = self.tuple_of(names, env)[0]
            return '(pyFor (pyRange %s) (fun (%s : Int) %s =>\n%s) %s >>= fun %s =>\n%s)' % (n, iv, pat, body, init, pat_out, go_on(env_out))
        return self.ex(it.args[0], ctx, with_n)

    def while_stmt(self, st, rest, ctx, k):
        env = ctx.env
        if st.orelse:
            raise U(st, 'while … else')
        if has_node(st.body, (ast.Break, ast.Continue, ast.For, ast.While)):
            raise U(st, 'break / continue / nested loop inside a while loop')
        if ctx.in_loop:
            raise U(st, 'while inside a loop')
        # the variant: I < len(S)  /  len(S) > I
        t = st.test
        idx = text = None
        if isinstance(t, ast.Compare) and len(t.ops) == 1:
            l, r = t.left, t.comparators[0]
            if isinstance(t.ops[0], ast.Gt):
                l, r = r, l
            if isinstance(t.ops[0], (ast.Lt, ast.Gt)) and isinstance(l, ast.Name) and isinstance(r, ast.Call) and isinstance(r.func, ast.Name) \
                    and r.func.id == 'len' and len(r.args) == 1 and isinstance(r.args[0], ast.Name) and not r.keywords:
                idx, text = l.id, r.args[0].id
        if idx is None or idx not in env or text not in env or prune(env[idx][1]) != INT:
            raise U(st, 'while condition is not `index < len(text)`')
        assigned = assigned_names(st.body)
        if text in assigned or text in self.mutated:
            raise U(st, 'the text the while condition measures is assigned')
        if not self.increases(st.body, idx):
            raise U(st, 'not every path through the while body increases %s' % idx)
        names = self.state_vars(st.body, env)
        pat_c, env_c = self.pattern(names, env)
        cond = self.ex(st.test, ctx.with_env(env_c), lambda c, tc: self.need(tc, BOOL, st) or 'pure %s' % c)
        pat_b, env_b = self.pattern(names, env)
        body = self.block(st.body, Ctx(env_b, lambda tm: 'pure (LoopStep.ret %s)' % tm, True),
                          lambda e2: 'pure (LoopStep.next %s)' % self.tuple_of(names, e2)[0])
        pat_k, env_k = self.pattern(names, env)
        after = self.block(rest, ctx.with_env(env_k), k)
        init = self.tuple_of(names, env)[0]
        fuel = '((%s).length + 1)' % env[text][0]
        return '(pyWhile (fun %s =>\n%s)\n(fun %s =>\n%s)\n(fun %s =>\n%s)\n%s %s)' % (pat_c, cond, pat_b, body, pat_k, after, fuel, init)

    def increases(self, stmts, idx):
        """every path through the block that does not return executes `idx += <positive literal>`, and nothing else assigns idx"""
        def is_inc(st):
            if isinstance(st, ast.AugAssign) and isinstance(st.target, ast.Name) and st.target.id == idx:
                return isinstance(st.op, ast.Add) and isinstance(st.value, ast.Constant) and type(st.value.value) is int and st.value.value > 0
            if isinstance(st, ast.Assign) and len(st.targets) == 1 and isinstance(st.targets[0], ast.Name) and st.targets[0].id == idx:
                v = st.value
                return (isinstance(v, ast.BinOp) and isinstance(v.op, ast.Add) and isinstance(v.left, ast.Name) and v.left.id == idx
                        and isinstance(v.right, ast.Constant) and type(v.right.value) is int and v.right.value > 0)
            return None     # not an assignment to idx

        def bad(sts):
            for st in sts:
                r = is_inc(st)
                if r is False:
                    return True
                if isinstance(st, ast.AnnAssign) and isinstance(st.target, ast.Name) and st.target.id == idx:
                    return True
                if isinstance(st, ast.If) and (bad(st.body) or bad(st.orelse)):
                    return True
            return False

        def sure(sts):
            sts = strip_docstring(sts)
            for st in sts:
                if is_inc(st) is True:
                    return True
                if isinstance(st, ast.Return):
                    return True
                if isinstance(st, ast.If) and sure(st.body) and sure(st.orelse):
                    return True
            return False
        return not bad(stmts) and sure(stmts)

    # ---------------------------------------------------------------- the function
    def translate(self, extra_params=()):
        fn = self.fn
        a = fn.args
        if fn.decorator_list or a.vararg or a.kwarg or a.kwonlyargs or a.posonlyargs or len(a.args) != len(self.param_types):
            raise U(fn, 'signature of %s' % fn.name)
        env = {}
        binders = list(extra_params)
        for arg, ty in zip(a.args, self.param_types):
            if arg.arg in env or arg.arg in self.callees or arg.arg in BUILTINS:
                raise U(fn, 'parameter name %s' % arg.arg)
            v = self.fresh()
            env[arg.arg] = (v, ty)
            binders.append('(%s : %s)' % (v, lty(ty)))
        if has_node(fn.body, (ast.Global, ast.Nonlocal, ast.FunctionDef, ast.AsyncFunctionDef, ast.Lambda, ast.ClassDef, ast.ListComp, ast.DictComp,
                              ast.SetComp, ast.GeneratorExp, ast.Try, ast.With, ast.Delete, ast.Import, ast.ImportFrom, ast.Yield, ast.YieldFrom,
                              ast.Await, ast.NamedExpr, ast.Starred, ast.Raise, ast.Assert)):
            raise U(fn, 'a construct outside the subset in %s' % fn.name)
        if self.result[0] == 'return':
            def end(env_):
                raise U(fn, '%s can fall off its end (returns None)' % fn.name)
        else:
            pname = a.args[self.result[1]].arg

            def end(env_):
                return 'pure %s' % env_[pname][0]
        body = self.block(fn.body, Ctx(env, lambda t: 'pure %s' % t), end)
        self.check_nested_stores()
        out = 'fun %s =>\n%s' % (' '.join(binders), body)
        return resolve_types(out)

    def check_nested_stores(self):
        """`d[k][j] = e` is translated with value semantics: every value ever stored in d must be a fresh display and d[k] must never
        leave the dictionary (checked syntactically over the whole function)"""
        for x in self.nested_store:
            for n in ast.walk(self.fn):
                if isinstance(n, ast.Assign):
                    for t in n.targets:
                        if isinstance(t, ast.Subscript) and isinstance(t.value, ast.Name) and t.value.id == x and not isinstance(n.value, ast.List):
                            raise U(n, 'a value that is not a fresh list display is stored in %s' % x)
            parents = {}
            for n in ast.walk(self.fn):
                for c in ast.iter_child_nodes(n):
                    parents[c] = n
            for n in ast.walk(self.fn):
                if isinstance(n, ast.Name) and n.id == x:
                    p = parents.get(n)
                    if isinstance(p, ast.Subscript) and p.value is n:
                        pp = parents.get(p)
                        if isinstance(p.ctx, ast.Store):
                            continue
                        if isinstance(pp, ast.Subscript) and pp.value is p:
                            continue
                        raise U(n, '%s[…] leaves the dictionary' % x)
                    if isinstance(p, ast.Compare) and n in p.comparators:
                        continue
                    if isinstance(p, ast.Assign) and n in p.targets and isinstance(p.value, ast.Dict):
                        continue
                    if isinstance(p, ast.AnnAssign) and n is p.target and isinstance(p.value, ast.Dict):
                        continue
                    if isinstance(p, ast.Call) and isinstance(p.func, ast.Name) and p.func.id == 'len':
                        continue
                    raise U(n, '%s is used as a whole' % x)


def resolve_types(text):
    import re
    if re.search(r'@@T\d+@@', text):
        # the marker survives only if the type was still unknown when the text was produced; look the variables up again
        def sub(m):
            tv = TVAR_INDEX.get(int(m.group(1)))
            t = prune(tv) if tv is not None else None
            if t is None or isinstance(t, TVar):
                raise Untranslatable('a type could not be determined')
            return lty(t)
        prev = None
        while prev != text:
            prev = text
            text = re.sub(r'@@T(\d+)@@', sub, text)
    return text


TVAR_INDEX = {}
_tvar_init = TVar.__init__


def _tvar_init2(self):
    _tvar_init(self)
    TVAR_INDEX[self.id] = self


TVar.__init__ = _tvar_init2


# ------------------------------------------------------------------------------------------------------------------
# layout

def indent(term):
    """re-indent a term whose lines were produced without indentation: by parenthesis depth"""
    out = []
    depth = 0
    for line in term.split('\n'):
        line = line.strip()
        if not line:
            continue
        lead = 0
        for ch in line:
            if ch in ')]':
                lead += 1
            else:
                break
        out.append('  ' * (1 + max(depth - lead, 0)) + line)
        for ch in line:
            if ch in '([':
                depth += 1
            elif ch in ')]':
                depth -= 1
    return '\n'.join(out)


# ------------------------------------------------------------------------------------------------------------------

def require_module(tree):
    b = module_bindings(tree)
    if '*' in b:
        raise Untranslatable('peltool.py has a star import')
    for f in FUNCTIONS:
        if b.get(f) != ['def']:
            raise Untranslatable('peltool.py: the name %s is bound by %s (expected: one def)' % (f, b.get(f) or 'nothing'))
    for f in BUILTINS:
        if b.get(f):
            raise Untranslatable('peltool.py: the builtin %s is rebound at module level' % f)
    for n in ast.walk(tree):
        if isinstance(n, ast.Global) and any(x in FUNCTIONS + BUILTINS for x in n.names):
            raise Untranslatable('peltool.py: a `global` statement names %s' % ', '.join(n.names))


SECTIONS_T = LIST(DICT(STR, JSON))
OUT_T = DICT(STR, JSON)


def gen_build_output(tree):
    fn = find_def(tree, 'buildOutput')
    return Fn(fn, [SECTIONS_T, OUT_T], ('param', 1), {}).translate()


def gen_key_end_index(tree):
    fn = find_def(tree, 'keyEndIndex')
    if fn.args.defaults:
        raise U(fn, 'keyEndIndex has a default argument')
    return Fn(fn, [STR], ('return', INT), {}).translate()


def gen_pretty_print(tree):
    fn = find_def(tree, 'prettyPrint')
    if len(fn.args.defaults) != 1:
        raise U(fn, 'prettyPrint: exactly the second parameter has a default')
    return Fn(fn, [STR, INT], ('return', STR), {'keyEndIndex': ('kEI', [STR], INT)}).translate(extra_params=['(kEI : Text → Option Int)'])


def gen_default_space(tree):
    fn = find_def(tree, 'prettyPrint')
    if len(fn.args.defaults) != 1 or len(fn.args.args) != 2 or fn.args.kw_defaults:
        raise U(fn, 'prettyPrint: exactly the second parameter has a default')
    d = fn.args.defaults[0]
    if isinstance(d, ast.UnaryOp) and isinstance(d.op, ast.USub) and isinstance(d.operand, ast.Constant) and type(d.operand.value) is int:
        return '(-%d : Int)' % d.operand.value
    if isinstance(d, ast.Constant) and type(d.value) is int:
        return '(%d : Int)' % d.value
    raise U(fn, 'the default of the second parameter is not an integer literal')


def generate(repo, verif):
    gf = GenFile(verif, 'GenOutput', ['PelModel.TransOutput'], 'modules/pel/peltool/peltool.py: buildOutput, keyEndIndex, prettyPrint')
    cache = {}

    def tree():
        if 't' not in cache:
            try:
                t = pytrans.load_module_ast(repo, PELTOOL)
                require_module(t)
                cache['t'] = t
            except (OSError, SyntaxError) as e:
                cache['t'] = Untranslatable('cannot parse %s: %s' % (PELTOOL, e))
            except Untranslatable as e:
                cache['t'] = e
        if isinstance(cache['t'], Untranslatable):
            raise cache['t']
        return cache['t']

    gf.emit('buildOutput', 'List (List (Text × J)) → List (Text × J) → Option (List (Text × J))', lambda: indent(gen_build_output(tree())))
    gf.emit('keyEndIndex', 'Text → Option Int', lambda: indent(gen_key_end_index(tree())))
    gf.emit('prettyPrint', '(Text → Option Int) → Text → Int → Option Text', lambda: indent(gen_pretty_print(tree())))
    gf.emit('prettyPrintDefaultSpace', 'Int', lambda: indent(gen_default_space(tree())))
    return gf
