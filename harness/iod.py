"""Helpers for the I/O-drawer properties (C14-C17): shipped tables, independent readers, synthetic files, token encoders."""
import os
import re
import struct

import common
from common import tb, tt, tlist

IOD = os.path.join(common.MODULES, 'io_drawer')


def drawer_files():
    return {'mex': (os.path.join(IOD, 'mex_pte.h'), os.path.join(IOD, 'mexStringFile')),
            'nimitz': (os.path.join(IOD, 'nimitz_pte.h'), os.path.join(IOD, 'nimitzStringFile'))}


# ---------------------------------------------------------------- independent readers (no regex shared with the repo)

def _cstring(line, i):
    """read a C string literal starting at line[i] == '"'; returns (raw text between quotes, index after)"""
    assert line[i] == '"'
    j = i + 1
    out = []
    while j < len(line):
        if line[j] == '\\' and j + 1 < len(line) and line[j + 1] == '"':
            out.append('\\"')
            j += 2
        elif line[j] == '"':
            return ''.join(out), j + 1
        else:
            out.append(line[j])
            j += 1
    raise ValueError('unterminated string')


def read_pte_table(path):
    """[(pattern, message_format, params)] read with a hand-written scanner"""
    entries = []
    in_table = False
    for line in open(path):
        st = line.strip()
        if 'pte_entry_struct' in st and 'static_pte_entry_table' in st and '=' in st:
            in_table = True
            continue
        if in_table and st.startswith('{') and '"The End"' in st and st.replace(' ', '').startswith('{""'):
            in_table = False
            continue
        if not in_table or not st.startswith('{') or '"' not in st:
            continue
        try:
            i = st.index('"')
            pattern, i = _cstring(st, i)
            i = st.index('"', i)
            fmt, i = _cstring(st, i)
            i = st.index('{', i)
            j = st.index('}', i)
            params = [int(ch) for ch in st[i + 1:j] if ch.isdigit()]
        except ValueError:
            continue
        if not pattern:
            continue
        entries.append((pattern, fmt.strip().replace('\\"', '"'), params))
    return entries


def read_string_file(path):
    """[(hash, format, location)]"""
    out = []
    for line in open(path):
        if line.endswith('\n'):
            line = line[:-1]
        parts = line.split('||')
        if len(parts) < 3:
            continue
        # the repo's regex is greedy: the format is everything between the first and the LAST '||'
        h = parts[0].strip()
        if not h.isdigit() or not h.isascii():
            continue
        out.append((int(h), '||'.join(parts[1:-1]).strip(), parts[-1].strip()))
    return out


def read_hlog_fields(path):
    out = []
    inside = False
    for line in open(path):
        st = line.strip()
        if 'struct' in st and 'mex_hlog_field' in st and 'mex_hlog_fields' in st and '=' in st:
            inside = True
            continue
        if inside and st.replace(' ', '') == '};':
            inside = False
            continue
        if inside and st.startswith('{') and '"' in st:
            a = st.index('{')
            c = st.index(',', a)
            size = st[a + 1:c].strip()
            q1 = st.index('"', c)
            q2 = st.index('"', q1 + 1)
            if size in ('1', '2') and q2 > q1 + 1:
                out.append((st[q1 + 1:q2], int(size)))
    return out


# ---------------------------------------------------------------- synthetic files

def write_pte_header(path, entries, rng=None):
    """entries: [(pattern, fmt, params_text)] -- params_text is what goes between the braces"""
    with open(path, 'w') as f:
        f.write('// synthetic\n#define X 1\nstatic struct pte_entry_struct static_pte_entry_table[PTE_TABLE_SIZE] =\n{\n')
        for (pat, fmt, ptxt) in entries:
            esc = fmt.replace('"', '\\"')
            f.write('    { "%s", "%s", {%s}, "file.cpp", %d },\n' % (pat, esc, ptxt, 17))
        f.write('    { ""        , "The End" }\n};\n')


def write_hlog_header(path, fields):
    with open(path, 'w') as f:
        f.write('static struct mex_hlog_field mex_hlog_fields[MEX_HLOG_FIELD_COUNT] =\n{\n')
        for i, (name, size) in enumerate(fields):
            f.write('    { %d, "%s" }%s\n' % (size, name, ',' if i + 1 < len(fields) or i % 2 else ''))
        f.write('};\n')


def write_string_file(path, strings):
    with open(path, 'w') as f:
        for (h, fmt, loc) in strings:
            f.write('%d||%s||%s\n' % (h, fmt, loc))


# ---------------------------------------------------------------- token encoders

def tok_tbl(entries):
    return tlist(entries, lambda e: '%s %s %s' % (tt(e[0]), tt(e[1]), tlist(e[2])))


def tok_strs(strings):
    return tlist(strings, lambda x: '%d %s %s' % (x[0], tt(x[1]), tt(x[2])))


def tok_flds(fields):
    return tlist(fields, lambda x: '%s %d' % (tt(x[0]), x[1]))


def ilog_entry(ts, seq, pte):
    return struct.pack('>HHI', ts, seq, pte)
