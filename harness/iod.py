"""Helpers for the I/O-drawer properties (C14-C17): shipped tables, independent readers, synthetic files, token encoders."""
import os
import re
import struct

import common
from common import tb, tt, tlist

IOD = os.path.join(common.MODULES, 'io_drawer')


def drawer_files():
    return {'mex': (os.path.join(IOD, 'mex_pte.h'), os.path.join(IOD, 'mexStringFile')),
            'nimitz': (os.path.join(IOD, 'nimitz_pte.h'), os.path.join(IOD, 'nimitzStringFile'))}


# ---------------------------------------------------------------- the loaders: Lean model vs the repo's code
#
# The three loaders (PTETable._parse_header_file, get_hlog_fields, TraceStringFile.__init__) are modelled in Lean
# (PelModel/Regex.lean = backtracking matcher with the seven patterns, PelModel/Loaders.lean = the line loops).  The harness
# reads a file exactly as the repo does (plain open(path) + iteration: text mode, universal newlines, locale encoding),
# sends the line strings to the driver and compares the answer field by field with what the real loader built.
# There is no Python re-implementation of the loaders in the harness any more.

def file_lines(path):
    with open(path) as f:
        return [line for line in f]


def tok_lines(lines):
    return tlist(lines, tt)


def reply_pte_rows(r):
    """reply of `loadpterows`: [(pattern, fmt, params, file, line)]"""
    out = []
    for _ in range(r.num()):
        pat, fmt = r.text(), r.text()
        params = [r.num() for _ in range(r.num())]
        out.append((pat, fmt, params, r.text(), r.num()))
    return out


def reply_strs(r):
    return [(r.num(), r.text(), r.text()) for _ in range(r.num())]


def reply_flds(r):
    return [(r.text(), r.num()) for _ in range(r.num())]


def real_pte_rows(path):
    """('ok', rows) or ('raise', exception class name)"""
    from io_drawer import ilog as il
    try:
        es = il.PTETable(path).entries
    except Exception as e:      # e.g. int() of more than 4300 digits
        return ('raise', type(e).__name__)
    return ('ok', [(e.pte_pattern, e.message_format, list(e.params), e.file, e.line) for e in es])


def real_strs(path):
    from io_drawer import trace as tr
    try:
        ts = tr.TraceStringFile(path).trace_strings
    except Exception as e:
        return ('raise', type(e).__name__)
    return ('ok', [(t.hash_value, t.message_format, t.location) for t in ts])


def real_flds(path):
    from io_drawer import hlog
    try:
        fs = hlog.get_hlog_fields(path)
    except Exception as e:
        return ('raise', type(e).__name__)
    return ('ok', [(f.name, f.size) for f in fs])


LOADERS = {'pte': ('loadpterows', reply_pte_rows, real_pte_rows),
           'strs': ('loadstrs', reply_strs, real_strs),
           'flds': ('loadhlog', reply_flds, real_flds)}


def loader_request(kind, path):
    """the driver request that runs the Lean loader of `kind` on the lines of the file at `path`"""
    return '%s %s' % (LOADERS[kind][0], tok_lines(file_lines(path)))


def compare_loader(ck, kind, path, reply, label):
    """Lean loader (reply) against the real loader on the same file, field by field.  Returns the real table (or None)."""
    _, parse, real = LOADERS[kind]
    st, val = real(path)
    ck.count('loader %s: %s' % (kind, 'real raises' if st == 'raise' else 'loaded'))
    if not reply.ok:
        # the model declines (outside the modelled subset): counted, never silently accepted as agreement
        ck.skip('loader %s: %s (real: %s)' % (kind, reply.raw[:30], st if st == 'raise' else 'ok'))
        return val if st == 'ok' else None
    model = parse(reply)
    if st == 'raise':
        ck.disagree('real %s loader raises %s where the model loads a table' % (kind, val), {'op': 'load-' + kind, 'case': label, 'text': open(path).read()[:4000]})
        return None
    if model != val:
        k = next((i for i in range(min(len(model), len(val))) if model[i] != val[i]), min(len(model), len(val)))
        ck.disagree('Lean %s loader differs from the real loader' % kind,
                    {'op': 'load-' + kind, 'case': label, 'text': open(path).read()[:4000], 'first_difference': k,
                     'model': model[k:k + 2], 'impl': val[k:k + 2], 'model_len': len(model), 'impl_len': len(val)})
    return val


# ---------------------------------------------------------------- synthetic files

def write_pte_header(path, entries, rng=None):
    """entries: [(pattern, fmt, params_text)] -- params_text is what goes between the braces"""
    with open(path, 'w') as f:
        f.write('// synthetic\n#define X 1\nstatic struct pte_entry_struct static_pte_entry_table[PTE_TABLE_SIZE] =\n{\n')
        for (pat, fmt, ptxt) in entries:
            esc = fmt.replace('"', '\\"')
            f.write('    { "%s", "%s", {%s}, "file.cpp", %d },\n' % (pat, esc, ptxt, 17))
        f.write('    { ""        , "The End" }\n};\n')


def write_hlog_header(path, fields):
    with open(path, 'w') as f:
        f.write('static struct mex_hlog_field mex_hlog_fields[MEX_HLOG_FIELD_COUNT] =\n{\n')
        for i, (name, size) in enumerate(fields):
            f.write('    { %d, "%s" }%s\n' % (size, name, ',' if i + 1 < len(fields) or i % 2 else ''))
        f.write('};\n')


def write_string_file(path, strings):
    with open(path, 'w') as f:
        for (h, fmt, loc) in strings:
            f.write('%d||%s||%s\n' % (h, fmt, loc))


# ---------------------------------------------------------------- token encoders

def tok_tbl(entries):
    return tlist(entries, lambda e: '%s %s %s' % (tt(e[0]), tt(e[1]), tlist(e[2])))


def tok_strs(strings):
    return tlist(strings, lambda x: '%d %s %s' % (x[0], tt(x[1]), tt(x[2])))


def tok_flds(fields):
    return tlist(fields, lambda x: '%s %d' % (tt(x[0]), x[1]))


def ilog_entry(ts, seq, pte):
    return struct.pack('>HHI', ts, seq, pte)


# ---------------------------------------------------------------- adversarial files for the loaders

MUT_CHARS = list('{}"\\,| \t0123456789*\n\r=;.%s') + ['\x0b', '\x0c', '\x1c', '\x85', '\xa0', ' ', '　', '٣', 'é', '||', '\\"', '\r\n', '\x00', '\U0001F600', '\u2028', '\u200b', '\x1e']

PTE_START = 'static struct pte_entry_struct static_pte_entry_table[PTE_TABLE_SIZE] =\n'
PTE_END = '  { ""        , "The End" }\n'
HLOG_START = 'static struct mex_hlog_field mex_hlog_fields[MEX_HLOG_FIELD_COUNT] =\n'
HLOG_END = '};\n'

PTE_LINES = [
    '  { "0200****", "level = %c%c", {3, 4}, "states.cpp", 254 },\n',
    '{ "A1", "m", {12}, "f", 1 },\n', '{ "A2", "m", { 1 ,4}, "f", 1 },\n', '{ "A3", "m", {5}, "f", 1 },\n',
    '{ "A4", "m", {1 2 x 3 0 9}, "f", 1 },\n', '{ "A5", "m", {٣}, "f", 1 },\n', '{ "A6", "m", {é}, "f", 1 },\n',
    '{ "A7", "say \\"hi\\"", {}, "f", 1 },\n', '{ "A8", "trail\\", {}, "f", 1 },\n', '{ "A9", "trail\\\\", {}, "f", 1 },\n',
    '{ "B1", "in"side", {}, "f", 1 },\n', '{ "B2", "A\\" , { B", {1}, "file.cpp", 17 },\n', '{ "B2b", "A\\" , { B } x", {1}, "file.cpp", 17 },\n',
    '{ "B3", "x", {}, "f", 0017 },\n', '{ "B4", "x", {}, "f", +17 },\n', '{ "B5", "x", {}, "f",   17   },\n', '{ "B6", "x", {}, "f", 1_7 },\n',
    '{ "B7", "x", {}, "f", ' + '1' * 4301 + ' },\n', '{ "B8", "x", {}, "f", ' + '0' * 4300 + ' },\n',
    '{ "", "x", {}, "f", 1 },\n', '{ "C1" , "x" , {} , "f" , 1 } , \n', '\t{\t"C2",\t"x",{},"f",1},\n', '{"C3","x",{},"f",1},',
    '{ "C4", "x", {}, "f", 1 }\n', '{ "C5", "x", {}, "f", 1 }, // comment\n', '{ "C6", "x", {}, "f", 1 },\x0c\n', '　{ "C7", "x", {}, "f", 1 },\xa0\n',
    '{ "C8", "  padded \\" ", {}, "f", 1 },\n', '{ "C9", "x", {}, "f", 1 }, { "C9b", "y", {}, "g", 2 },\n',
    '{ "D1", "x", {{1}}, "f", 1 },\n', '{ "D2", "x", {1}}, "f", 1 },\n', '{ "D3", "x", {"}, "f", 1 },\n', '{ "D4", "x", {1}, "f"", 1 },\n',
    '{ "D5", "", {}, "", 1 },\n', '{ "D6", "\\"", {}, "f", 1 },\n', '{ "D7", "\\\\"", {}, "f", 1 },\n', '{ "D8", "a\\"b\\"c\\", {}, "f", 1 },\n',
    '{ "D9", "  m \x1f", {1,\n2}, "f", 1 },\n', '{ "E1", "x", {1, 2, 3, 4, 4, 3}, "f", 1 },\n', '{ "E*", "\\" , {", {}, "f", 1 },\n',
    '{ "E3", "x\\" ,{1}, "g", 2 }, \\"", {3}, "f", 1 },\n', '{ "E4", "x", {}, "f", ١٢ },\n', '{ "E5" "x", {}, "f", 1 },\n', '{\n', '};\n', '\n', '',
    '{ "E6", "' + 'z' * 1500 + '", {}, "f", 1 },\n', ' ' * 1200 + '{ "E7", "x", {}, "f", 1 },' + ' ' * 900 + '\n',
    '{ "E8", "' + '\\"' * 400 + '", {}, "f", 1 },\n', '{ "E9", "' + '\\"' * 300 + '\\", {}, "f", 1 }\n',
]
PTE_STARTS = [
    PTE_START, 'struct pte_entry_struct static_pte_entry_table[PTE_TABLE_SIZE] = \n', 'static struct pte_entry_struct static_pte_entry_table[] = {\n',
    'struct   pte_entry_struct\tstatic_pte_entry_table=\n', 'staticstruct pte_entry_struct static_pte_entry_table =\n',
    ' static  struct pte_entry_struct static_pte_entry_table = { \n', 'static static struct pte_entry_struct static_pte_entry_table =\n',
    'static struct pte_entry_struct static_pte_entry_table = = {\n', 'static struct pte_entry_struct static_pte_entry_table\n',
    'static struct pte_entry_struct static_pte_entry_table ={{\n', 'x static struct pte_entry_struct static_pte_entry_table =\n',
    'static struct pte_entry_struct static_pte_entry_table = {', 'static struct pte_entry_struct static_pte_entry_table = { // c\n',
    'static struct\x0bpte_entry_struct\xa0static_pte_entry_table=\x85{\x1c\n', 'static struct pte_entry_struct static_pte_entry_tableXYZ = "=" =\n',
    'struct pte_entry_struct static_pte_entry_table = { "A", "x", {}, "f", 1 },\n', 'STATIC struct pte_entry_struct static_pte_entry_table =\n',
    'static struct pte_entry_struct  static_pte_entry_table' + '=' * 700 + '\n',
]
PTE_ENDS = [
    PTE_END, '{ "" , "The End" }\n', '{"","The End"} // x\n', '{ "", "The end" }\n', '{ "" , "The End"', '{ ""\n', '{ "", "The End" }, { "Z", "z", {}, "f", 1 },\n',
    '  { ""  ,  "The End"\n', '{ " ", "The End" }\n', '{ "", "The End" "The End" }\t\n', '\x0c{\x0c""\x0c,\x0c"The End"\x0c\n', '{ "", "The End' + ' ' * 800 + '\n',
]
HLOG_LINES = [
    '  { 1, "hl_isolated_standby" }, \n', '  { 2, "hl_power_ups" },\n', '{ 3, "x3" },\n', '{ 0, "x0" },\n', '{ 12, "x12" },\n', '{ 1, "" },\n', '{1,"a"}\n', '{1,"b"},',
    '{ 1 , "c" } , \n', '{ 2, "d" },,\n', '{ 2, "e" } ; \n', '{ 2, "f"g" },\n', '{ 2, "h\\"" },\n', '{ ١, "i" },\n', '{ 1, "j" }, // c\n', '\t{\t2\t,\t"k"\t}\t,\t\n',
    '{ 1, "l" }, { 2, "m" },\n', '{ 1, "n\n', '{ +1, "o" },\n', '{ 1, "p p　" }\x85,\xa0\n', '{\n', '}\n', '} ;\n', ';\n', '\n', '{ 1, "' + 'q' * 2000 + '" },\n',
    ' ' * 1500 + '{ 2, "r" }' + ' ' * 1000 + ',\n', '{ 2 "s" },\n', '{ 1, "t" }}\n',
]
HLOG_STARTS = [
    HLOG_START, 'struct mex_hlog_field mex_hlog_fields[MEX_HLOG_FIELD_COUNT] =\n', 'static struct mex_hlog_field mex_hlog_fields[] = {\n',
    'struct mex_hlog_field\n', 'static  struct\tmex_hlog_field  mex_hlog_fields=\n', 'static struct mex_hlog_field mex_hlog_fields = { { 1, "a" },\n',
    'struct mex_hlog_field mex_hlog_fieldsX==\n', 'static struct nimitz_hlog_field mex_hlog_fields =\n', 'static struct mex_hlog_field mex_hlog_fields = {',
    'staticstruct mex_hlog_field mex_hlog_fields =\n', 'static struct mex_hlog_field mex_hlog_fields = };\n',
]
HLOG_ENDS = [HLOG_END, '}  ;  \n', '};', '} ; // x\n', '}\n', '\t}\t;\x0c\n', '};;\n', '{};\n', '}' + ' ' * 900 + ';\n']
STR_LINES = [
    '92602121||I> ADT7470: trace_level = %u||adt7470_fan_ctl.cpp(926)\n', '#FSP_TRACE_v2|||Thu Sep 24 12:55:43 2020|||BUILD:Release\n',
    '1||a||b||c\n', '2||a|||b\n', '3|||a||b\n', '4||a||b|\n', '5||a||||\n', '6||||\n', '7||| ||\n', '||a||b\n', ' ||a||b\n', '  8  ||  a  ||  b  \n', '+9||a||b\n', '0010||a||b\n',
    '1 1||a||b\n', '12||a||b', '13||a||b\n\n'[:-1], '14|a||b\n', '15||a|b\n', '16||a\n', '١٦||a||b\n', '17||a||b\r', '18\t||\ta\x0c||\x1cb \n', '19||a%d||b||\n',
    '20||' + 'x' * 3000 + '||y\n', '2' * 4300 + '||a||b\n', '3' * 4301 + '||a||b\n', '21||a||b||\n', '22|| ||　\n', '23||é||ü\n', '\n', '', '24||a||b\x0b\n', '25||a\x0cb||c\x1dd\n',
    ' ' * 2000 + '26' + ' ' * 500 + '||a||b\n', '27||' + '||' * 500 + '\n', '28||' + '|' * 1001 + '\n', '0||||\n', '29 ||a|| b\n', '3_0||a||b\n', '31||a||b\n32||c||d\n',
]


def mutate_line(rng, line):
    """one random edit of a line: drop / insert / replace a character out of the delimiter set, duplicate or cut a piece"""
    if not line:
        return rng.choice(MUT_CHARS)
    k = rng.randrange(7)
    i = rng.randrange(len(line))
    if k == 0:
        return line[:i] + line[i + 1:]
    if k == 1:
        return line[:i] + rng.choice(MUT_CHARS) + line[i:]
    if k == 2:
        return line[:i] + rng.choice(MUT_CHARS) + line[i + 1:]
    if k == 3:      # drop / insert one of the delimiters that are there already
        pos = [j for j, c in enumerate(line) if c in '{}"\\,|=; \t\n']
        if pos:
            j = rng.choice(pos)
            return line[:j] + line[j + 1:] if rng.random() < 0.6 else line[:j] + line[j] + line[j:]
        return line
    if k == 4:
        j = rng.randrange(i, len(line) + 1)
        return line[:i] + line[j:]
    if k == 5:
        j = rng.randrange(i, len(line) + 1)
        return line[:j] + line[i:j] + line[j:]
    return line[:i] + rng.choice(['\r\n', '\n', '\r', ' ', '\t', '0', '9', '12', '{ 1 ,4}', '{5}', '\\"', '\\', '"', '||', '*']) + line[i:]


def write_raw(path, text):
    """exact characters; newline='' so that \\r and \\r\\n reach the file and Python's text mode translates them when reading"""
    with open(path, 'w', newline='') as f:
        f.write(text)


def _structural(rng, start, entries, end, starts, ends):
    """file-level mutations: duplicate/omit start or end lines, entries before the start, two tables, an end line inside, no final newline, CRLF"""
    pre = ['// header\n', '#define X 1\n']
    body = list(entries)
    k = rng.randrange(12)
    s1, e1 = rng.choice(starts), rng.choice(ends)
    if k == 0:
        lines = pre + [s1, '{\n'] + body + [e1, '};\n']
    elif k == 1:
        lines = pre + [s1, s1, '{\n'] + body + [e1, e1]
    elif k == 2:
        lines = body[:2] + [s1] + body[2:] + [e1] + body[:1]
    elif k == 3:
        lines = [s1] + body + [e1, '\n', rng.choice(starts)] + list(reversed(body)) + [rng.choice(ends)]
    elif k == 4:
        mid = len(body) // 2
        lines = [s1] + body[:mid] + [e1] + body[mid:] + [e1]
    elif k == 5:
        lines = body + [e1]
    elif k == 6:
        lines = [s1] + body
    elif k == 7:
        lines = [e1, s1] + body + [s1] + body[:1] + [e1]
    elif k == 8:
        lines = [s1 + body[0]] + body[1:] + [e1]
    elif k == 9:
        lines = [s1] + [b.rstrip('\n') for b in body[:1]] + body[1:] + [e1.rstrip('\n')]
    elif k == 10:
        lines = [s1, '{\n'] + [rng.choice([s1, e1, b]) for b in body] + [e1]
    else:
        lines = pre + [start, '{\n'] + body + [end, '};\n']
    text = ''.join(lines)
    r = rng.random()
    if r < 0.15:
        text = text.replace('\n', '\r\n')
    elif r < 0.2:
        text = text.replace('\n', '\r')
    elif r < 0.3 and text.endswith('\n'):
        text = text[:-1]
    return text


def adversarial_files(rng, kind, tmp, n_small, n_whole, shipped):
    """[(label, path)]: (a) every handcrafted line alone inside a table, (b) small files with line- and file-level mutations,
    (c) whole shipped files with EVERY line mutated once"""
    if kind == 'pte':
        start, end, lines, starts, ends = PTE_START, PTE_END, PTE_LINES, PTE_STARTS, PTE_ENDS
    elif kind == 'flds':
        start, end, lines, starts, ends = HLOG_START, HLOG_END, HLOG_LINES, HLOG_STARTS, HLOG_ENDS
    else:
        start, end, lines, starts, ends = '', '', STR_LINES, [''], ['']
    good = lines[0]
    out = []

    def emit(label, text):
        path = os.path.join(tmp, 'adv_%s_%d' % (kind, len(out)))
        write_raw(path, text)
        out.append((label, path))

    for i, l in enumerate(lines):
        emit('%s line %d' % (kind, i), start + good + l + ('' if l.endswith('\n') or not l else '\n') + good + end + good)
        if l and not l.endswith('\n'):
            emit('%s line %d last' % (kind, i), start + good + l)
    if kind != 'strs':
        for i, st in enumerate(starts):
            emit('%s start %d' % (kind, i), good + st + ('' if st.endswith('\n') else '\n') + good + lines[1] + end + good)
            emit('%s start-only %d' % (kind, i), st)
        for i, en in enumerate(ends):
            emit('%s end %d' % (kind, i), start + good + en + ('' if en.endswith('\n') else '\n') + lines[1] + start + good + en)
    pool = [l for l in lines if len(l) < 400]
    ship_lines = [l for p in shipped for l in file_lines(p)]
    for i in range(n_small):
        body = [rng.choice(pool) if rng.random() < 0.5 else rng.choice(ship_lines) for _ in range(rng.randrange(1, 8))]
        body = [mutate_line(rng, b) if rng.random() < 0.6 else b for b in body]
        if rng.random() < 0.3:
            body = [mutate_line(rng, b) for b in body]
        if kind == 'strs':
            text = ''.join(body)
            if rng.random() < 0.2:
                text = text.replace('\n', '\r\n')
            elif rng.random() < 0.2 and text.endswith('\n'):
                text = text[:-1]
        else:
            text = _structural(rng, start, body, end, [mutate_line(rng, x) if rng.random() < 0.3 else x for x in starts],
                               [mutate_line(rng, x) if rng.random() < 0.3 else x for x in ends])
        emit('%s small %d' % (kind, i), text)
    for i in range(n_whole):
        p = shipped[i % len(shipped)]
        ls = file_lines(p)
        # every line mutated once; start/end lines are kept in one half of the variants so that the table stays open
        keep = (i // len(shipped)) % 2 == 0
        ml = []
        for l in ls:
            special = ('static_pte_entry_table' in l or 'The End' in l or 'mex_hlog_fields' in l or l.strip() == '};')
            ml.append(l if (keep and special) else mutate_line(rng, l))
        emit('%s whole %s %d' % (kind, os.path.basename(p), i), ''.join(ml))
    return out


def run_loader_stream(ck, kind, files):
    """Lean loader vs real loader on each (label, path); returns the number of files on which both loaded something"""
    reqs = [loader_request(kind, p) for _, p in files]
    replies = common.lean_batch(reqs)
    loaded = 0
    for (label, path), r in zip(files, replies):
        val = compare_loader(ck, kind, path, r, label)
        nontrivial = bool(val)
        ck.case(key=('load', kind, open(path, newline='').read()) if nontrivial else None,
                sample={'loader': kind, 'file': label, 'entries': len(val) if val is not None else None})
        loaded += nontrivial
    return loaded


# ---------------------------------------------------------------- the seven patterns, one line at a time

def repo_patterns():
    """the seven compiled patterns of the code under test, by the names the model's ASTs are written next to; None where the name is gone
    (the loaders are then compared file by file only)"""
    from io_drawer import ilog as il, hlog, trace as tr
    out = []
    for owner, name in ((il, 'TBL_START_RE'), (il, 'TBL_ENTRY_RE'), (il, 'TBL_END_RE'), (hlog, 'HLOG_START_RE'), (hlog, 'HLOG_FIELD_RE'),
                        (hlog, 'HLOG_END_RE'), (getattr(tr, 'TraceStringFile', None), 'LINE_RE')):
        pat = getattr(owner, name, None)
        out.append(pat if hasattr(pat, 'fullmatch') else None)
    return out


PATTERN_NAMES = ['TBL_START_RE', 'TBL_ENTRY_RE', 'TBL_END_RE', 'HLOG_START_RE', 'HLOG_FIELD_RE', 'HLOG_END_RE', 'LINE_RE']
PATTERN_TOKENS = {
    0: ['static', 'struct', 'pte_entry_struct', 'static_pte_entry_table', ' ', '  ', '\t', '\n', '=', '{', 'x', '[3]', '\x0c', '==', '{{', 'stat', 'ic', '.', '\r', '　'],
    1: ['{', '}', '"', '\\"', '\\', ',', ' ', '\t', '\n', 'A', '0', '12', '7', ', ', '{}', '""', '" ,', '{ "', '" }', '},', ' , {', 'é', '٣', '\x1f'],
    2: ['{', '""', ',', '"The End"', ' ', '\t', '\n', '}', 'x', '"', 'The End', '\n\n', '\x0b', ';'],
    3: ['static', 'struct', 'mex_hlog_field', 'mex_hlog_fields', ' ', '  ', '\t', '\n', '=', '{', 'x', '[3]', 's', '==', '\xa0'],
    4: ['{', '}', '1', '2', '3', '12', ',', '"', 'a', ' ', '\t', '\n', ',,', '""', '"b"', '},', ' ,', '\x85'],
    5: ['}', ';', ' ', '\t', '\n', '};', 'x', '\x1c', '}}', ';;'],
    6: ['||', '|', '0', '17', '4', ' ', '\t', '\n', 'a', 'b%d', '|||', '||||', '\r', '\n\n', '+', 'x', '９', '　'],
}


WS_CHOICES = ['', '', ' ', ' ', '  ', '\t', '\n', '\x0c', '\xa0', '　', ' \t', '\x1f\x85']


def structured_line(rng, k):
    """a line built along the structure of pattern k (so that most of them match), with adversarial fillings"""
    def w():
        return rng.choice(WS_CHOICES)

    def w1():
        return rng.choice([' ', '  ', '\t', ' \t ', '\xa0', ''])

    def some(toks, lo, hi):
        return ''.join(rng.choice(toks) for _ in range(rng.randrange(lo, hi)))
    if k in (0, 3):
        n1, n2 = ('pte_entry_struct', 'static_pte_entry_table') if k == 0 else ('mex_hlog_field', 'mex_hlog_fields')
        pre = rng.choice(['', w() + 'static' + w1(), w() + 'static' + w1() + 'static' + w1()])
        return (pre + w() + 'struct' + w1() + n1 + w1() + n2 + some(['[N]', '=', ' ', '{', 'x', '\t', '==', '\r'], 0, 4) + '=' + w()
                + rng.choice(['', '{', '{{']) + w())
    if k == 1:
        msg = some(['a', 'b c', '\\"', '\\', ' ', ',', '{', '}', ' , {', '%d', "'", '\\\\"'] + (['"'] if rng.random() < 0.1 else []), 0, 7)
        par = some(['1', '2', '12', ' ', ',', ', ', '5', '0', 'x', '"', '{'] + (['}'] if rng.random() < 0.1 else []), 0, 5)
        return (w() + '{' + w() + '"' + some(['0', 'E', '*', 'f', ' ', ','] + ([''] * 1), 0 if rng.random() < 0.1 else 1, 9) + '"' + w() + ',' + w() + '"' + msg + '"' + w() + ','
                + w() + '{' + par + '}' + w() + ',' + w() + '"' + some(['f', '.cpp', ' ', ',', '}'], 0, 4) + '"' + w() + ',' + w()
                + some(list('0123456789'), 0 if rng.random() < 0.1 else 1, 6) + w() + '}' + w() + rng.choice([',', ',', ',', '', ',,']) + w())
    if k == 2:
        return w() + '{' + w() + '""' + w() + ',' + w() + '"The End"' + some(['}', ' ', 'x', '"', ',', '\r', '\t'], 0, 5) + w()
    if k == 4:
        return (w() + '{' + w() + rng.choice(['1', '2', '1', '2', '3', '12', '']) + w() + ',' + w() + '"' + some(['a', 'b_', ' ', ',', '}', '\\', ';'], 0 if rng.random() < 0.1 else 1, 6)
                + '"' + w() + '}' + w() + rng.choice([',', ',', '', ',,']) + w())
    if k == 5:
        return w() + '}' + w() + ';' + w()
    return (w() + some(list('0123456789'), 0 if rng.random() < 0.1 else 1, 9) + w() + '||' + some(['a', 'I> x = %u', '|', '||', ' ', '\t', '\r'], 0, 6) + '||'
            + some(['b.cpp(1)', '|', '||', ' ', 'c'], 0, 4) + rng.choice(['\n', '\n', '', '\n\n', ' \n']))


def pattern_lines(rng, k, n, base_lines):
    """lines aimed at pattern k: random token strings, mutated valid lines, every prefix and suffix of one valid line"""
    toks = PATTERN_TOKENS[k]
    out = []
    for _ in range(n):
        r = rng.random()
        if r < 0.5:
            l = structured_line(rng, k)
            if rng.random() < 0.3:
                l = mutate_line(rng, l)
            out.append(l)
        elif r < 0.75 or not base_lines:
            out.append(''.join(rng.choice(toks) for _ in range(rng.randrange(0, 14))))
        else:
            l = rng.choice(base_lines)
            for _ in range(rng.randrange(1, 4)):
                l = mutate_line(rng, l)
            if rng.random() < 0.3:
                i = rng.randrange(len(l) + 1)
                l = l[:i] + ''.join(rng.choice(toks) for _ in range(rng.randrange(1, 4))) + l[i:]
            out.append(l)
    if base_lines:
        l = base_lines[0]
        out += [l[:i] for i in range(len(l) + 1)] + [l[i:] for i in range(len(l) + 1)]
    return [l for l in out if len(l) < 3000]


def run_pattern_stream(ck, ks, rng, n, base):
    """`pattern.fullmatch(line)` (None-ness and groups()) of the repo's compiled patterns against the Lean matcher on the Lean ASTs"""
    pats = repo_patterns()
    gone = [k for k in ks if pats[k] is None]
    for k in gone:
        # the correspondence of this pattern cannot be run any more: a break of the tie, not a verdict on the property (the loaders are still
        # compared with the model on whole files, where a behavioural difference shows as a failing input)
        ck.disagree('the pattern %s that the model transcribes is no longer there in the code under test' % PATTERN_NAMES[k], {'op': 'fullmatch', 'case': PATTERN_NAMES[k]})
    ks = [k for k in ks if pats[k] is not None]
    reqs, meta = [], []
    for k in ks:
        for l in pattern_lines(rng, k, n, base.get(k, [])):
            reqs.append('regroups %d %s' % (k, tt(l)))
            meta.append((k, l))
    matched = 0
    for (k, l), r in zip(meta, common.lean_batch(reqs)):
        m = pats[k].fullmatch(l)
        real = None if m is None else list(m.groups())
        if r.num() == 0:
            model = None
        else:
            model = [(r.text() if r.num() else None) for _ in range(r.num())]
        ck.case(key=('re', k, l) if real is not None else None, sample={'pattern': PATTERN_NAMES[k], 'line': l[:80]})
        ck.count('%s: %s' % (PATTERN_NAMES[k], 'match' if real is not None else 'no match'))
        matched += real is not None
        if model != real:
            ck.disagree('Lean matcher and re disagree on %s.fullmatch' % PATTERN_NAMES[k],
                        {'op': 'fullmatch', 'case': PATTERN_NAMES[k], 'text': l, 'model': model, 'impl': real})
    return matched


def check_rewritten_table_file(ck, label, files, decode, rng, rounds):
    """One process, ONE path, a table file that is rewritten between decodes: every decode must use the table that is in the
    file NOW.  `files` = paths of table files that were already compared with the model; `decode(path)` decodes a fixed sample
    with the table file at `path`.  The content of two of them is copied in turn to one shared path (same name, and the second
    one is given the first one's size-preserving timestamps) and the result through the shared path must be the result through
    the original path, which the model has vouched for."""
    import os
    import shutil
    if len(files) < 2:
        return
    import tempfile
    shared = os.path.join(tempfile.gettempdir(), 'shared_table_file_' + label)     # (the run's private scratch directory)
    done = 0
    for _ in range(rounds * 6):
        if done >= rounds:
            break
        a, b = rng.sample(files, 2)
        seq = [a, b, a] if rng.random() < 0.5 else [a, b]
        want = {p: decode(p) for p in set(seq)}
        if want[a] == want[b]:
            ck.count('table file rewritten between decodes: pair that the sample cannot tell apart (skipped)')
            continue
        done += 1
        st = None
        for i, src in enumerate(seq):
            shutil.copyfile(src, shared)
            if st is not None:
                os.utime(shared, ns=(st.st_atime_ns, st.st_mtime_ns))      # a rewrite within the same clock tick
            st = os.stat(shared)
            got = decode(shared)
            ck.case(key=('rewritten', label, open(src, 'rb').read(), i))
            ck.count('table file rewritten between decodes')
            if got != want[src]:
                k = next((j for j in range(min(len(got), len(want[src]))) if got[j] != want[src][j]), min(len(got), len(want[src])))
                ck.fail('the decode does not use the table that is in the file now (the same path held another table during an earlier decode)',
                        {'op': 'rewritten-table-file', 'table': label, 'sequence': [open(p).read()[:2000] for p in seq[:i + 1]], 'step': i,
                         'first_difference': k, 'expected': want[src][k:k + 2], 'actual': got[k:k + 2]}, 'stale_table')
                break
    try:
        os.remove(shared)
    except OSError:
        pass


# ---------------------------------------------------------------- the decoders with assertions disabled

def check_optimised(ck, calls, what):
    """calls: [(decoder, data bytes, [table file paths], output of the same call in this interpreter)].  The same calls in one `python -O`
    interpreter (harness/optio.py) must give the same output lines: the properties hold "for any bytes", whatever the interpreter flags."""
    import json
    import os
    import subprocess
    if not calls:
        return
    inp = ''.join(json.dumps([dec, data.hex()] + list(paths)) + '\n' for dec, data, paths, _ in calls)
    try:
        p = subprocess.run([common.PY, '-O', '-W', 'ignore', '-B', os.path.join(os.path.dirname(os.path.abspath(__file__)), 'optio.py')],
                           input=inp.encode(), stdout=subprocess.PIPE, stderr=subprocess.PIPE, env=common.child_env(), timeout=600)
        lines = p.stdout.decode().split('\n')[:-1]
        rc = p.returncode
    except subprocess.TimeoutExpired:
        lines, rc = [], -999
    if rc != 0 or len(lines) != len(calls):
        ck.fail('decoding the %s in one `python -O` interpreter did not finish (exit %s, %d of %d answers)' % (what, rc, len(lines), len(calls)),
                {'op': 'optimised-batch', 'case': what, 'exit': rc}, 'opt_batch')
        return
    for (dec, data, paths, normal), l in zip(calls, lines):
        got = json.loads(l)
        ck.case(key=('-O', dec, data, tuple(paths)))
        ck.count('%s under python -O' % dec)
        if got != normal:
            k = next((i for i in range(min(len(got), len(normal))) if got[i] != normal[i]), min(len(got), len(normal)))
            ck.fail('the %s decoder gives different output when assertions are disabled (python -O)' % dec,
                    {'op': 'optimised', 'case': dec, 'optimise': True, 'data_hex': data.hex(), 'first_difference': k, 'normal': normal[k:k + 2], 'under_O': got[k:k + 2]}, 'differs_O')


LINKFARM_WORKER = r'''
import json, sys
sys.dont_write_bytecode = True
from udparsers.m2c00 import m2c00
import io_drawer
out = [io_drawer.__file__]
for sub, ver, hx in json.load(sys.stdin):
    try:
        out.append(json.loads(m2c00.parseUDToJson(sub, ver, memoryview(bytes.fromhex(hx)))))
    except BaseException as e:
        out.append({'<raises>': type(e).__name__})
json.dump(out, sys.stdout)
'''


def check_linkfarm(ck, calls, what):
    """The shipped I/O-drawer parser module in an installation laid out the way link-farm installers do it (GNU stow, Nix profiles, Bazel
    runfiles): every python file of the io_drawer package is an individual symbolic link into a store directory, the table files lie next
    to the LINKS (that is where the package is), and the store holds other files of the same names.  `calls` = [(sub-type, version,
    bytes)]: each must be shown exactly as this process (running from the source tree) shows it."""
    import json
    import shutil
    import subprocess
    import tempfile
    src = os.path.join(common.MODULES, 'io_drawer')
    try:
        from udparsers.m2c00 import m2c00
    except ImportError as e:
        ck.skip('udparsers.m2c00 unavailable: %r' % e)
        return
    root = tempfile.mkdtemp(prefix='linkfarm_')
    try:
        store = os.path.join(root, 'store', 'abc123-io_drawer-py')
        farm = os.path.join(root, 'profile', 'io_drawer')
        os.makedirs(store)
        os.makedirs(farm)
        for n in sorted(os.listdir(src)):
            p = os.path.join(src, n)
            if not os.path.isfile(p):
                continue
            if n.endswith('.py'):
                shutil.copy(p, os.path.join(store, n))
                os.symlink(os.path.join(store, n), os.path.join(farm, n))
            else:
                shutil.copy(p, os.path.join(farm, n))
                # in the store: a file of the same name from "another firmware level" (other field widths / the strings in another order)
                with open(p, encoding='utf-8', errors='surrogateescape') as f:
                    lines = f.read().split('\n')
                other = [l.replace('{ 1,', '{ 2,') if '{ 1,' in l else l.replace('{ 2,', '{ 1,') for l in lines] if n.endswith('.h') else lines[::-1]
                with open(os.path.join(store, n), 'w', encoding='utf-8', errors='surrogateescape') as f:
                    f.write('\n'.join(other))
        env = common.child_env()
        env['PYTHONPATH'] = os.path.join(root, 'profile') + os.pathsep + env['PYTHONPATH']
        p = subprocess.run([common.PY, '-W', 'ignore', '-B', '-c', LINKFARM_WORKER], input=json.dumps([(s, v, bytes(d).hex()) for s, v, d in calls]).encode(),
                           stdout=subprocess.PIPE, stderr=subprocess.PIPE, env=env, timeout=300)
        try:
            got = json.loads(p.stdout.decode())
        except Exception:
            got = None
        if not got or len(got) != len(calls) + 1 or not str(got[0]).startswith(farm):
            ck.disagree('the parser module could not be run from a link-farm installation of the io_drawer package',
                        {'op': 'linkfarm', 'what': what, 'stderr': p.stderr.decode(errors='replace')[-400:], 'package': (got or [None])[0]})
            return
        for (s, v, d), g in zip(calls, got[1:]):
            try:
                want = json.loads(m2c00.parseUDToJson(s, v, memoryview(bytes(d))))
            except Exception as e:  # noqa
                want = {'<raises>': type(e).__name__}
            ck.case(key=('linkfarm', s, v, bytes(d)))
            ck.count('%s through the parser module in a link-farm installation' % what)
            if g != want:
                ck.fail('installed as individual symbolic links (table files next to the links), the I/O-drawer parser module shows the data differently than from the source tree',
                        {'op': 'linkfarm', 'subtype': s, 'version': v, 'data_hex': bytes(d).hex(), 'actual': str(g)[:300], 'expected': str(want)[:300]}, 'linkfarm')
    finally:
        shutil.rmtree(root, ignore_errors=True)
