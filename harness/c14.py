"""C14 — ILOG decoding reports every entry with the first matching table message."""
import json
import os
import shutil
import tempfile

import common
import iod
from common import Check, lean_batch, tb, tt, tlist

TRUSTED = ['Lean 4.33.0 kernel (+ leanchecker in the thorough tier)',
           'axioms: propext, Classical.choice, Quot.sound only (audited per theorem)',
           'harness/extract.py (pins), harness/c14.py + iod.py (generators, independent header reader, comparison), Drv.lean protocol parsing',
           'compiled driver peldrv agrees with the kernel reading of the same definitions']
ASSUME = ["CPython's % operator is modelled by pyFmt for the subset {flags 0 -, width, .precision, h l L, d i u x X c s %}; "
          'theorems treat it opaquely; formats outside the subset are counted and skipped',
          'the regex that reads the C header (TBL_ENTRY_RE) is not modelled: synthetic header files written from abstract '
          'tables and an independent reader on the shipped files tie it to the abstract table',
          'patterns over [0-9A-Fa-f*] only (any other pattern character is reported unsupported)']
RULE = ('cases = (table, ILOG byte string); shipped tables: entries hitting every pattern with wildcard cells varied, '
        'reported/unreported variants, random entries, zero entries, lengths not multiples of 8; synthetic tables through '
        'temporary header files. non-trivial = at least one non-zero entry; distinct by (table, bytes)')


def fill(pattern, rng):
    return int(''.join(rng.choice('0123456789ABCDEF') if c == '*' else c for c in pattern), 16)


def run(tier, seed):
    ck = Check('C14', tier, seed)
    ck.proof = common.build_and_audit('C14', thorough=(tier == 'thorough'))
    if not ck.proof['driver_ok']:
        return ck.finish(RULE, TRUSTED, ASSUME)
    from io_drawer import ilog as il
    rng = ck.rng
    thorough = tier == 'thorough'
    tmp = tempfile.mkdtemp(prefix='c14_')
    try:
        reqs, meta = [], []   # meta: (kind, header_path, data, extra)
        tbl_ids = {}

        def deftbl(entries):
            reqs.append('deftbl ' + iod.tok_tbl(entries))
            meta.append(('def', None, None, None))
            tbl_ids[len(tbl_ids)] = entries
            return len(tbl_ids) - 1

        # ---- shipped tables: independent reader vs the repo's loader
        for name, (hdr, _) in iod.drawer_files().items():
            mine = iod.read_pte_table(hdr)
            theirs = il.PTETable(hdr).entries
            ck.case(key=('table', name, len(mine)), sample={'table': name, 'entries': len(mine)})
            ok = len(mine) == len(theirs) and all(
                m[0] == t.pte_pattern and m[1] == t.message_format and tuple(p for p in m[2] if 1 <= p <= 4) == tuple(t.params)
                for m, t in zip(mine, theirs))
            if not ok:
                ck.disagree('independent reader and PTETable disagree on shipped table ' + name, {'table': name, 'mine': len(mine), 'theirs': len(theirs)})
            tid = deftbl(mine)
            pats = [m[0] for m in mine if all(c in '0123456789abcdefABCDEF*' for c in m[0]) and len(m[0]) == 8]
            # entries hitting each pattern, reported variants, near misses
            ptes = []
            for p in (pats if thorough else rng.sample(pats, min(len(pats), 250))):
                for _ in range(3 if thorough else 1):
                    v = fill(p, rng)
                    ptes.append(v)
                    if (v & 0xF0000000) == 0xE0000000:
                        ptes.append(v | 0x00040000)
                        ptes.append(v & ~0x00040000 & 0xFFFFFFFF)
                    ptes.append(v ^ (1 << rng.randrange(32)))
            ptes += [rng.randrange(2 ** 32) for _ in range(400)] + [0, 0xFFFFFFFF, 0xE0040000, 0xE0000000, 0xEFFFFFFF]
            rng.shuffle(ptes)
            i = 0
            while i < len(ptes):
                n = rng.randrange(1, 40)
                es = []
                for v in ptes[i:i + n]:
                    ts = rng.choice([0, 1, 59, 60, 3599, 3600, 0xFFFE, 0xFFFF, rng.randrange(65536)])
                    es.append((ts, rng.choice([0, 1, 0xFFFF, rng.randrange(65536)]), v))
                    if rng.random() < 0.1:
                        es.append((0, 0, 0))
                i += n
                tail = bytes(rng.randrange(256) for _ in range(rng.choice([0, 0, 1, 3, 7])))
                reqs.append('ilogspec %d %s %s' % (tid, tlist(es, lambda e: '%d %d %d' % e), tb(tail)))
                meta.append(('spec', hdr, None, (name, es, tail)))
            # raw random byte strings
            for _ in range(200 if thorough else 40):
                data = bytes(rng.randrange(256) for _ in range(rng.randrange(0, 100)))
                reqs.append('ilog %d %s' % (tid, tb(data)))
                meta.append(('raw', hdr, data, name))

        # ---- synthetic tables through temporary header files
        fmts = ['plain', 'PS%d - Faults', 'lvl %c%c', 'v=%02X %x', '%d%%', '%5d|%-4d|', 'say \"hi\" %d', '%d %d %d %d %d', '%q', 'trail %',
                '%.2X %.4X', '%u', '%ld', '  padded  ', '%c', '%s',
                '100%%', '%%', 'a%%b%%c', '%% %d', 'load %d%% of %d%%']
        for t in range(60 if thorough else 12):
            ents = []
            for _ in range(rng.randrange(1, 12)):
                pat = ''.join(rng.choice('0123456789ABCDEFabcdef*****') for _ in range(8))
                if rng.random() < 0.3:
                    pat = rng.choice(['E', 'e']) + pat[1:]
                if rng.random() < 0.15:
                    pat = pat[:rng.choice([7, 9]) if rng.random() < 0.5 else 8] + ('A' if rng.random() < 0.5 else '')
                ptxt = ', '.join(str(rng.choice([0, 1, 2, 3, 4, 5, 9, 12, 34])) for _ in range(rng.randrange(0, 5)))
                ents.append((pat, rng.choice(fmts), ptxt))
            family = []
            if t % 2 == 1:
                # overlap family around one reported error PTE v (flag 0x00040000 = hex digit 3): patterns that match only the
                # value as stored, only the value with the flag cleared, or both (wildcard over the flag digit), in every order;
                # "first match in header-file order" must be decided entry by entry, not as-stored first and cleared second
                v = (rng.randrange(2 ** 32) & 0x0FFFFFFF) | 0xE0040000
                cleared = v & ~0x00040000
                def pat_of(x, wild_flag):
                    h = '%08X' % x
                    return ''.join(('*' if wild_flag else c) if i == 3 else c if (i == 0 or rng.random() < 0.55) else '*' for i, c in enumerate(h))
                fam = [(pat_of(cleared, False), 'CLEARED %d', '1'), (pat_of(v, False), 'STORED %d', '2'), (pat_of(v, True), 'BOTH %d', '3'),
                       (pat_of(cleared, False), 'CLEARED2', '')]
                rng.shuffle(fam)
                fam = fam[:rng.randrange(2, 5)]
                pos = rng.randrange(len(ents) + 1)
                ents[pos:pos] = fam
                family = [v, cleared, v ^ 0x00000001, cleared ^ 0x00100000, v | 0x00080000]
            path = os.path.join(tmp, 'synth%d.h' % t)
            iod.write_pte_header(path, ents)
            abstract = [(p, f.strip(), [int(ch) for ch in ptxt if ch.isdigit()]) for (p, f, ptxt) in ents]
            tid = deftbl(abstract)
            for _ in range(30):
                es = []
                for _ in range(rng.randrange(1, 8)):
                    p = rng.choice(ents)[0]
                    v = fill(p.ljust(8, '0')[:8], rng) if rng.random() < 0.8 else rng.randrange(2 ** 32)
                    if rng.random() < 0.4:
                        v = (v | 0xE0040000) & 0xEFFFFFFF | 0xE0000000
                    if family and rng.random() < 0.5:
                        v = rng.choice(family)
                    es.append((rng.randrange(65536), rng.randrange(65536), v & 0xFFFFFFFF))
                reqs.append('ilogspec %d %s %s' % (tid, tlist(es, lambda e: '%d %d %d' % e), tb(b'')))
                meta.append(('spec', path, None, ('synth%d' % t, es, b'')))

        replies = lean_batch(reqs)
        for (kind, hdr, data, extra), r in zip(meta, replies):
            if kind == 'def':
                continue
            if not r.ok:
                ck.skip(r.raw[:40])
                continue
            if kind == 'raw':
                real = il.parse_ilog_data(memoryview(data), hdr)
                ck.case(key=('raw', extra, data) if len(data) >= 8 else None, sample={'table': extra, 'data': data.hex()[:48]})
                ck.count('raw bytes')
                if r.lines()[2:] != real[2:] or len(real) < 2:
                    ck.disagree('parse_ilog_data differs from model', {'op': 'ilog', 'table': extra, 'data_hex': data.hex(), 'impl': real[:6]})
                continue
            name, es, tail = extra
            data = r.bytes()
            model, spec = r.lines(), r.lines()
            real = il.parse_ilog_data(memoryview(data), hdr)
            nz = [e for e in es if e != (0, 0, 0)]
            ck.case(key=(name, data) if nz else None, sample={'table': name, 'entries': es[:3], 'tail': tail.hex()})
            ck.count('entries=%s tail=%d' % ('1' if len(es) == 1 else 'many', len(tail)))
            rp = {'op': 'ilog', 'table': name, 'header_file': hdr if 'synth' not in name else open(hdr).read(),
                  'entries': es, 'tail_hex': tail.hex(), 'data_hex': data.hex()}
            # property on the real code: heading + exactly the spec lines
            if len(real) != len(spec) or real[2:] != spec[2:]:
                k = next((i for i in range(2, min(len(real), len(spec))) if real[i] != spec[i]), min(len(real), len(spec)))
                ck.fail('ILOG output contradicts the property', rp | {'first_difference': k, 'expected': spec[k:k + 1], 'actual': real[k:k + 1]}, 'ilog_lines')
            if real[2:] != model[2:] or len(real) != len(model):
                ck.disagree('parse_ilog_data differs from model', rp | {'impl': real[:5], 'model': model[:5]})
    finally:
        shutil.rmtree(tmp, ignore_errors=True)
    return ck.finish(RULE, TRUSTED, ASSUME)


def replay(path):
    rp = json.load(open(path))
    print(json.dumps(rp, indent=1)[:3000])
    print('re-run ./check C14 to re-evaluate (the replay records table, entries and the expected/actual lines)')
    return 0
