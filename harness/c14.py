"""C14 — ILOG decoding reports every entry with the first matching table message."""
import json
import os
import shutil
import tempfile

import common
import iod
from common import Check, lean_batch, tb, tt, tlist

TRUSTED = ['Lean 4.33.0 kernel (+ leanchecker in the thorough tier)',
           'axioms: propext, Classical.choice, Quot.sound only (audited per theorem)',
           'harness/extract.py (pins), harness/c14.py + iod.py (generators, file reading with plain open() + iteration, comparison), Drv.lean protocol parsing',
           'compiled driver peldrv agrees with the kernel reading of the same definitions']
ASSUME = ["CPython's % operator is modelled by pyFmt for the subset {flags 0 -, width, .precision, h l L, d i u x X c s %}; "
          'theorems treat it opaquely; formats outside the subset are counted and skipped',
          'the header LOADER is modelled (PelModel/Regex.lean: backtracking matcher + TBL_START_RE/TBL_ENTRY_RE/TBL_END_RE as ASTs; '
          'Loaders.lean: the in_table line loop, _add_entry, the 1..4 filter) and proved to read back printed tables '
          '(pte_header_roundtrip, lines_outside_table_ignored, non_matching_lines_skipped); that the Lean ASTs denote the same '
          "patterns as the repo's pattern STRINGS and that the matcher has CPython's semantics is established by correspondence only: "
          'Lean loader vs PTETable(path).entries, all five fields, on the shipped headers, the synthetic headers and the adversarial stream; '
          'the harness has no reader of its own any more, every table used for decoding is loaded by the model from the file lines',
          'loader answers outside the modelled subset are counted as skipped, never as agreement: non-ASCII characters in a parameter list, '
          'more than 4300 line-number digits (int() raises), a pattern character that can make re.compile raise (\\ + ? { ( ) [)',
          'files are read with open(path) + iteration exactly as the repo does (text mode, universal newlines, locale encoding = UTF-8 here)',
          'patterns over [0-9A-Fa-f*] only (any other pattern character is reported unsupported)']
RULE = ('cases = (table, ILOG byte string); shipped tables: entries hitting every pattern with wildcard cells varied, '
        'reported/unreported variants, random entries, zero entries, lengths not multiples of 8; synthetic tables through '
        'temporary header files. non-trivial = at least one non-zero entry; distinct by (table, bytes). '
        'Loader cases = header files (shipped, synthetic, adversarial: every handcrafted entry/start/end line variant, small files with '
        'character-level and file-level mutations, whole shipped headers with every line mutated); non-trivial = both loaders return a '
        'non-empty table; distinct by file content')


def fill(pattern, rng):
    return int(''.join(rng.choice('0123456789ABCDEF') if c == '*' else c for c in pattern), 16)


def run(tier, seed):
    ck = Check('C14', tier, seed)
    ck.proof = common.build_and_audit('C14', thorough=(tier == 'thorough'))
    if not ck.proof['driver_ok']:
        return ck.finish(RULE, TRUSTED, ASSUME)
    from io_drawer import ilog as il
    rng = ck.rng
    thorough = tier == 'thorough'
    tmp = tempfile.mkdtemp(prefix='c14_')
    try:
        reqs, meta = [], []   # meta: (kind, header_path, data, extra)
        tbl_ids = {}

        def deftblfile(path):
            """install the table that the LEAN loader reads from the lines of `path`; the index is allocated in any case"""
            reqs.append('deftblfile ' + iod.tok_lines(iod.file_lines(path)))
            meta.append(('def', path, None, len(tbl_ids)))
            tbl_ids[len(tbl_ids)] = path
            return len(tbl_ids) - 1

        loader_files = []
        # ---- shipped tables: loaded by the model from the file lines; the real loader's entries only steer the generators
        for name, (hdr, _) in iod.drawer_files().items():
            loader_files.append(('shipped ' + name, hdr))
            mine = [(t.pte_pattern, t.message_format, list(t.params)) for t in il.PTETable(hdr).entries]
            tid = deftblfile(hdr)
            pats = [m[0] for m in mine if all(c in '0123456789abcdefABCDEF*' for c in m[0]) and len(m[0]) == 8]
            # entries hitting each pattern, reported variants, near misses
            ptes = []
            for p in (pats if thorough else rng.sample(pats, min(len(pats), 250))):
                for _ in range(3 if thorough else 1):
                    v = fill(p, rng)
                    ptes.append(v)
                    if (v & 0xF0000000) == 0xE0000000:
                        ptes.append(v | 0x00040000)
                        ptes.append(v & ~0x00040000 & 0xFFFFFFFF)
                    ptes.append(v ^ (1 << rng.randrange(32)))
            ptes += [rng.randrange(2 ** 32) for _ in range(400)] + [0, 0xFFFFFFFF, 0xE0040000, 0xE0000000, 0xEFFFFFFF]
            rng.shuffle(ptes)
            i = 0
            while i < len(ptes):
                n = rng.randrange(1, 40)
                es = []
                for v in ptes[i:i + n]:
                    ts = rng.choice([0, 1, 59, 60, 3599, 3600, 0xFFFE, 0xFFFF, rng.randrange(65536)])
                    es.append((ts, rng.choice([0, 1, 0xFFFF, rng.randrange(65536)]), v))
                    if rng.random() < 0.1:
                        es.append((0, 0, 0))
                i += n
                tail = bytes(rng.randrange(256) for _ in range(rng.choice([0, 0, 1, 3, 7])))
                reqs.append('ilogspec %d %s %s' % (tid, tlist(es, lambda e: '%d %d %d' % e), tb(tail)))
                meta.append(('spec', hdr, None, (name, es, tail)))
            # raw random byte strings
            for _ in range(200 if thorough else 40):
                data = bytes(rng.randrange(256) for _ in range(rng.randrange(0, 100)))
                reqs.append('ilog %d %s' % (tid, tb(data)))
                meta.append(('raw', hdr, data, name))

        # ---- synthetic tables through temporary header files
        fmts = ['plain', 'PS%d - Faults', 'lvl %c%c', 'v=%02X %x', '%d%%', '%5d|%-4d|', 'say \"hi\" %d', '%d %d %d %d %d', '%q', 'trail %',
                '%.2X %.4X', '%u', '%ld', '  padded  ', '%c', '%s',
                '100%%', '%%', 'a%%b%%c', '%% %d', 'load %d%% of %d%%']
        for t in range(60 if thorough else 12):
            ents = []
            for _ in range(rng.randrange(1, 12)):
                pat = ''.join(rng.choice('0123456789ABCDEFabcdef*****') for _ in range(8))
                if rng.random() < 0.3:
                    pat = rng.choice(['E', 'e']) + pat[1:]
                if rng.random() < 0.15:
                    pat = pat[:rng.choice([7, 9]) if rng.random() < 0.5 else 8] + ('A' if rng.random() < 0.5 else '')
                ptxt = ', '.join(str(rng.choice([0, 1, 2, 3, 4, 5, 9, 12, 34])) for _ in range(rng.randrange(0, 5)))
                ents.append((pat, rng.choice(fmts), ptxt))
            family = []
            if t % 2 == 1:
                # overlap family around one reported error PTE v (flag 0x00040000 = hex digit 3): patterns that match only the
                # value as stored, only the value with the flag cleared, or both (wildcard over the flag digit), in every order;
                # "first match in header-file order" must be decided entry by entry, not as-stored first and cleared second
                v = (rng.randrange(2 ** 32) & 0x0FFFFFFF) | 0xE0040000
                cleared = v & ~0x00040000
                def pat_of(x, wild_flag):
                    h = '%08X' % x
                    return ''.join(('*' if wild_flag else c) if i == 3 else c if (i == 0 or rng.random() < 0.55) else '*' for i, c in enumerate(h))
                fam = [(pat_of(cleared, False), 'CLEARED %d', '1'), (pat_of(v, False), 'STORED %d', '2'), (pat_of(v, True), 'BOTH %d', '3'),
                       (pat_of(cleared, False), 'CLEARED2', '')]
                rng.shuffle(fam)
                fam = fam[:rng.randrange(2, 5)]
                pos = rng.randrange(len(ents) + 1)
                ents[pos:pos] = fam
                family = [v, cleared, v ^ 0x00000001, cleared ^ 0x00100000, v | 0x00080000]
            path = os.path.join(tmp, 'synth%d.h' % t)
            iod.write_pte_header(path, ents)
            loader_files.append(('synth%d' % t, path))
            tid = deftblfile(path)
            for _ in range(30):
                es = []
                for _ in range(rng.randrange(1, 8)):
                    p = rng.choice(ents)[0]
                    v = fill(p.ljust(8, '0')[:8], rng) if rng.random() < 0.8 else rng.randrange(2 ** 32)
                    if rng.random() < 0.4:
                        v = (v | 0xE0040000) & 0xEFFFFFFF | 0xE0000000
                    if family and rng.random() < 0.5:
                        v = rng.choice(family)
                    es.append((rng.randrange(65536), rng.randrange(65536), v & 0xFFFFFFFF))
                reqs.append('ilogspec %d %s %s' % (tid, tlist(es, lambda e: '%d %d %d' % e), tb(b'')))
                meta.append(('spec', path, None, ('synth%d' % t, es, b'')))

        # ---- the loader itself: Lean model vs PTETable(path).entries, field by field
        df = iod.drawer_files()
        loader_files += iod.adversarial_files(rng, 'pte', tmp, 1500 if thorough else 150, 24 if thorough else 4,
                                              [df['mex'][0], df['nimitz'][0]])
        ck.count('loader files with a non-empty table', iod.run_loader_stream(ck, 'pte', loader_files))
        # ---- and the patterns themselves, one line at a time: None-ness and groups() of fullmatch
        ck.count('lines matched by a pattern', iod.run_pattern_stream(ck, (0, 1, 2), rng, 6000 if thorough else 600, {0: iod.PTE_STARTS, 1: iod.PTE_LINES[:12], 2: iod.PTE_ENDS}))

        opt_calls, OPT_N = [], (120 if thorough else 40)
        replies = lean_batch(reqs)
        unloaded = set()
        for (kind, hdr, data, extra), r in zip(meta, replies):
            if kind == 'def':
                if not r.ok:
                    unloaded.add(hdr)
                    ck.disagree('the model declines to load a table the decode cases need', {'op': 'load-pte', 'case': hdr, 'reply': r.raw[:60]})
                continue
            if hdr in unloaded:
                ck.skip('table not loaded by the model')
                continue
            if not r.ok:
                ck.skip(r.raw[:40])
                continue
            if kind == 'raw':
                real = il.parse_ilog_data(memoryview(data), hdr)
                if len(opt_calls) < OPT_N and rng.random() < 0.2:
                    opt_calls.append(('ilog', data, [hdr], real))
                ck.case(key=('raw', extra, data) if len(data) >= 8 else None, sample={'table': extra, 'data': data.hex()[:48]})
                ck.count('raw bytes')
                if r.lines()[2:] != real[2:] or len(real) < 2:
                    ck.disagree('parse_ilog_data differs from model', {'op': 'ilog', 'table': extra, 'data_hex': data.hex(), 'impl': real[:6]})
                continue
            name, es, tail = extra
            data = r.bytes()
            model, spec = r.lines(), r.lines()
            real = il.parse_ilog_data(memoryview(data), hdr)
            if len(opt_calls) < OPT_N and rng.random() < 0.1:
                opt_calls.append(('ilog', data, [hdr], real))
            nz = [e for e in es if e != (0, 0, 0)]
            ck.case(key=(name, data) if nz else None, sample={'table': name, 'entries': es[:3], 'tail': tail.hex()})
            ck.count('entries=%s tail=%d' % ('1' if len(es) == 1 else 'many', len(tail)))
            rp = {'op': 'ilog', 'table': name, 'header_file': hdr if 'synth' not in name else open(hdr).read(),
                  'entries': es, 'tail_hex': tail.hex(), 'data_hex': data.hex()}
            # property on the real code: heading + exactly the spec lines
            if len(real) != len(spec) or real[2:] != spec[2:]:
                k = next((i for i in range(2, min(len(real), len(spec))) if real[i] != spec[i]), min(len(real), len(spec)))
                ck.fail('ILOG output contradicts the property', rp | {'first_difference': k, 'expected': spec[k:k + 1], 'actual': real[k:k + 1]}, 'ilog_lines')
            if real[2:] != model[2:] or len(real) != len(model):
                ck.disagree('parse_ilog_data differs from model', rp | {'impl': real[:5], 'model': model[:5]})
        iod.check_optimised(ck, opt_calls, 'ILOG samples')
        # ---- through the shipped parser module with the io_drawer package installed as individual symbolic links into a store
        try:
            from io_drawer.drawer_type import DRAWER_TYPES as _DT
            iod.check_linkfarm(ck, [(73, dt_.user_data_version, c_[1]) for dt_ in _DT for c_ in opt_calls[:4]], 'ILOGs')
        except ImportError as e:
            ck.skip('io_drawer.drawer_type unavailable: %r' % e)
        # ---- a header file given by a RELATIVE name (also one that is spelled like a shipped file): it is the file in the current directory
        synth0 = [pth for nm, pth in loader_files if nm.startswith('synth') and os.path.exists(pth)]
        if synth0:
            import re as _re0
            cwd = os.getcwd()
            rel_dir = os.path.join(tmp, 'cwd_rel')
            os.makedirs(rel_dir, exist_ok=True)
            try:
                os.chdir(rel_dir)
                for relname in ('mex_pte.h', 'nimitz_pte.h', 'my_table.h'):
                    src_ = rng.choice(synth0)
                    shutil.copyfile(src_, os.path.join(rel_dir, relname))
                    pats_ = _re0.findall(r'"([0-9A-Fa-f*]{8})"', open(src_).read())[:60]
                    vals_ = [int(pt.replace('*', '7'), 16) for pt in pats_] + [0x01040000]
                    smp = b''.join(((i % 65535 << 48) | (i << 32) | v).to_bytes(8, 'big') for i, v in enumerate(vals_, 1))
                    want_ = il.parse_ilog_data(memoryview(smp), src_)
                    got_ = il.parse_ilog_data(memoryview(smp), relname)
                    ck.case(key=('relative', relname, open(src_).read()))
                    ck.count('header file by relative name')
                    if got_ != want_:
                        ck.fail('a header file given by a relative name is not the file of that name in the current directory', {'op': 'ilog-relative', 'case': relname, 'table': open(src_).read()[:1500]}, 'relative_header')
            finally:
                os.chdir(cwd)
        # ---- a header file that is rewritten between two decodes in one process
        synth = [pth for nm, pth in loader_files if nm.startswith('synth') and os.path.exists(pth)]
        import re as _re
        pats = []
        for pth in synth:      # PTE values that hit the patterns of the synthetic tables, so that two tables give different lines
            pats += _re.findall(r'"([0-9A-Fa-f*]{8})"', open(pth).read())
        vals = [int(pt.replace('*', rng.choice('0123456789ABCDEF')), 16) for pt in pats[:400]] + [0xE30C7704, 0x01040000]
        sample = b''.join(((i % 65535 << 48) | (i << 32) | v).to_bytes(8, 'big') for i, v in enumerate(vals, 1))
        iod.check_rewritten_table_file(ck, 'pte', synth, lambda pth: il.parse_ilog_data(memoryview(sample), pth), rng, 12 if thorough else 4)
    finally:
        shutil.rmtree(tmp, ignore_errors=True)
    return ck.finish(RULE, TRUSTED, ASSUME)


def replay(path):
    rp = json.load(open(path))
    print(json.dumps(rp, indent=1)[:3000])
    print('re-run ./check C14 to re-evaluate (the replay records table, entries and the expected/actual lines)')
    return 0
