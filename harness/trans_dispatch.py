"""
Source-to-Lean translator for the section dispatch of peltool.py and the parser-module routing (stream `dispatch`, properties C01, C18).

Reads the CURRENT text of
    modules/pel/peltool/peltool.py                 sectionFun, generateSRC/EH/MT/ED/UD/IP/Default, the section loop of parsePEL
    modules/pel/peltool/pel_types.py               the VALUES of the SectionID enumeration
    modules/pel/peltool/{src,extend_user_header,failing_mtms,ext_user_data,user_data,imp_partition,default}.py   (constructor / toJSON signatures only)
    modules/udparsers/m2c00/m2c00.py               parseUDToJson, _get_drawer_type, _parse_hlog/_parse_ilog/_parse_trace/_parse_unsupported
    modules/srcparsers/osrc/osrc.py                parseSRCToJson (component module name, cache look-up, `except ModuleNotFoundError`)
    modules/pel/peltool/src.py                     SRC.parse: the module name `srcparsers.<creator lower>src.…`
    modules/pel/peltool/parse_user_data.py         ParseUserData.parseCustom: the module name `udparsers.<creator lower><comp %04X lower>.…`
    modules/calloutparsers/ocallouts/ocallouts.py  getMaintProcDesc
with `ast` (nothing is imported or run) and writes lean/PelGen/GenDispatch.lean.  PelProps/TieC01.lean (appended theorems) and
PelProps/TieC18.lean prove the hand-written model equal to what is generated here.

HOW.  One small symbolic interpreter in continuation-passing style (`Machine`) executes a function body statement by statement.  Python
values are typed symbolic values with a Lean term; user functions of the same file that are called are INLINED at the call (with the
argument values bound to the parameters by POSITION, so parameter and local names never reach the output); an `if` duplicates what follows
into both branches (except `if c: x = e` with pure right-hand sides, which becomes a conditional value); `return`, `raise` and `try/except/else`
are continuations, so an exception raised in an inlined callee arrives at the handler of the caller with the handler's variables as they were on
entry to the `try` (names assigned inside the `try` body are unusable in the handler).  Everything that is not listed below raises
`Untranslatable` (the definition becomes `none`); docstrings / bare string statements / `pass` are the only statements that are skipped.

=====================================================================================================================================
TRUSTED TABLE: name maps and idioms (the only knowledge about the code that is hard-wired here)
=====================================================================================================================================
Python semantics
    int literal >= 0 -> Nat;  str literal -> Text (code points);  None;  True/False
    == != < <= > >= on ints, == != on str        -> = ≠ < ≤ > ≥                     and / or / not  -> ∧ ∨ ¬
    truth value: bytes/str -> x ≠ [];  int -> x ≠ 0
    a + b (str) -> a ++ b;  a + b, a & b, a | b, a >> b, a << b (int) -> + &&& ||| >>> <<<
    f"…", "…".format(…), "…" % …  with {}/{:d}/{:0wX}/{:0wx}/%s/%d/%0wX on int and str -> natDec / fmtHex w / fmtHexL w / the text (trans_sections.format_value)
    str(n) -> natDec n;  str(e) for e = an exception raised as `Cls(<one str>)` -> that str;  len(x) (bytes / str) -> x.length
    x.lower() / x.upper()   -> x.map toLowerAscii / x.map toUpperAscii   (the model's texts are ASCII)
    x[a:b] / x[:b] / x[a:]  (literal bounds >= 0) -> (x.drop a).take (b-a) / x.take b / x.drop a
    SEP.join([a, b, …])     -> joinWith SEP [a, b, …]
    {k1: v1, …}.get(k, d) with distinct int-constant keys -> if k = k1 then v1 else … else d      (then called: the call goes into every branch)
    `for X in L: if C(X): return X` followed by REST         -> match L.find? (fun x => C x) with | some x => return x | none => REST
    `if K in D: … D[K] …`  on a module table / parser table   -> match <look-up of K> with | some v => … v … | none => …
    `x is None` / `x is not None` on a module-or-None value    -> match x with | none => … | some b => …
    try/except/else: handlers are tried in source order; `except Exception` and a bare `except` catch every exception; ValueError ⊂ Exception;
        ModuleNotFoundError ⊂ ImportError ⊂ Exception.  An import failure carries a `Fault`: `except ModuleNotFoundError` catches it iff
        f = Fault.notFound, `except ImportError` iff f = notFound ∨ f = importError.  An exception nobody catches leaves the function.
    json.dumps(v): dict -> J.obj [members in insertion order], list of str -> J.arr, None -> null;  `OrderedDict()` / `dict()` / `{}` -> no members
    D[k] = v on a dictionary -> member appended (a key set twice is refused);  dictionaries are objects (aliases see the change)
    `xs = []` + `for _ in range(a, b): BODY; xs.append(x)`   -> Rd.collect (BODY; pure x) (b - a)        (PelModel/TransDispatch.lean)
peltool.py
    sectionFun / generate*: parameters BY POSITION (stream, out, sectionID, sectionLen, versionID, subType, componentID[, creatorID][, config]) as the
        call passes them; the five header values -> h.id h.len h.ver h.sub h.comp (h : SecHdr), creatorID -> creator : Text, config -> the Config
        (of which the decoders read `allow_plugins` only: env.allowPlugins), out -> a fresh dictionary (what parsePEL passes)
    SectionID.<member>.value        -> the integer assigned to <member> in class SectionID of pel_types.py (read from the AST)
    getSectionName(x)               -> sectionName env.T x                 (itself translated and tied by stream `peltool`: Tie.getSectionName)
    parseHeader(stream) unpacked into five names -> h ← parseHeader; tuple position = field position (Tie.parseHeader)
    <Class>(stream, a, b, c, d, e[, creator]) immediately rendered by .toJSON([config]) -> the model decoder of that class on SecHdr.mk a b c d e:
        SRC -> decodeSRC env.T env.src · creator env.allowPlugins (first component)      ExtendedUserHeader -> decodeEH env.T · creator
        FailingMTMS -> decodeMT env.T · creator      ExtUserData -> decodeED env.T env.ud env.allowPlugins ·      UserData -> decodeUD env.T env.ud env.allowPlugins · creator
        ImpactedPartition -> decodeLP env.T · creator      Default -> decodeDefault ·
        (class imported from its own module, exactly once; its __init__ has exactly the parameters (self, stream, sectionID, sectionLen, versionID,
         subType, componentID[, creatorID]) and toJSON exactly (self[, config]); no other stream access may stand between construction and toJSON)
    the one member a wrapper stores in `out` -> the pair (key, value);  the value a wrapper returns is not used by sectionFun (must be free of effects)
    parsePEL: `ret, ph = generatePH(…)` -> ph : PHInfo with ph.sectionCount -> ph.sectionCount, ph.creatorID -> ph.creator (trans_sections.PH_INFO)
m2c00.py
    parseUDToJson(sub_type, version, data) -> fun drawers sub ver data : Option J  (none = a `%` format outside the modelled subset)
    DRAWER_TYPES -> drawers : List DrawerTables;  <drawer>.user_data_version -> d.version
    parse_hlog_data(data, <drawer>.get_header_file_path())        -> parseHlog d.fields data          (total)
    parse_ilog_data(data, <drawer>.get_header_file_path())        -> parseIlog d.pte data             (Option: none = unmodelled)
    parse_trace_data(data, <drawer>.get_trace_string_file_path()) -> parseTrace d.strs data           (Option)
    a list of lines ls stored in the result -> linesJ ls;  hexdump(b) (defaults from the signature of pel.hexdump.hexdump) -> .arr ((hexdump L C b).map jstr)
osrc.py / src.py / parse_user_data.py
    osrcParsers -> c : Cache SrcPlugin, keyed by the module; importlib.import_module(K) -> env.srcImport n  (n = the model's short name of module K:
        K = modPath "srcparsers" n is proved for the translated name function)
    json.dumps(None) as the result -> Got.none;  <module>.parseSRCToJson(<the nine parameters in order>) -> Got.module b;  an escaping import failure -> Got.raised
    self.<field> of SRC / ParseUserData -> the constructor parameter __init__ stores there (SRC: 7th = creator; ParseUserData: 1st = creator, 2nd = comp);
        the field must be stored nowhere else in the class
    a guard `if <test without calls other than len>: …; exit(…)` before the name computation is passed over (the name is that of the path that goes on)
ocallouts.py
    procedures (a dict display str -> list of str) -> procs : List (Text × List Text) (the `table` of CalloutPlugin);  K in procedures / procedures[K] -> procDescription.lookupT' procs K
    getMaintProcDesc result: json.dumps(<list of str>) -> some (.arr (lines.map jstr));  '' -> none   (the caller tests `if desc:` and applies json.loads)
"""
import ast
import os
import re

import pytrans
from pytrans import Untranslatable
import trans_sections as TS
import trans_peltool as TP

PT = 'pel/peltool/'
MAXTERM = 200000


def U(node, msg):
    return Untranslatable('%s (line %d)' % (msg, getattr(node, 'lineno', 0)))


class EffectInPure(Untranslatable):
    pass


# ---------------------------------------------------------------------------------------------------------------------
# trusted name maps

# class -> (takes creatorID, toJSON takes config, decoder term, projection of the result)
CLASSES = {
    ('pel.peltool.src', 'SRC'): (True, True, 'decodeSRC env.T env.src {h} {c} env.allowPlugins', '%s.1'),
    ('pel.peltool.extend_user_header', 'ExtendedUserHeader'): (True, False, 'decodeEH env.T {h} {c}', '%s'),
    ('pel.peltool.failing_mtms', 'FailingMTMS'): (True, False, 'decodeMT env.T {h} {c}', '%s'),
    ('pel.peltool.ext_user_data', 'ExtUserData'): (False, True, 'decodeED env.T env.ud env.allowPlugins {h}', '%s'),
    ('pel.peltool.user_data', 'UserData'): (True, True, 'decodeUD env.T env.ud env.allowPlugins {h} {c}', '%s'),
    ('pel.peltool.imp_partition', 'ImpactedPartition'): (True, False, 'decodeLP env.T {h} {c}', '%s'),
    ('pel.peltool.default', 'Default'): (False, False, 'decodeDefault {h}', '%s'),
}
# (callee, path method of the drawer) -> (term of the lines, Option-valued?)
DRAWER_PARSERS = {
    (('io_drawer.hlog', 'parse_hlog_data'), 'get_header_file_path'): ('parseHlog {d}.fields {b}', False),
    (('io_drawer.ilog', 'parse_ilog_data'), 'get_header_file_path'): ('parseIlog {d}.pte {b}', True),
    (('io_drawer.trace', 'parse_trace_data'), 'get_trace_string_file_path'): ('parseTrace {d}.strs {b}', True),
}
# module-level dictionaries that are parser tables: (module, name) -> (import term, result constructor for a module)
CACHES = {('srcparsers.osrc.osrc', 'osrcParsers'): 'env.srcImport'}
TABLES = {('calloutparsers.ocallouts.ocallouts', 'procedures'): 'procs'}
EXC_PARENTS = {'ValueError': ['Exception', 'BaseException'], 'Exception': ['BaseException'], 'BaseException': [],
               'ImportError': ['Exception', 'BaseException'], 'ModuleNotFoundError': ['ImportError', 'Exception', 'BaseException'],
               'KeyError': ['Exception', 'BaseException'], 'RuntimeError': ['Exception', 'BaseException']}
# which import failures a handler class catches
FAULTS = {'ModuleNotFoundError': ['notFound'], 'ImportError': ['notFound', 'importError'], 'Exception': None, 'BaseException': None}
BUILTINS = {'str', 'len', 'dict', 'memoryview', 'range', 'exit', 'print'} | set(EXC_PARENTS)
PH_FIELDS = {py: (ln, kind) for ln, py, kind in TS.PH_INFO}      # creatorID -> (creator, text), sectionCount -> (sectionCount, int) …


# ---------------------------------------------------------------------------------------------------------------------
# symbolic values

class V:
    def __init__(self, ty, term=None, **kw):
        self.ty = ty
        self.term = term
        self.lit = None
        self.fmtnum = None
        self.__dict__.update(kw)


NONE = V('none')


def text_lit(sv):
    return TS.text_lit(sv)


def par(t):
    return TP.atom(t)


class Src:
    """one parsed source file and what its module-level names are bound to"""

    def __init__(self, repo, rel):
        self.repo = repo
        self.rel = rel
        self.modname = rel[:-3].replace('/', '.')
        self.tree = pytrans.load_module_ast(repo, rel)
        self.binds = TP.module_bindings(self.tree)
        if '*' in self.binds:
            raise Untranslatable('%s has a star import' % rel)
        self.rebound = set()
        for n in ast.walk(self.tree):
            if isinstance(n, (ast.Global, ast.Nonlocal)):
                self.rebound |= set(n.names)

    def how(self, node, name):
        hows = self.binds.get(name)
        if hows is None:
            return None
        if len(hows) != 1 or name in self.rebound:
            raise U(node, 'the module-level name %s of %s is bound by %s%s' % (name, self.rel, hows, ' and named in a `global` statement' if name in self.rebound else ''))
        return hows[0]

    def fn(self, name):
        if self.how(None, name) != 'def':
            raise Untranslatable('%s: %s is not a plain module-level function' % (self.rel, name))
        return [n for n in self.tree.body if isinstance(n, ast.FunctionDef) and n.name == name][0]

    def top_assign(self, node, name):
        found = [st for st in self.tree.body if isinstance(st, (ast.Assign, ast.AnnAssign))
                 and any(isinstance(t, ast.Name) and t.id == name for t in (st.targets if isinstance(st, ast.Assign) else [st.target]))]
        if len(found) != 1 or (isinstance(found[0], ast.Assign) and len(found[0].targets) != 1) or found[0].value is None:
            raise U(node, 'the module-level constant %s is not assigned by one plain top-level statement' % name)
        return found[0].value

    def cls(self, name):
        if self.how(None, name) != 'class':
            raise Untranslatable('%s: %s is not a plain class' % (self.rel, name))
        c = [n for n in self.tree.body if isinstance(n, ast.ClassDef) and n.name == name]
        if len(c) != 1:
            raise Untranslatable('%s: class %s is not defined at top level' % (self.rel, name))
        return c[0]


class Ctx:
    def __init__(self, repo):
        self.repo = repo
        self.srcs = {}

    def src(self, rel):
        if rel not in self.srcs:
            self.srcs[rel] = Src(self.repo, rel)
        return self.srcs[rel]

    def by_module(self, modname):
        return self.src(modname.replace('.', '/') + '.py')


def plain_params(fn, n=None):
    a = fn.args
    if a.vararg or a.kwarg or a.kwonlyargs or a.posonlyargs or a.defaults or a.kw_defaults or fn.decorator_list:
        raise U(fn, 'parameter list / decorators of %s' % fn.name)
    names = [x.arg for x in a.args]
    if len(set(names)) != len(names) or (n is not None and len(names) != n):
        raise U(fn, 'parameter list of %s' % fn.name)
    return names


def local_names(fn):
    """every name the function binds locally"""
    out = set(x.arg for x in fn.args.args)
    for n in ast.walk(fn):
        if n is fn:
            continue
        if isinstance(n, (ast.FunctionDef, ast.AsyncFunctionDef, ast.ClassDef, ast.Lambda, ast.Global, ast.Nonlocal, ast.Yield, ast.YieldFrom, ast.Await,
                          ast.NamedExpr, ast.With, ast.While, ast.Delete, ast.ListComp, ast.SetComp, ast.DictComp, ast.GeneratorExp)):
            raise U(n, '%s inside %s' % (type(n).__name__, fn.name))
        if isinstance(n, ast.Name) and isinstance(n.ctx, (ast.Store, ast.Del)):
            out.add(n.id)
        elif isinstance(n, ast.ExceptHandler) and n.name:
            out.add(n.name)
        elif isinstance(n, (ast.Import, ast.ImportFrom)):
            for a in n.names:
                out.add((a.asname or a.name).split('.')[0])
    return out


def class_signature(ctx, modname, clsname, with_creator, with_cfg):
    """the constructor / toJSON parameter lists the class map relies on"""
    src = ctx.by_module(modname)
    c = src.cls(clsname)
    if c.bases or c.keywords or c.decorator_list:
        raise U(c, 'class %s has bases, keywords or decorators' % clsname)
    TP.require_single_methods(src.tree, clsname, ['__init__', 'toJSON'])
    for m in c.body:
        if isinstance(m, ast.FunctionDef) and m.name in ('__new__', '__getattr__', '__getattribute__', '__call__'):
            raise U(m, 'class %s defines %s' % (clsname, m.name))
    init = pytrans.find_def(src.tree, clsname + '.__init__')
    tojson = pytrans.find_def(src.tree, clsname + '.toJSON')
    want = ['self'] + TS.INIT_PARAMS + (['creatorID'] if with_creator else [])
    if plain_params(init) != want:
        raise U(init, 'constructor of %s has the parameters %s, expected %s' % (clsname, plain_params(init), want))
    if len(plain_params(tojson)) != (2 if with_cfg else 1):
        raise U(tojson, '%s.toJSON has %d parameters' % (clsname, len(plain_params(tojson))))
    for n in ast.walk(src.tree):
        if isinstance(n, ast.Attribute) and isinstance(n.ctx, (ast.Store, ast.Del)) and n.attr in ('toJSON', '__init__'):
            raise U(n, '%s is assigned' % n.attr)


def enum_values(ctx, modname, name):
    src = ctx.by_module(modname)
    c = src.cls(name)
    if [pytrans.dotted(b) for b in c.bases] != ['Enum'] or src.how(c, 'Enum') != 'from enum import Enum' or c.keywords:
        raise U(c, 'class %s is not a plain Enum' % name)
    for d in c.decorator_list:
        if pytrans.dotted(d) != 'unique' or src.how(c, 'unique') != 'from enum import unique':
            raise U(c, 'decorator of %s' % name)
    out = {}
    for st in pytrans.strip_docstring(c.body):
        if not (isinstance(st, ast.Assign) and len(st.targets) == 1 and isinstance(st.targets[0], ast.Name)):
            raise U(st, 'member of %s' % name)
        k = st.targets[0].id
        if k in out or k.startswith('_'):
            raise U(st, 'member %s of %s' % (k, name))
        out[k] = pytrans.const_int(st.value)
    return out


# ---------------------------------------------------------------------------------------------------------------------
# the interpreter

class K:
    """continuations of a statement list: falling off the end, `return`, an exception"""

    def __init__(self, end, ret, exc):
        self.end, self.ret, self.exc = end, ret, exc


class Frame:
    def __init__(self, src, fn):
        self.src = src
        self.fn = fn
        self.locals = local_names(fn)


class C:
    """a condition: kind prop (term, bool form or None) | match (scrutinee, binder) | static (value)"""

    def __init__(self, kind, **kw):
        self.kind = kind
        self.neg = False
        self.then_ref = lambda vars, g: (vars, g)
        self.else_ref = lambda vars, g: (vars, g)
        self.__dict__.update(kw)

    def negate(self):
        c = C(self.kind, **{k: v for k, v in self.__dict__.items() if k not in ('kind',)})
        c.then_ref, c.else_ref = self.else_ref, self.then_ref
        if self.kind == 'prop':
            c.prop = '¬ (%s)' % self.prop
            c.bool = None if self.bool is None else '!(%s)' % self.bool
        elif self.kind == 'static':
            c.value = not self.value
        else:
            c.neg = not self.neg
        return c

    def emit(self, a, b):
        """a / b: thunks of the terms of the then / else side"""
        if self.kind == 'static':
            return a() if self.value else b()
        if self.kind == 'prop':
            return '(if %s then\n%s\nelse\n%s)' % (self.prop, TP.ind(a()), TP.ind(b()))
        yes, no = (a, b) if not self.neg else (b, a)       # yes = the `some` side
        return '(match %s with\n| some %s =>\n%s\n| none =>\n%s)' % (self.scrut, self.binder, TP.ind(yes()), TP.ind(no()))


def dset(d, k, v):
    d2 = dict(d)
    d2[k] = v
    return d2


def gset(g, **kw):
    g2 = dict(g)
    g2.update(kw)
    return g2


def strip(body):
    return pytrans.strip_docstring(body)


def assigned_names(stmts):
    out = set()
    for st in stmts:
        for n in ast.walk(st):
            if isinstance(n, ast.Name) and isinstance(n.ctx, (ast.Store, ast.Del)):
                out.add(n.id)
            elif isinstance(n, ast.ExceptHandler) and n.name:
                out.add(n.name)
    return out


class Machine:
    def __init__(self, ctx, none_term=None, import_term=None):
        self.ctx = ctx
        self.n = 0
        self.neff = 0
        self.depth = 0
        self.none_term = none_term          # the result of the whole function when a callee leaves the modelled subset (Option-valued targets)
        self.import_term = import_term      # what importlib.import_module means in this file
        self.keyterms = []                  # terms of the keys a parser table was consulted with
        self.fields_read = set()

    def fresh(self, p='v'):
        self.n += 1
        return '%s%d' % (p, self.n)

    def key(self, node, kv):
        if kv.ty != 'text':
            raise U(node, 'parser table key of type %s' % kv.ty)
        if kv.term not in self.keyterms:
            self.keyterms.append(kv.term)
        return 'n'

    # ---- names
    def name(self, node, fr, vars):
        nm = node.id
        if nm in vars:
            if vars[nm].ty == 'undef':
                raise U(node, 'the value of %s is not known here' % nm)
            return vars[nm]
        if nm in fr.locals:
            raise U(node, 'local %s used before it is known to be bound' % nm)
        how = fr.src.how(node, nm)
        if how is None:
            if nm in BUILTINS:
                return V('builtin', name=nm)
            raise U(node, 'unknown name %s' % nm)
        if how == 'def':
            if fr.src.modname == 'pel.peltool.peltool' and nm in ('parseHeader', 'getSectionName'):
                return V('prim', key=('peltool', nm))
            return V('pyfn', fn=fr.src.fn(nm), src=fr.src)
        m = re.match(r'^from (\S+) import (\S+)$', how)
        if m and m.group(2) == nm:
            return self.imported(node, m.group(1), m.group(2))
        m = re.match(r'^import (\w+)$', how)
        if m and m.group(1) == nm:
            return V('module', name=nm)
        if how == 'assignment':
            return self.module_const(node, fr.src, nm)
        raise U(node, 'module-level name %s bound by `%s`' % (nm, how))

    def imported(self, node, M, N):
        if (M, N) in CLASSES:
            info = CLASSES[(M, N)]
            class_signature(self.ctx, M, N, info[0], info[1])
            return V('class', key=(M, N), info=info)
        if (M, N) == ('pel.peltool.pel_types', 'SectionID'):
            return V('enum', members=enum_values(self.ctx, M, N), name=N)
        if (M, N) == ('collections', 'OrderedDict'):
            return V('builtin', name='dict')
        if (M, N) == ('pel.hexdump', 'hexdump'):
            return V('prim', key=(M, N))
        if (M, N) == ('io_drawer.drawer_type', 'DRAWER_TYPES'):
            return V('drawers', 'drawers')
        if any(k[0] == (M, N) for k in DRAWER_PARSERS):
            return V('prim', key=(M, N))
        raise U(node, 'imported name %s.%s has no counterpart in the model' % (M, N))

    def module_const(self, node, src, nm):
        val = src.top_assign(node, nm)
        if isinstance(val, ast.Constant) and type(val.value) is int and val.value >= 0:
            return V('int', str(val.value), lit=val.value)
        if isinstance(val, ast.Constant) and isinstance(val.value, str):
            return V('text', text_lit(val.value), lit=val.value)
        if isinstance(val, ast.Dict):
            if (src.modname, nm) in CACHES and not val.keys:
                if self.import_term is None:
                    raise U(node, 'parser table outside a look-up function')
                return V('cache', id=(src.modname, nm))
            if (src.modname, nm) in TABLES:
                for k_, v_ in zip(val.keys, val.values):
                    if not (isinstance(k_, ast.Constant) and isinstance(k_.value, str) and isinstance(v_, ast.List)
                            and all(isinstance(e, ast.Constant) and isinstance(e.value, str) for e in v_.elts)):
                        raise U(val, 'the table %s is not a display of str -> list of str' % nm)
                return V('table', TABLES[(src.modname, nm)], id=(src.modname, nm))
        raise U(node, 'module-level constant %s' % nm)

    # ---- expressions (continuation passing: k(value, g), kx(exception, g))
    def pure(self, node, fr, vars, g):
        box = []
        n0 = self.neff

        def k(v, g2):
            box.append(v)
            return ''

        def kx(e, g2):
            raise EffectInPure('%s (line %d)' % ('an expression that may raise in a pure position', getattr(node, 'lineno', 0)))
        self.ev(node, fr, vars, g, k, kx)
        if self.neff != n0 or len(box) != 1:
            raise EffectInPure('%s (line %d)' % ('an effect in a pure position', getattr(node, 'lineno', 0)))
        return box[0]

    def ev_seq(self, nodes, fr, vars, g, k, kx, acc=()):
        if not nodes:
            return k(list(acc), g)
        return self.ev(nodes[0], fr, vars, g, lambda v, g2: self.ev_seq(nodes[1:], fr, vars, g2, k, kx, acc + (v,)), kx)

    def ev(self, node, fr, vars, g, k, kx):
        if isinstance(node, ast.Constant):
            v = node.value
            if v is None:
                return k(NONE, g)
            if isinstance(v, bool):
                return k(V('bool', lit=v), g)
            if isinstance(v, int):
                if v < 0:
                    raise U(node, 'negative literal')
                return k(V('int', str(v), lit=v), g)
            if isinstance(v, str):
                return k(V('text', text_lit(v), lit=v), g)
            raise U(node, 'constant %r' % (v,))
        if isinstance(node, ast.Name):
            return k(self.name(node, fr, vars), g)
        if isinstance(node, (ast.Tuple, ast.List)):
            if any(isinstance(e, ast.Starred) for e in node.elts):
                raise U(node, 'starred element')
            ty = 'tuple' if isinstance(node, ast.Tuple) else 'pylist'
            return self.ev_seq(node.elts, fr, vars, g, lambda vs, g2: k(V(ty, elems=vs), g2), kx)
        if isinstance(node, ast.Dict):
            if any(x is None for x in node.keys):
                raise U(node, 'dict unpacking')
            return self.ev_seq(list(node.keys) + list(node.values), fr, vars, g,
                               lambda vs, g2: self.dict_display(node, vs[:len(node.keys)], vs[len(node.keys):], g2, k), kx)
        if isinstance(node, ast.Attribute):
            return self.ev(node.value, fr, vars, g, lambda o, g2: k(self.attr(node, o, g2), g2), kx)
        if isinstance(node, ast.Call):
            if node.keywords or any(isinstance(a, ast.Starred) for a in node.args):
                raise U(node, 'keyword or starred argument')
            return self.ev(node.func, fr, vars, g,
                           lambda f, g2: self.ev_seq(node.args, fr, vars, g2, lambda args, g3: self.apply(node, f, args, fr, g3, k, kx), kx), kx)
        if isinstance(node, ast.JoinedStr):
            parts = pytrans.fstring_parts(node)
            exprs = [p[1] for p in parts if p[0] == 'expr']
            if any(p[2] != -1 for p in parts if p[0] == 'expr'):
                raise U(node, 'f-string conversion')

            def done(vals, g2):
                pieces, i = [], 0
                for p in parts:
                    if p[0] == 'lit':
                        pieces.append(('lit', p[1]))
                    else:
                        pieces.append(('val', vals[i], p[3]))
                        i += 1
                return k(self.concat(node, pieces), g2)
            return self.ev_seq(exprs, fr, vars, g, done, kx)
        if isinstance(node, ast.BinOp):
            if isinstance(node.op, ast.Mod) and isinstance(node.left, ast.Constant) and isinstance(node.left.value, str):
                fmt = TS.parse_percent(node, node.left.value)
                args = list(node.right.elts) if isinstance(node.right, ast.Tuple) else [node.right]
                return self.ev_seq(args, fr, vars, g, lambda vs, g2: k(self.apply_format(node, fmt, vs, True), g2), kx)
            return self.ev_seq([node.left, node.right], fr, vars, g, lambda vs, g2: k(self.binop(node, vs[0], vs[1]), g2), kx)
        if isinstance(node, ast.Subscript):
            if isinstance(node.slice, ast.Slice):
                return self.ev(node.value, fr, vars, g, lambda o, g2: k(self.slice(node, o), g2), kx)
            return self.ev_seq([node.value, node.slice], fr, vars, g, lambda vs, g2: k(self.index(node, vs[0], vs[1], g2), g2), kx)
        raise U(node, 'expression %s' % type(node).__name__)

    def concat(self, node, pieces):
        terms = []
        for p in pieces:
            if p[0] == 'lit':
                if p[1]:
                    terms.append(text_lit(p[1]))
            else:
                v = p[1]
                if v.ty not in ('int', 'text'):
                    raise U(node, 'formatting a value of type %s' % v.ty)
                terms.append(TS.format_value(node, v, p[2], percent=len(p) > 3))
        if not terms:
            return V('text', '[]', lit='')
        if len(pieces) == 1 and pieces[0][0] == 'lit':
            return V('text', terms[0], lit=pieces[0][1])
        t = terms[0]
        for x in terms[1:]:
            t = '(%s ++ %s)' % (t, x)
        return V('text', t)

    def apply_format(self, node, fmt, args, percent=False):
        used, pieces = set(), []
        for p in fmt:
            if p.lit is not None:
                pieces.append(('lit', p.lit))
            else:
                if p.index >= len(args):
                    raise U(node, 'format argument missing')
                used.add(p.index)
                pieces.append(('val', args[p.index], p.spec) + (('pct',) if percent else ()))
        if percent and len(used) != len(args):
            raise U(node, '% argument count')
        return self.concat(node, pieces)

    def binop(self, node, a, b):
        op = node.op
        if a.ty == 'text' and b.ty == 'text' and isinstance(op, ast.Add):
            lit = a.lit + b.lit if a.lit is not None and b.lit is not None else None
            return V('text', '(%s ++ %s)' % (a.term, b.term), lit=lit)
        if a.ty == 'int' and b.ty == 'int':
            sym = {ast.BitAnd: '&&&', ast.BitOr: '|||', ast.RShift: '>>>', ast.LShift: '<<<', ast.Add: '+'}.get(type(op))
            if sym:
                return V('int', '(%s %s %s)' % (a.term, sym, b.term))
        raise U(node, 'operator %s on %s and %s' % (type(op).__name__, a.ty, b.ty))

    def slice(self, node, o):
        sl = node.slice
        if o.ty != 'text' or sl.step is not None:
            raise U(node, 'slice of a %s' % o.ty)

        def bound(x):
            if x is None:
                return None
            if isinstance(x, ast.Constant) and type(x.value) is int and x.value >= 0:
                return x.value
            raise U(node, 'slice bound')
        lo, hi = bound(sl.lower), bound(sl.upper)
        if lo is None and hi is None:
            return o
        if lo is None:
            return V('text', '(%s.take %d)' % (par(o.term), hi))
        if hi is None:
            return V('text', '(%s.drop %d)' % (par(o.term), lo))
        return V('text', '((%s.drop %d).take %d)' % (par(o.term), lo, max(hi - lo, 0)))

    def index(self, node, o, kx_, g):
        if o.ty == 'cache':
            self.key(node, kx_)
            known = g.get('known', {}).get(o.id)
            if known is None:
                raise U(node, 'parser table subscripted without a preceding `in` test on this path')
            return known
        if o.ty == 'table':
            known = g.get('known', {}).get((o.id, kx_.term))
            if known is None:
                raise U(node, 'table subscripted without a preceding `in` test of the same key on this path')
            return known
        raise U(node, 'subscript of a %s' % o.ty)

    def dict_display(self, node, keys, vals, g, k):
        if keys and all(kv.ty == 'int' for kv in keys):
            lits = [kv.lit for kv in keys]
            if None in lits or len(set(lits)) != len(lits):
                raise U(node, 'the keys of the routing dictionary are not distinct integer constants')
            return k(V('intdict', entries=list(zip(keys, vals))), g)
        ref = self.fresh('r')
        g2 = gset(g, heap=dict(g['heap'], **{ref: ()}))
        d = V('dict', ref=ref)
        for kv, vv in zip(keys, vals):
            g2 = self.store(node, d, kv, vv, g2)
        return k(d, g2)

    def to_json(self, node, v, g):
        if v.ty == 'int':
            return '(jnum %s)' % v.term
        if v.ty == 'text':
            return '(jstr %s)' % v.term
        if v.ty in ('jarr', 'json'):
            return v.term
        if v.ty == 'none':
            return 'J.null'
        if v.ty == 'pylist':
            if all(e.ty == 'text' for e in v.elems):
                return '(J.arr [%s])' % ', '.join('jstr %s' % e.term for e in v.elems)
            raise U(node, 'list with elements that are not str')
        if v.ty == 'strlist':
            return '(J.arr (%s.map jstr))' % par(v.term)
        if v.ty == 'dict':
            return '(J.obj [%s])' % ', '.join('(%s, %s)' % (kt, jt) for kt, _, jt in g['heap'][v.ref])
        raise U(node, 'a %s where a JSON value is expected' % v.ty)

    def store(self, node, d, kv, vv, g):
        if d.ty == 'dict':
            if kv.ty != 'text':
                raise U(node, 'dictionary key of type %s' % kv.ty)
            items = g['heap'][d.ref]
            for kt, kl, _ in items:
                if (kl is not None and kv.lit is not None and kl == kv.lit) or (kl is None or kv.lit is None):
                    raise U(node, 'a member that may already be set')
            if vv.ty == 'dict' and vv.ref == d.ref:
                raise U(node, 'dictionary stored in itself')
            kt = '(s %s)' % TS.lean_str(kv.lit) if kv.lit is not None and kv.lit and all(0x20 <= ord(c) < 0x7f for c in kv.lit) else kv.term
            heap = dict(g['heap'])
            heap[d.ref] = items + ((kt, kv.lit, self.to_json(node, vv, g)),)
            return gset(g, heap=heap)
        if d.ty == 'cache':
            n = self.key(node, kv)
            if vv.ty == 'none':
                val = 'none'
            elif vv.ty == 'optmod':
                val = vv.term
            else:
                raise U(node, 'a %s stored in the parser table' % vv.ty)
            return gset(g, cache='((%s, %s) :: %s)' % (n, val, g['cache']), known=dset(g.get('known', {}), d.id, None))
        raise U(node, 'subscript assignment on a %s' % d.ty)

    # ---- attributes and calls
    def attr(self, node, o, g):
        a = node.attr
        if o.ty == 'module':
            if (o.name, a) in (('json', 'dumps'), ('importlib', 'import_module')):
                return V('prim', key=(o.name, a))
            raise U(node, '%s.%s has no counterpart in the model' % (o.name, a))
        if o.ty == 'enum':
            if a not in o.members:
                raise U(node, '%s has no member %s' % (o.name, a))
            return V('enummember', value=o.members[a])
        if o.ty == 'enummember' and a == 'value':
            return V('int', str(o.value), lit=o.value)
        if o.ty == 'drawer':
            if a == 'user_data_version':
                return V('int', '%s.version' % o.term)
            if a in ('get_header_file_path', 'get_trace_string_file_path'):
                return V('bound', obj=o, attr=a)
        if o.ty == 'obj' and a == 'toJSON':
            return V('bound', obj=o, attr=a)
        if o.ty == 'optmod' and o.known == 'some' and a == 'parseSRCToJson':
            return V('bound', obj=o, attr=a)
        if o.ty == 'ph' and a in PH_FIELDS and PH_FIELDS[a][1] in ('int', 'text'):
            return V(PH_FIELDS[a][1], '%s.%s' % (o.term, PH_FIELDS[a][0]))
        if o.ty == 'self':
            if a in o.fields:
                self.fields_read.add(a)
                return o.fields[a]
            raise U(node, 'self.%s is not a field the constructor stores' % a)
        if o.ty == 'text' and (a in ('lower', 'upper', 'join') or (a == 'format' and o.lit is not None)):
            return V('bound', obj=o, attr=a)
        if o.ty == 'intdict' and a == 'get':
            return V('bound', obj=o, attr=a)
        raise U(node, 'attribute %s of a %s' % (a, o.ty))

    def apply(self, node, f, args, fr, g, k, kx):
        if f.ty == 'pyfn':
            return self.inline(node, f, args, g, k, kx)
        if f.ty == 'choice':
            def go(i):
                if i == len(f.alts):
                    return self.apply(node, f.default, args, fr, g, k, kx)
                c, fv = f.alts[i]
                return '(if %s then\n%s\nelse\n%s)' % (c, TP.ind(self.apply(node, fv, args, fr, g, k, kx)), TP.ind(go(i + 1)))
            out = go(0)
            if len(out) > MAXTERM:
                raise U(node, 'the translation grows too large')
            return out
        if f.ty == 'builtin':
            return self.builtin(node, f.name, args, g, k, kx)
        if f.ty == 'prim':
            return self.prim(node, f.key, args, g, k, kx)
        if f.ty == 'class':
            return self.construct(node, f, args, g, k)
        if f.ty == 'bound':
            return self.method(node, f.obj, f.attr, args, fr, g, k, kx)
        raise U(node, 'call of a %s' % f.ty)

    def inline(self, node, f, args, g, k, kx):
        params = plain_params(f.fn)
        if len(params) != len(args):
            raise U(node, 'call of %s with %d arguments' % (f.fn.name, len(args)))
        if self.depth > 30:
            raise U(node, 'calls nested too deeply (recursion?)')
        fr2 = Frame(f.src, f.fn)
        self.depth += 1
        try:
            return self.run(strip(f.fn.body), fr2, dict(zip(params, args)), g,
                            K(end=lambda v_, g2: k(NONE, g2), ret=lambda v, g2: k(v, g2), exc=lambda e, g2, v_: kx(e, g2)))
        finally:
            self.depth -= 1

    def builtin(self, node, name, args, g, k, kx):
        if name == 'str' and len(args) == 1:
            a = args[0]
            if a.ty == 'text':
                return k(a, g)
            if a.ty == 'int':
                return k(V('text', '(natDec %s)' % a.term), g)
            if a.ty == 'exc' and getattr(a, 'msg', None) is not None:
                return k(a.msg, g)
            raise U(node, 'str of a %s' % a.ty)
        if name == 'len' and len(args) == 1 and args[0].ty in ('bytes', 'text'):
            return k(V('int', '%s.length' % par(args[0].term)), g)
        if name == 'dict' and not args:
            ref = self.fresh('r')
            return k(V('dict', ref=ref), gset(g, heap=dict(g['heap'], **{ref: ()})))
        if name == 'memoryview' and len(args) == 1 and args[0].ty == 'bytes':
            return k(args[0], g)
        if name in EXC_PARENTS:
            if len(args) == 1 and args[0].ty == 'text':
                return k(V('exc', cls=name, msg=args[0], fault=None), g)
            if not args:
                return k(V('exc', cls=name, msg=None, fault=None), g)
            raise U(node, 'exception constructed with other arguments than one str')
        raise U(node, 'call of %s' % name)

    def prim(self, node, key, args, g, k, kx):
        if key == ('json', 'dumps') and len(args) == 1:
            return k(V('jsontext', j=self.to_json(node, args[0], g), isnull=args[0].ty == 'none'), g)
        if key == ('pel.hexdump', 'hexdump') and len(args) == 1 and args[0].ty == 'bytes':
            l, c = TS.hexdump_defaults(self.ctx.repo)
            return k(V('jarr', '(J.arr ((hexdump %d %d %s).map jstr))' % (l, c, args[0].term)), g)
        if any(kk[0] == key for kk in DRAWER_PARSERS):
            if len(args) != 2 or args[0].ty != 'bytes' or args[1].ty != 'path' or (key, args[1].method) not in DRAWER_PARSERS:
                raise U(node, 'arguments of %s' % key[1])
            tmpl, isopt = DRAWER_PARSERS[(key, args[1].method)]
            t = tmpl.format(d=args[1].drawer.term, b=args[0].term)
            if not isopt:
                return k(V('jarr', '(linesJ (%s))' % t), g)
            if self.none_term is None:
                raise U(node, 'a decoder that can leave the modelled subset, in a function that cannot say so')
            ls = self.fresh('ls')
            self.neff += 1
            return '(match %s with\n| none => %s\n| some %s =>\n%s)' % (t, self.none_term, ls, TP.ind(k(V('jarr', '(linesJ %s)' % ls), g)))
        if key == ('importlib', 'import_module') and len(args) == 1:
            if self.import_term is None:
                raise U(node, 'import_module outside a look-up function')
            n = self.key(node, args[0])
            b, f = self.fresh('b'), self.fresh('f')
            self.neff += 1
            return '(match %s %s with\n| .module %s =>\n%s\n| .failed %s =>\n%s)' % (
                self.import_term, n, b, TP.ind(k(V('optmod', '(some %s)' % b, known='some', inner=b), g)),
                f, TP.ind(kx(V('exc', cls=None, msg=None, fault=f), g)))
        if key == ('peltool', 'getSectionName') and len(args) == 1 and args[0].ty == 'int':
            return k(V('text', '(sectionName env.T %s)' % args[0].term), g)
        if key == ('peltool', 'parseHeader') and len(args) == 1 and args[0].ty == 'stream':
            if g.get('pending') is not None:
                raise U(node, 'a header is read while a constructed section has not been rendered')
            h = self.fresh('h')
            self.neff += 1
            return '(parseHeader >>= fun %s =>\n%s)' % (h, k(V('tuple', elems=[V('int', '%s.%s' % (h, x)) for x in ('id', 'len', 'ver', 'sub', 'comp')]), g))
        raise U(node, 'call of %s.%s with these arguments' % key)

    def construct(self, node, f, args, g, k):
        with_creator = f.info[0]
        if len(args) != 6 + (1 if with_creator else 0) or args[0].ty != 'stream' or any(a.ty != 'int' for a in args[1:6]) \
                or (with_creator and args[6].ty != 'text'):
            raise U(node, 'arguments of the constructor of %s' % f.key[1])
        if g.get('pending') is not None:
            raise U(node, 'a second section is constructed before the first one is rendered')
        oid = self.fresh('o')
        return k(V('obj', cls=f, hdr=[a.term for a in args[1:6]], creator=args[6].term if with_creator else None, oid=oid), gset(g, pending=oid))

    def method(self, node, o, a, args, fr, g, k, kx):
        if o.ty == 'obj' and a == 'toJSON':
            info = o.cls.info
            if g.get('pending') != o.oid:
                raise U(node, 'toJSON of an object that was not constructed just before (or was rendered already)')
            if len(args) != (1 if info[1] else 0) or (info[1] and args[0].ty != 'cfg'):
                raise U(node, 'arguments of %s.toJSON' % o.cls.key[1])
            m = [re.match(r'^(\w+)\.(id|len|ver|sub|comp)$', t) for t in o.hdr]
            if all(m) and len({x.group(1) for x in m}) == 1 and [x.group(2) for x in m] == ['id', 'len', 'ver', 'sub', 'comp']:
                h = m[0].group(1)
            else:
                h = '(SecHdr.mk %s)' % ' '.join(par(t) for t in o.hdr)
            rd = info[2].format(h=h, c=par(o.creator) if o.creator else '')
            v = self.fresh('j')
            self.neff += 1
            return '(%s >>= fun %s =>\n%s)' % (rd, v, k(V('json', info[3] % v), gset(g, pending=None)))
        if o.ty == 'drawer':
            if args:
                raise U(node, 'arguments of %s' % a)
            return k(V('path', drawer=o, method=a), g)
        if o.ty == 'optmod' and a == 'parseSRCToJson':
            want = g.get('forward')
            if want is None or len(args) != len(want) or any(x is not y for x, y in zip(args, want)):
                raise U(node, 'the component parser is not called with the nine parameters of the wrapper in order')
            return k(V('modresult', o.inner), g)
        if o.ty == 'text' and a in ('lower', 'upper') and not args:
            fn_ = 'toLowerAscii' if a == 'lower' else 'toUpperAscii'
            lit = None
            if o.lit is not None and all(ord(c) < 128 for c in o.lit):
                lit = o.lit.lower() if a == 'lower' else o.lit.upper()
            return k(V('text', '(%s.map %s)' % (par(o.term), fn_), lit=None if lit is None else lit) if lit is None else V('text', text_lit(lit), lit=lit), g)
        if o.ty == 'text' and a == 'format' and o.lit is not None:
            return k(self.apply_format(node, TS.parse_format(node, o.lit), args), g)
        if o.ty == 'text' and a == 'join' and len(args) == 1 and args[0].ty == 'pylist' and all(e.ty == 'text' for e in args[0].elems):
            return k(V('text', '(joinWith %s [%s])' % (par(o.term), ', '.join(e.term for e in args[0].elems))), g)
        if o.ty == 'intdict' and a == 'get' and len(args) == 2 and args[0].ty == 'int':
            key = args[0]
            if key.lit is not None:
                for kv, vv in o.entries:
                    if kv.lit == key.lit:
                        return k(vv, g)
                return k(args[1], g)
            return k(V('choice', alts=[('%s = %s' % (key.term, kv.term), vv) for kv, vv in o.entries], default=args[1]), g)
        raise U(node, 'method %s of a %s' % (a, o.ty))

    # ---- conditions (pure)
    def cond(self, node, fr, vars, g):
        if isinstance(node, ast.UnaryOp) and isinstance(node.op, ast.Not):
            return self.cond(node.operand, fr, vars, g).negate()
        if isinstance(node, ast.BoolOp):
            parts = [self.cond(v, fr, vars, g) for v in node.values]
            if any(p.kind != 'prop' for p in parts):
                raise U(node, 'and/or over a test that is not a plain comparison')
            sym, bsym = (' ∧ ', ' && ') if isinstance(node.op, ast.And) else (' ∨ ', ' || ')
            return C('prop', prop='(%s)' % sym.join(p.prop for p in parts),
                     bool=None if any(p.bool is None for p in parts) else '(%s)' % bsym.join(p.bool for p in parts))
        if isinstance(node, ast.Compare):
            if len(node.ops) != 1:
                raise U(node, 'chained comparison')
            op = node.ops[0]
            a = self.pure(node.left, fr, vars, g)
            b = self.pure(node.comparators[0], fr, vars, g)
            if isinstance(op, (ast.Is, ast.IsNot)):
                if b.ty != 'none':
                    raise U(node, '`is` with something other than None')
                c = self.is_none(node, a, vars)
                return c.negate() if isinstance(op, ast.IsNot) else c
            if isinstance(op, (ast.In, ast.NotIn)):
                c = self.contains(node, a, b, g)
                return c.negate() if isinstance(op, ast.NotIn) else c
            if a.ty != b.ty or a.ty not in ('int', 'text'):
                raise U(node, 'comparison of %s and %s' % (a.ty, b.ty))
            if isinstance(op, ast.Eq):
                return C('prop', prop='%s = %s' % (a.term, b.term), bool='%s == %s' % (a.term, b.term))
            if isinstance(op, ast.NotEq):
                return C('prop', prop='%s ≠ %s' % (a.term, b.term), bool='%s != %s' % (a.term, b.term))
            sym = {ast.Lt: '<', ast.LtE: '≤', ast.Gt: '>', ast.GtE: '≥'}.get(type(op))
            if sym and a.ty == 'int':
                return C('prop', prop='%s %s %s' % (a.term, sym, b.term), bool='decide (%s %s %s)' % (a.term, sym, b.term))
            raise U(node, 'comparison operator %s on %s' % (type(op).__name__, a.ty))
        v = self.pure(node, fr, vars, g)
        if v.ty in ('bytes', 'text'):
            return C('prop', prop='%s ≠ []' % v.term, bool='%s != []' % v.term)
        if v.ty == 'int':
            return C('prop', prop='%s ≠ 0' % v.term, bool='%s != 0' % v.term)
        if v.ty == 'bool' and v.lit is not None:
            return C('static', value=v.lit)
        raise U(node, 'truth value of a %s' % v.ty)

    def is_none(self, node, a, vars):
        """`a is None` (the `none` side of the match is the then-side)"""
        if a.ty == 'none':
            return C('static', value=True)
        if a.ty != 'optmod':
            raise U(node, '`is None` on a %s' % a.ty)
        if a.known == 'some':
            return C('static', value=False)
        if a.known == 'none':
            return C('static', value=True)
        b = self.fresh('b')

        def refine(new):
            return lambda vars_, g_: ({n: (new if v is a else v) for n, v in vars_.items()}, g_)
        c = C('match', scrut=a.term, binder=b)
        c.neg = True                     # then-side = `none`
        c.then_ref = refine(V('optmod', 'none', known='none', inner=None))
        c.else_ref = refine(V('optmod', '(some %s)' % b, known='some', inner=b))
        return c

    def contains(self, node, a, b, g):
        if b.ty == 'cache':
            n = self.key(node, a)
            v = self.fresh('m')
            c = C('match', scrut='cacheGet %s %s' % (g['cache'], n), binder=v)
            c.then_ref = lambda vars_, g_: (vars_, gset(g_, known=dset(g_.get('known', {}), b.id, V('optmod', v, known=None, inner=None))))
            return c
        if b.ty == 'table' and a.ty == 'text':
            v = self.fresh('ls')
            c = C('match', scrut="procDescription.lookupT' %s %s" % (b.term, par(a.term)), binder=v)
            c.then_ref = lambda vars_, g_: (vars_, gset(g_, known=dset(g_.get('known', {}), (b.id, a.term), V('strlist', v))))
            return c
        raise U(node, '`in` on a %s' % b.ty)

    # ---- statements
    def assign_name(self, node, fr, vars, name, v):
        if v.ty == 'pylist' and isinstance(node, ast.Name):
            pass
        vars2 = dict(vars)
        vars2[name] = v
        return vars2

    def run(self, stmts, fr, vars, g, K_):
        if not stmts:
            return K_.end(vars, g)
        st, rest = stmts[0], stmts[1:]

        def cont(vars2, g2):
            return self.run(rest, fr, vars2, g2, K_)

        def kx(e, g2):
            return K_.exc(e, g2, vars)
        if isinstance(st, ast.Pass) or (isinstance(st, ast.Expr) and isinstance(st.value, ast.Constant) and isinstance(st.value.value, (str, type(Ellipsis)))):
            return cont(vars, g)
        if isinstance(st, (ast.Assign, ast.AnnAssign)):
            if isinstance(st, ast.Assign):
                if len(st.targets) != 1:
                    raise U(st, 'multiple assignment')
                tgt = st.targets[0]
            else:
                tgt = st.target
                if st.value is None:
                    raise U(st, 'annotation without a value')
            return self.ev(st.value, fr, vars, g, lambda v, g2: self.assign(st, tgt, v, fr, vars, g2, cont), kx)
        if isinstance(st, ast.Expr) and isinstance(st.value, ast.Call):
            return self.ev(st.value, fr, vars, g, lambda v, g2: cont(vars, g2), kx)
        if isinstance(st, ast.Return):
            if rest:
                raise U(rest[0], 'statements after return')
            if st.value is None:
                return K_.ret(NONE, g)
            return self.ev(st.value, fr, vars, g, K_.ret, kx)
        if isinstance(st, ast.Raise):
            if st.cause is not None or st.exc is None:
                raise U(st, 'raise without an exception / with a cause')

            def thrown(e, g2):
                if e.ty == 'builtin' and e.name in EXC_PARENTS:
                    e = V('exc', cls=e.name, msg=None, fault=None)
                if e.ty != 'exc':
                    raise U(st, 'raise of a %s' % e.ty)
                return K_.exc(e, g2, vars)
            return self.ev(st.exc, fr, vars, g, thrown, kx)
        if isinstance(st, ast.If):
            return self.if_(st, rest, fr, vars, g, K_, cont)
        if isinstance(st, ast.Try):
            return self.try_(st, fr, vars, g, K_, cont)
        if isinstance(st, ast.For):
            return self.for_find(st, rest, fr, vars, g, K_, cont)
        raise U(st, 'statement %s' % type(st).__name__)

    def assign(self, st, tgt, v, fr, vars, g, cont):
        if isinstance(tgt, ast.Name):
            vars2 = dict(vars)
            vars2[tgt.id] = v
            return cont(vars2, g)
        if isinstance(tgt, ast.Tuple):
            if v.ty != 'tuple' or len(v.elems) != len(tgt.elts) or not all(isinstance(e, ast.Name) for e in tgt.elts):
                raise U(st, 'unpacking')
            vars2 = dict(vars)
            for e, x in zip(tgt.elts, v.elems):
                vars2[e.id] = x
            return cont(vars2, g)
        if isinstance(tgt, ast.Subscript) and not isinstance(tgt.slice, ast.Slice):
            d = self.pure(tgt.value, fr, vars, g)
            kv = self.pure(tgt.slice, fr, vars, g)
            return cont(vars, self.store(st, d, kv, v, g))
        raise U(st, 'assignment target')

    def simple_assigns(self, stmts):
        return all(isinstance(b, ast.Assign) and len(b.targets) == 1 and isinstance(b.targets[0], ast.Name) for b in stmts)

    def if_(self, st, rest, fr, vars, g, K_, cont):
        c = self.cond(st.test, fr, vars, g)
        body, orelse = strip(st.body), strip(st.orelse)
        if c.kind == 'prop' and body and self.simple_assigns(body) and self.simple_assigns(orelse):
            # `if c: x = e [else: x = e']` with pure right-hand sides: a conditional value, what follows is not duplicated
            try:
                va, vb = dict(vars), dict(vars)
                for b in body:
                    va[b.targets[0].id] = self.pure(b.value, fr, va, g)
                for b in orelse:
                    vb[b.targets[0].id] = self.pure(b.value, fr, vb, g)
                merged = dict(vars)
                ok = True
                for nm in sorted(set(list(va) + list(vb))):
                    x, y = va.get(nm), vb.get(nm)
                    if x is y:
                        continue
                    if x is None or y is None:
                        merged[nm] = V('undef')
                    elif x.ty == y.ty and x.ty in ('int', 'text'):
                        merged[nm] = V(x.ty, '(if %s then %s else %s)' % (c.prop, x.term, y.term))
                    else:
                        ok = False
                if ok:
                    return cont(merged, g)
            except EffectInPure:
                pass

        def side(stmts, ref):
            def thunk():
                v2, g2 = ref(vars, g)
                return self.run(stmts, fr, v2, g2, K(end=cont, ret=K_.ret, exc=K_.exc))
            return thunk
        out = c.emit(side(body, c.then_ref), side(orelse, c.else_ref))
        if len(out) > MAXTERM:
            raise U(st, 'the translation grows too large')
        return out

    def exc_class(self, node, fr, vars):
        if not isinstance(node, ast.Name):
            raise U(node, 'exception class expression')
        v = self.name(node, fr, vars)
        if v.ty != 'builtin' or v.name not in EXC_PARENTS:
            raise U(node, 'exception class %s' % node.id)
        return v.name

    def catches(self, e, cname):
        if cname is None:
            return True
        if e.fault is not None:
            if cname not in FAULTS:
                return False
            if FAULTS[cname] is None:
                return True
            return ' ∨ '.join('%s = Fault.%s' % (e.fault, f) for f in FAULTS[cname])
        return cname == e.cls or cname in EXC_PARENTS[e.cls]

    def try_(self, st, fr, vars, g, K_, cont):
        if st.finalbody or not st.handlers:
            raise U(st, 'try/finally')
        body = strip(st.body)

        def dispatch(e, g2, hv):
            # hv: the variables of this frame at the statement of the try body that raised

            def go(i):
                if i == len(st.handlers):
                    return K_.exc(e, g2, hv)
                h = st.handlers[i]
                cname = None if h.type is None else self.exc_class(h.type, fr, vars)
                catches = self.catches(e, cname)

                def hbody():
                    hv2 = dict(hv)
                    if h.name:
                        hv2[h.name] = e
                    return self.run(strip(h.body), fr, hv2, g2, K(end=cont, ret=K_.ret, exc=K_.exc))
                if catches is True:
                    return hbody()
                if catches is False:
                    return go(i + 1)
                return '(if %s then\n%s\nelse\n%s)' % (catches, TP.ind(hbody()), TP.ind(go(i + 1)))
            return go(0)

        def after_body(vars2, g2):
            return self.run(strip(st.orelse), fr, vars2, g2, K(end=cont, ret=K_.ret, exc=K_.exc))
        return self.run(body, fr, vars, g, K(end=after_body, ret=K_.ret, exc=dispatch))

    def for_find(self, st, rest, fr, vars, g, K_, cont):
        body = strip(st.body)
        if not (not st.orelse and isinstance(st.target, ast.Name) and len(body) == 1 and isinstance(body[0], ast.If) and not body[0].orelse):
            raise U(st, 'for loop shape')
        inner = strip(body[0].body)
        if not (len(inner) == 1 and isinstance(inner[0], ast.Return) and isinstance(inner[0].value, ast.Name) and inner[0].value.id == st.target.id):
            raise U(st, 'for loop shape (only `for x in L: if c(x): return x` is known)')
        L = self.pure(st.iter, fr, vars, g)
        if L.ty != 'drawers':
            raise U(st, 'loop over a %s' % L.ty)
        x, y = self.fresh('d'), self.fresh('d')
        vx = dict(vars)
        vx[st.target.id] = V('drawer', x)
        c = self.cond(body[0].test, fr, vx, g)
        if c.kind != 'prop' or c.bool is None:
            raise U(st, 'loop test')
        va = dict(vars)
        va[st.target.id] = V('undef')
        self.neff += 1
        return '(match %s.find? (fun %s => %s) with\n| some %s =>\n%s\n| none =>\n%s)' % (
            par(L.term), x, c.bool, y, TP.ind(K_.ret(V('drawer', y), g)), TP.ind(cont(va, g)))


# ---------------------------------------------------------------------------------------------------------------------
# peltool.py: sectionFun, the generate* wrappers, the section loop of parsePEL

HDR = ('id', 'len', 'ver', 'sub', 'comp')
WRAPPERS = ['generateSRC', 'generateEH', 'generateMT', 'generateED', 'generateUD', 'generateIP', 'generateDefault']


def no_exception(node_desc):
    def kx(e, g, vars=None):
        raise Untranslatable('an exception may leave %s' % node_desc)
    return kx


def one_member(g, ref, what):
    if g.get('pending') is not None:
        raise Untranslatable('%s constructs a section without rendering it' % what)
    items = g['heap'][ref]
    if len(items) != 1:
        raise Untranslatable('%s leaves %d members in the dictionary, expected one' % (what, len(items)))
    return 'pure (%s, %s)' % (items[0][0], items[0][2])


def section_fun_setup(ctx):
    src = ctx.src(PT + 'peltool.py')
    fn = src.fn('sectionFun')
    params = plain_params(fn, 9)
    m = Machine(ctx)
    ref = m.fresh('r')
    g = {'heap': {ref: ()}, 'pending': None}
    vals = [V('stream'), V('dict', ref=ref)] + [V('int', 'h.' + x) for x in HDR] + [V('text', 'creator'), V('cfg')]
    return src, fn, m, ref, g, dict(zip(params, vals))


def gen_section_fun(ctx):
    src, fn, m, ref, g, vars = section_fun_setup(ctx)
    fin = lambda v, g2: one_member(g2, ref, 'sectionFun')     # noqa: E731
    body = m.run(strip(fn.body), Frame(src, fn), vars, g, K(end=fin, ret=fin, exc=no_exception('sectionFun')))
    return 'fun env creator h =>\n' + body


def gen_wrapper(ctx, name):
    """the wrapper as sectionFun calls it"""
    src, fn, m, ref, g, vars = section_fun_setup(ctx)
    calls = [n for n in ast.walk(fn) if isinstance(n, ast.Call) and isinstance(n.func, ast.Name) and n.func.id == name]
    if len(calls) != 1:
        raise Untranslatable('sectionFun calls %s %d times' % (name, len(calls)))
    stmts = [n for n in ast.walk(fn) if isinstance(n, ast.Expr) and n.value is calls[0]]
    if len(stmts) != 1:
        raise U(calls[0], 'the call of %s is not a statement of its own' % name)
    fr = Frame(src, fn)
    if name in fr.locals or src.how(calls[0], name) != 'def':
        raise U(calls[0], '%s is not the module-level function' % name)
    body = m.ev(calls[0], fr, vars, g, lambda v, g2: one_member(g2, ref, name), no_exception(name))
    return 'fun env creator h =>\n' + body


class LoopMachine(Machine):
    """adds `xs.append(d)` on the accumulator of the counted loop"""

    def attr(self, node, o, g):
        if o.ty == 'acc' and node.attr == 'append':
            return V('bound', obj=o, attr='append')
        return Machine.attr(self, node, o, g)

    def method(self, node, o, a, args, fr, g, k, kx):
        if o.ty == 'acc' and a == 'append':
            if len(args) != 1 or args[0].ty != 'dict':
                raise U(node, 'append of something other than a dictionary')
            return k(NONE, gset(g, appended=g.get('appended', ()) + (args[0].ref,)))
        return Machine.method(self, node, o, a, args, fr, g, k, kx)


def returns_private_header(src):
    """generatePH hands back (flag, <PrivateHeader object or None>)"""
    fn = src.fn('generatePH')
    if src.how(fn, 'PrivateHeader') != 'from pel.peltool.private_header import PrivateHeader':
        raise U(fn, 'PrivateHeader is not the imported class')
    made = set()
    for n in ast.walk(fn):
        if isinstance(n, ast.Assign) and len(n.targets) == 1 and isinstance(n.targets[0], ast.Name) and isinstance(n.value, ast.Call) \
                and isinstance(n.value.func, ast.Name) and n.value.func.id == 'PrivateHeader':
            made.add(n.targets[0].id)
    stores = {}
    for n in ast.walk(fn):
        if isinstance(n, ast.Name) and isinstance(n.ctx, ast.Store):
            stores[n.id] = stores.get(n.id, 0) + 1
    for n in ast.walk(fn):
        if isinstance(n, ast.Return):
            v = n.value
            if not (isinstance(v, ast.Tuple) and len(v.elts) == 2):
                raise U(n, 'generatePH does not return a pair')
            x = v.elts[1]
            if isinstance(x, ast.Constant) and x.value is None:
                continue
            if not (isinstance(x, ast.Name) and x.id in made and stores.get(x.id) == 1 and x.id not in [a.arg for a in fn.args.args]):
                raise U(n, 'generatePH returns something other than the PrivateHeader it constructed')


def gen_section_loop(ctx):
    src = ctx.src(PT + 'peltool.py')
    fn = src.fn('parsePEL')
    params = plain_params(fn, 3)
    fr = Frame(src, fn)
    body = strip(fn.body)
    loops = [n for n in ast.walk(fn) if isinstance(n, (ast.For, ast.AsyncFor))]
    if len(loops) != 1 or loops[0] not in body:
        raise U(fn, 'parsePEL does not have exactly one loop, at the top level of its body')
    loop = loops[0]
    i = body.index(loop)
    stores, loads = {}, {}
    for n in ast.walk(fn):
        if isinstance(n, ast.Name):
            d = stores if isinstance(n.ctx, ast.Store) else loads
            d.setdefault(n.id, []).append(n)
    for p in params[:2]:
        if p in stores:
            raise U(stores[p][0], 'parsePEL rebinds its parameter %s' % p)
    # the accumulator
    init = body[i - 1] if i > 0 else None
    if not (isinstance(init, ast.Assign) and len(init.targets) == 1 and isinstance(init.targets[0], ast.Name)
            and isinstance(init.value, ast.List) and not init.value.elts):
        raise U(loop, 'the loop is not preceded by `xs = []`')
    acc = init.targets[0].id
    if len(stores[acc]) != 1 or any(n.lineno < loop.lineno for n in loads.get(acc, [])) or src.how(init, acc) is not None and acc not in fr.locals:
        raise U(init, 'the accumulator %s is used before the loop or bound twice' % acc)
    # ph
    ph = None
    for st in body[:i]:
        if isinstance(st, ast.Assign) and isinstance(st.value, ast.Call) and isinstance(st.value.func, ast.Name) and st.value.func.id == 'generatePH':
            t = st.targets[0]
            if len(st.targets) != 1 or not (isinstance(t, ast.Tuple) and len(t.elts) == 2 and all(isinstance(e, ast.Name) for e in t.elts)) or ph is not None:
                raise U(st, 'the result of generatePH is not unpacked into two names, once')
            ph = t.elts[1].id
    if ph is None or len(stores[ph]) != 1 or 'generatePH' in fr.locals or src.how(loop, 'generatePH') != 'def':
        raise U(loop, 'no single `flag, ph = generatePH(…)` before the loop')
    returns_private_header(src)
    # the header object is only ever read through its attributes (never handed on as a whole, never stored into)
    attr_parents = {id(n.value): n for n in ast.walk(fn) if isinstance(n, ast.Attribute)}
    for n in loads.get(ph, []):
        par_ = attr_parents.get(id(n))
        if par_ is None or not isinstance(par_.ctx, ast.Load):
            raise U(n, 'the private header object %s is used other than by reading an attribute' % ph)
    # the loop
    if loop.orelse or not isinstance(loop.target, ast.Name) or loop.target.id in loads:
        raise U(loop, 'loop variable is used / loop has an else')
    it = loop.iter
    if not (isinstance(it, ast.Call) and isinstance(it.func, ast.Name) and it.func.id == 'range' and 'range' not in fr.locals
            and src.how(it, 'range') is None and len(it.args) == 2 and not it.keywords):
        raise U(loop, 'the loop does not run over range(a, b)')
    m = LoopMachine(ctx)
    vars = {params[0]: V('stream'), params[1]: V('cfg'), ph: V('ph', 'ph'), acc: V('acc')}
    g = {'heap': {}, 'pending': None}
    lo = m.pure(it.args[0], fr, vars, g)
    hi = m.pure(it.args[1], fr, vars, g)
    if lo.ty != 'int' or lo.lit is None or hi.ty != 'int':
        raise U(loop, 'bounds of the range')

    def end(vars2, g2):
        ap = g2.get('appended', ())
        if len(ap) != 1:
            raise U(loop, 'one iteration appends %d dictionaries to %s' % (len(ap), acc))
        return one_member(g2, ap[0], 'one iteration of the loop')

    def ret(v, g2):
        raise U(loop, 'return inside the loop')
    step = m.run(strip(loop.body), fr, vars, g, K(end=end, ret=ret, exc=no_exception('the loop')))
    return 'fun env ph =>\n  Rd.collect (\n%s) (%s - %s)' % (TP.ind(step, 4), hi.term, lo.term)


# ---------------------------------------------------------------------------------------------------------------------
# udparsers/m2c00/m2c00.py

M2C = 'udparsers/m2c00/m2c00.py'


def gen_m2c00(ctx, sub_const=None):
    src = ctx.src(M2C)
    fn = src.fn('parseUDToJson')
    params = plain_params(fn, 3)
    m = Machine(ctx, none_term='none')
    if sub_const is None:
        sub, head = V('int', 'sub'), 'fun drawers sub ver data =>\n'
    else:
        if src.how(fn, sub_const) != 'assignment':
            raise Untranslatable('no module-level constant %s' % sub_const)
        sub, head = m.module_const(fn, src, sub_const), 'fun drawers ver data =>\n'
        if sub.ty != 'int':
            raise Untranslatable('%s is not an integer constant' % sub_const)
    vars = dict(zip(params, [sub, V('int', 'ver'), V('bytes', 'data')]))

    def ret(v, g):
        if v.ty != 'jsontext':
            raise Untranslatable('parseUDToJson returns a %s, not the text json.dumps made' % v.ty)
        return 'some %s' % v.j

    def end(vars2, g):
        raise Untranslatable('parseUDToJson may end without return')
    return head + m.run(strip(fn.body), Frame(src, fn), vars, {'heap': {}}, K(end=end, ret=ret, exc=no_exception('parseUDToJson')))


# ---------------------------------------------------------------------------------------------------------------------
# srcparsers/osrc/osrc.py

_osrc = {}


def osrc_run(ctx):
    if id(ctx) in _osrc:
        return _osrc[id(ctx)]
    src = ctx.src('srcparsers/osrc/osrc.py')
    fn = src.fn('parseSRCToJson')
    params = plain_params(fn, 9)
    if src.how(fn, 'importlib') != 'import importlib' or src.how(fn, 'json') != 'import json':
        raise U(fn, 'importlib / json are not the imported modules')
    m = Machine(ctx, import_term='env.srcImport')
    vals = [V('text', 'refcode')] + [V('text', 'word%d' % i) for i in range(2, 10)]
    g = {'heap': {}, 'cache': 'c', 'known': {}, 'forward': vals}

    def ret(v, g2):
        if v.ty == 'jsontext' and v.isnull:
            return '(Got.none, %s)' % g2['cache']
        if v.ty == 'modresult':
            return '(Got.module %s, %s)' % (v.term, g2['cache'])
        raise Untranslatable('osrc.parseSRCToJson returns a %s' % v.ty)

    def exc(e, g2, vars_):
        if e.fault is None:
            raise Untranslatable('an exception other than an import failure may leave osrc.parseSRCToJson')
        return '(Got.raised, %s)' % g2['cache']

    def end(vars2, g2):
        raise Untranslatable('osrc.parseSRCToJson may end without return')
    term = m.run(strip(fn.body), Frame(src, fn), dict(zip(params, vals)), g, K(end=end, ret=ret, exc=exc))
    if len(m.keyterms) != 1:
        raise Untranslatable('the parser table is consulted with %d different keys' % len(m.keyterms))
    if re.search(r'\b(refcode|word\d)\b', term):
        raise Untranslatable('the look-up depends on the reference code or the words other than through the module name')
    _osrc[id(ctx)] = ('fun refcode =>\n  ' + m.keyterms[0], 'fun env c n =>\n' + term)
    return _osrc[id(ctx)]


# ---------------------------------------------------------------------------------------------------------------------
# module names of SRC.parse and ParseUserData.parseCustom

def syntactically_pure(node):
    for n in ast.walk(node):
        if isinstance(n, ast.Call) and not (isinstance(n.func, ast.Name) and n.func.id == 'len'):
            return False
        if not isinstance(n, (ast.Call, ast.Name, ast.Constant, ast.Compare, ast.BoolOp, ast.UnaryOp, ast.Attribute, ast.Load, ast.cmpop, ast.boolop, ast.unaryop)):
            return False
    return True


def leaves(stmts):
    if not stmts:
        return False
    last = stmts[-1]
    if isinstance(last, (ast.Return, ast.Raise)):
        return True
    return isinstance(last, ast.Expr) and isinstance(last.value, ast.Call) and pytrans.dotted(last.value.func) in ('exit', 'sys.exit')


def gen_module_name(ctx, rel, clsname, method, init_vals, cache_name, head):
    src = ctx.src(rel)
    c = src.cls(clsname)
    if c.bases or c.keywords or c.decorator_list:
        raise U(c, 'class %s has bases, keywords or decorators' % clsname)
    TP.require_single_methods(src.tree, clsname, ['__init__', method])
    init = pytrans.find_def(src.tree, clsname + '.__init__')
    meth = pytrans.find_def(src.tree, clsname + '.' + method)
    ip = plain_params(init, len(init_vals) + 1)
    fields = {}
    for st in strip(init.body):
        if not (isinstance(st, ast.Assign) and len(st.targets) == 1 and isinstance(st.targets[0], ast.Attribute)
                and isinstance(st.targets[0].value, ast.Name) and st.targets[0].value.id == ip[0]):
            raise U(st, 'a statement of %s.__init__ that is not `self.<field> = …`' % clsname)
        a = st.targets[0].attr
        if isinstance(st.value, ast.Name) and st.value.id in ip[1:]:
            fields[a] = init_vals[ip.index(st.value.id) - 1]
        else:
            fields[a] = V('undef')
    fields = {k_: v for k_, v in fields.items() if v.ty != 'undef'}
    mp = plain_params(meth)
    fr = Frame(src, meth)
    if src.how(meth, 'importlib') != 'import importlib' or 'importlib' in fr.locals:
        raise U(meth, 'importlib is not the imported module')
    if src.how(meth, cache_name) != 'assignment' or cache_name in fr.locals:
        raise U(meth, '%s is not the module-level table' % cache_name)
    imports = [n for n in ast.walk(meth) if isinstance(n, ast.Call) and pytrans.dotted(n.func) == 'importlib.import_module']
    if len(imports) != 1 or len(imports[0].args) != 1 or imports[0].keywords or not isinstance(imports[0].args[0], ast.Name):
        raise U(meth, '%s does not have exactly one importlib.import_module(<name>)' % method)
    keyname = imports[0].args[0].id
    for n in ast.walk(meth):
        if isinstance(n, ast.Subscript) and isinstance(n.value, ast.Name) and n.value.id == cache_name:
            if not (isinstance(n.slice, ast.Name) and n.slice.id == keyname):
                raise U(n, '%s is subscripted with something other than %s' % (cache_name, keyname))
        if isinstance(n, ast.Compare) and any(isinstance(x, ast.Name) and x.id == cache_name for x in n.comparators):
            if not (isinstance(n.left, ast.Name) and n.left.id == keyname and len(n.ops) == 1):
                raise U(n, '%s is searched for something other than %s' % (cache_name, keyname))
    body = strip(meth.body)
    tries = [j for j, st in enumerate(body) if isinstance(st, ast.Try)]
    if not tries or not any(n is imports[0] for n in ast.walk(body[tries[0]])):
        raise U(meth, 'the import is not inside the first try statement of %s' % method)
    prefix, suffix = body[:tries[0]], body[tries[0]:]
    for st in suffix:
        for n in ast.walk(st):
            if isinstance(n, ast.Name) and n.id == keyname and isinstance(n.ctx, (ast.Store, ast.Del)):
                raise U(n, '%s is rebound after the module name was built' % keyname)
    m = Machine(ctx)
    vars = {mp[0]: V('self', fields=fields)}
    for p in mp[1:]:
        vars[p] = V('opaque')
    g = {'heap': {}}
    for st in prefix:
        if isinstance(st, ast.If) and not st.orelse and leaves(strip(st.body)) and syntactically_pure(st.test):
            continue                       # a guard that leaves the function: the name is that of the path that goes on
        if not (isinstance(st, (ast.Assign, ast.AnnAssign)) and isinstance(st.targets[0] if isinstance(st, ast.Assign) else st.target, ast.Name)
                and (not isinstance(st, ast.Assign) or len(st.targets) == 1) and st.value is not None):
            raise U(st, 'a statement before the look-up that is neither a guard nor a plain assignment')
        tgt = st.targets[0] if isinstance(st, ast.Assign) else st.target
        vars = dict(vars)
        vars[tgt.id] = m.pure(st.value, fr, vars, g)
    if keyname not in vars or vars[keyname].ty != 'text':
        raise U(meth, 'the module name %s is not a str built before the look-up' % keyname)
    for n in ast.walk(c):
        if isinstance(n, ast.Attribute) and isinstance(n.ctx, (ast.Store, ast.Del)) and n.attr in m.fields_read:
            owner = [f for f in c.body if isinstance(f, ast.FunctionDef) and any(x is n for x in ast.walk(f))]
            if not owner or owner[0].name != '__init__':
                raise U(n, 'the field %s is stored outside __init__' % n.attr)
    return head + vars[keyname].term


# ---------------------------------------------------------------------------------------------------------------------
# calloutparsers/ocallouts/ocallouts.py

def gen_maint_proc(ctx):
    src = ctx.src('calloutparsers/ocallouts/ocallouts.py')
    fn = src.fn('getMaintProcDesc')
    params = plain_params(fn, 1)
    if src.how(fn, 'json') != 'import json':
        raise U(fn, 'json is not the imported module')
    m = Machine(ctx)

    def ret(v, g):
        if v.ty == 'jsontext' and not v.isnull:
            return 'some %s' % v.j
        if v.ty == 'text' and v.lit == '':
            return 'none'
        raise Untranslatable('getMaintProcDesc returns a %s' % v.ty)

    def end(vars2, g):
        raise Untranslatable('getMaintProcDesc may end without return')
    return 'fun procs proc =>\n' + m.run(strip(fn.body), Frame(src, fn), {params[0]: V('text', 'proc')}, {'heap': {}, 'known': {}},
                                          K(end=end, ret=ret, exc=no_exception('getMaintProcDesc')))


# ---------------------------------------------------------------------------------------------------------------------

SEC_TY = 'Env → Text → SecHdr → Rd (Text × J)'
TARGETS = [(w, SEC_TY, (lambda ctx, w=w: gen_wrapper(ctx, w))) for w in WRAPPERS] + [
    ('sectionFun', SEC_TY, gen_section_fun),
    ('sectionLoop', 'Env → PHInfo → Rd (List (Text × J))', gen_section_loop),
    ('m2c00', 'List DrawerTables → Nat → Nat → Bytes → Option J', gen_m2c00),
    ('m2c00Hlog', 'List DrawerTables → Nat → Bytes → Option J', lambda ctx: gen_m2c00(ctx, 'SUB_TYPE_HLOG')),
    ('m2c00Ilog', 'List DrawerTables → Nat → Bytes → Option J', lambda ctx: gen_m2c00(ctx, 'SUB_TYPE_ILOG')),
    ('m2c00Trace', 'List DrawerTables → Nat → Bytes → Option J', lambda ctx: gen_m2c00(ctx, 'SUB_TYPE_TRACE')),
    ('osrcModuleName', 'Text → Text', lambda ctx: osrc_run(ctx)[0]),
    ('osrcLookup', 'ProcEnv → Cache SrcPlugin → Text → Got SrcPlugin × Cache SrcPlugin', lambda ctx: osrc_run(ctx)[1]),
    ('srcParserModule', 'Text → Text', lambda ctx: gen_module_name(
        ctx, PT + 'src.py', 'SRC', 'parse', [V('opaque')] * 6 + [V('text', 'creator')], 'srcParsers', 'fun creator =>\n  ')),
    ('udParserModule', 'Text → Nat → Text', lambda ctx: gen_module_name(
        ctx, PT + 'parse_user_data.py', 'ParseUserData', 'parseCustom',
        [V('text', 'creator'), V('int', 'comp')] + [V('opaque')] * 3, 'userDataParsers', 'fun creator comp =>\n  ')),
    ('getMaintProcDesc', 'List (Text × List Text) → Text → Option J', gen_maint_proc),
]


def generate(repo, verif):
    gen = pytrans.GenFile(verif, 'GenDispatch', ['PelModel.TransDispatch'],
                          'modules/pel/peltool/peltool.py, pel_types.py, src.py, parse_user_data.py; udparsers/m2c00/m2c00.py; srcparsers/osrc/osrc.py; '
                          'calloutparsers/ocallouts/ocallouts.py')
    ctx = Ctx(repo)
    for name, ty, fn in TARGETS:
        gen.emit(name, ty, (lambda fn=fn: fn(ctx)))
    return gen


if __name__ == '__main__':
    import sys
    g = generate(os.environ.get('VERIF_REPO', '/repo'), os.path.dirname(os.path.dirname(os.path.abspath(__file__))))
    sys.stdout.write(g.render())
