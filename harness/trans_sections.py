"""
Source-to-Lean translator for the header-type PEL sections (property C02).

Reads the CURRENT text of
    modules/pel/peltool/{private_header,user_header,extend_user_header,failing_mtms,imp_partition,default,comp_id}.py
with `ast` and regenerates lean/PelGen/GenSections.lean; lean/PelProps/TieC02.lean proves every generated definition
equal to the hand-written model function of lean/PelModel/Sections.lean.

How a section class is translated.  `__init__` followed by `toJSON` is executed SYMBOLICALLY (that is what the only caller,
peltool.py `generateXX`, does: construct, then `toJSON()` at once):
  * the environment maps local names and `self.<field>` names to typed Lean terms; the names themselves never reach the output;
  * every stream read becomes a monadic bind `let vN ← …` in evaluation order (Python evaluates left to right: reads nested in
    expressions are hoisted in that order); pure expressions are substituted into their uses (an unused pure value disappears:
    every pure operator admitted below is total on the types it is admitted for);
  * an `if` whose branches read becomes `let x ← if c then (do …) else pure <old x>`; an `if` without reads becomes a pure
    `if … then … else …` per changed variable; `out[...] = e` under an `if` becomes `++ (if c then [kv …] else [])`;
  * the statements `out["key"] = e` give the member list of `J.obj` in statement order, the function must end in `return out`.
Anything not listed below raises `Untranslatable` (the definition becomes `none`); nothing is skipped silently.

TRUSTED NAME MAP (Python identifier -> Lean identifier of the model); everything else is read off the AST
------------------------------------------------------------------------------------------------------------------------
 constructor parameter list, exactly, in this order     (stream, sectionID, sectionLen, versionID, subType, componentID[, creatorID])
     sectionID / sectionLen / versionID / subType / componentID  ->  h.id / h.len / h.ver / h.sub / h.comp   (h : SecHdr)
     creatorID (7th parameter)                                     ->  creator : Text
     stream                                                        ->  the reader state of `Rd`
 <stream>.get_int(n)        (one positional argument)   ->  getInt n       (peltool.py builds the stream big-endian, unsigned)
 <stream>.get_mem(n)                                    ->  getMem n
 bytes.decode(<stream>.get_mem(n))                      ->  getText n      (= getMem n, then utf8Decode or fail .decode)
 bytes.decode(b)            (b a bytes value)           ->  match utf8Decode b with | some t => pure t | none => Rd.fail .decode
 b.hex()                                                ->  bytesHexL b
 memoryview(b)                                          ->  b
 pel.peltool.private_header.getTimestamp(<stream>)      ->  getTimestamp   (itself translated and tied: Tie.getTimestamp)
 pel.peltool.comp_id.getDisplayCompID(c, k)             ->  displayCompID T c k
 pel.hexdump.hexdump(b)     (defaults read from the `def hexdump` signature: L, C)  ->  hexdump L C b
 pel.peltool.pel_values:  creatorIDs -> T.creators (text keys), sectionNames -> T.sectionNames (text keys), subsystemValues -> T.subsystems,
     severityValues -> T.severities, eventTypeValues -> T.eventTypes, eventScopeValues -> T.eventScopes, actionFlagsValues -> T.actionFlags,
     transmissionStates -> T.transStates, failingComponentType -> T.failingCompTypes, calloutPriorityValues -> T.calloutPriorities (number keys)
 pel.peltool.comp_id.componentIDs                       ->  T.compIds      (the lazily loaded registry is a parameter of the model)
 TABLE.get(k, d)                                        ->  (lookupN TABLE k).getD d     (lookupT for the text-keyed tables)
 collections.OrderedDict() / dict() / {}                ->  the member list of J.obj
 out[k] = e:  int -> jnum e, str -> jstr e, list of str/int -> .arr (xs.map fun x => jstr/jnum …)
 fields read by peltool.py after toJSON (the second component of decodePH / decodeUH):
     PrivateHeader: creatorID -> creator, sectionCount -> sectionCount, obmcLogID -> obmcLogID, commitTime -> commitTime,
                    pLID -> plid, lEID -> eid   (the model keeps the NUMBER; the field must be the text of ONE formatted number and that number is
                    taken; the text itself, as a function of the number, is generated as `phIdText?` and tied to what PelModel/Pel.lean
                    renders from PHInfo: ox (fmtHex 2 plid), ox (fmtHex 2 eid))
     UserHeader:    eventSeverity -> severity, actionFlags -> actionFlags

TRUSTED IDIOMS / PYTHON SEMANTICS
------------------------------------------------------------------------------------------------------------------------
 int operators  & | >> << + -> &&& ||| >>> <<< +;  `% c`, `// c` only for a positive literal c -> % c, / c
 a - b          -> truncated subtraction, admitted ONLY as the byte count of a read (every count <= 0 fails with the same AssertionError)
 truthiness     `if n:` -> n ≠ 0 (Bool position: n != 0), `if s:` -> s ≠ [], `not`, `and`, `or`, == != < <= > >= on ints, == != on str
 str + str -> ++ ;  str(n) -> natDec n ;  "lit" -> s "lit" (code points)
 "{:0wX}" / "{:0wx}" / "{:X}" / "{}" / "{:d}" / "{:0wd}" via .format, f-string or %  ->  fmtHex w n / fmtHexL w n / fmtHex 1 n / natDec n / fmtDec0 w n
 t.strip(c) / t.rstrip(c) / t.lstrip(c) for a one-character literal c  ->  rstripChar c (lstripChar c t) / rstripChar c t / lstripChar c t
 chr(n) -> [n]   (only for n = e & m or e % m with a literal bound below 0x110000)
 for _ in range(n): L.append(<stream>.get_int(w))       ->  let xs ← getInts w n;  L := L ++ xs
 if n: for _ in range(n): …                             ->  the loop alone (range(0) is empty)
 L = []; for k in TABLE: if c(k): L.append(TABLE[k])    ->  (TABLE.filter fun p => c(p.1)).map (·.2)     (a dict iterates in table order, keys are distinct)
 [f(x) for x in L]                                      ->  L.map f (fused with the jstr/jnum of the member it is stored in)
 `if c: v = <one read>` where v is unbound before and never used after -> let _ ← if c then <read> else pure <default>
"""
import ast
import os
import re

import pytrans
from pytrans import Untranslatable

PELTOOL = 'pel/peltool/'

# ---------------------------------------------------------------------------------------------------------------------
# trusted name maps

TABLES = {           # pel.peltool.pel_values
    'creatorIDs': ('T.creators', 'text'), 'sectionNames': ('T.sectionNames', 'text'),
    'subsystemValues': ('T.subsystems', 'int'), 'severityValues': ('T.severities', 'int'),
    'eventTypeValues': ('T.eventTypes', 'int'), 'eventScopeValues': ('T.eventScopes', 'int'),
    'actionFlagsValues': ('T.actionFlags', 'int'), 'transmissionStates': ('T.transStates', 'int'),
    'failingComponentType': ('T.failingCompTypes', 'int'), 'calloutPriorityValues': ('T.calloutPriorities', 'int'),
}
INIT_PARAMS = ['stream', 'sectionID', 'sectionLen', 'versionID', 'subType', 'componentID']
PARAM_TERMS = {'sectionID': ('int', 'h.id'), 'sectionLen': ('int', 'h.len'), 'versionID': ('int', 'h.ver'),
               'subType': ('int', 'h.sub'), 'componentID': ('int', 'h.comp'), 'creatorID': ('text', 'creator')}
PH_INFO = [('creator', 'creatorID', 'text'), ('sectionCount', 'sectionCount', 'int'), ('obmcLogID', 'obmcLogID', 'int'),
           ('plid', 'pLID', 'fmtnum'), ('eid', 'lEID', 'fmtnum'), ('commitTime', 'commitTime', 'text')]
UH_INFO = [('severity', 'eventSeverity', 'int'), ('actionFlags', 'actionFlags', 'int')]
BUILTINS = {'str', 'bytes', 'range', 'memoryview', 'dict', 'chr'}
RESERVED = {'T', 'h', 'creator', 's', 'kv', 'jstr', 'jnum', 'ox'}


def U(node, msg):
    return Untranslatable('%s (line %d)' % (msg, getattr(node, 'lineno', 0)))


# ---------------------------------------------------------------------------------------------------------------------
# Lean text helpers

def lean_str(sv):
    out = []
    for ch in sv:
        o = ord(ch)
        if ch == '"':
            out.append('\\"')
        elif ch == '\\':
            out.append('\\\\')
        elif 0x20 <= o < 0x7f:
            out.append(ch)
        elif o < 0x100:
            out.append('\\x%02x' % o)
        elif o < 0x10000 and not (0xD800 <= o < 0xE000):
            out.append('\\u%04x' % o)
        else:
            raise Untranslatable('character U+%X in a string literal' % o)
    return '"' + ''.join(out) + '"'


def text_lit(sv):
    """a Python str as a Lean Text (code points)"""
    if sv == '':
        return '[]'
    if all(0x20 <= ord(c) < 0x7f for c in sv):
        return '(s %s)' % lean_str(sv)
    return pytrans.lean_text(sv)


# ---------------------------------------------------------------------------------------------------------------------
# symbolic values

class V:
    """ty: int | intz (possibly non-positive difference, byte counts only) | text | bytes | stream | list | dict | table | undef"""

    def __init__(self, ty, term=None, **kw):
        self.ty = ty
        self.term = term
        self.fmtnum = None          # text made by formatting exactly one number: that number's term
        self.fmttpl = None          # … and the text as a term in `n`, the number
        self.lit = None             # python literal value, when the value is one
        self.chr_ok = False         # int known to be below 0x110000
        self.__dict__.update(kw)


def mk_list(base, var, elem):
    return V('list', None, base=base, var=var, elem=elem, shared=False)


def mk_dict(items):
    return V('dict', None, items=items)


DEFAULTS = {'int': '0', 'text': '[]', 'bytes': '[]'}


class Module:
    """module-level name resolution of one parsed source file"""

    def __init__(self, repo, relpath):
        self.relpath = relpath
        self.modname = relpath[:-3].replace('/', '.')
        self.tree = pytrans.load_module_ast(repo, relpath)
        self.repo = repo
        self.names = {}
        for st in self.tree.body:
            if isinstance(st, ast.ImportFrom):
                if st.level:
                    raise U(st, 'relative import')
                for a in st.names:
                    if a.name == '*':
                        raise U(st, 'star import')
                    self._bind(a.asname or a.name, ('import', st.module, a.name))
            elif isinstance(st, ast.Import):
                for a in st.names:
                    self._bind((a.asname or a.name).split('.')[0], ('module', a.name))
            elif isinstance(st, (ast.FunctionDef, ast.ClassDef)):
                if st.decorator_list:
                    raise U(st, 'decorated module-level definition')
                self._bind(st.name, ('import', self.modname, st.name))
            elif isinstance(st, ast.Assign) and all(isinstance(t, ast.Name) for t in st.targets):
                for t in st.targets:
                    self._bind(t.id, ('import', self.modname, t.id))
            elif isinstance(st, ast.AnnAssign) and isinstance(st.target, ast.Name):
                self._bind(st.target.id, ('import', self.modname, st.target.id))
            elif isinstance(st, ast.Expr) and isinstance(st.value, ast.Constant) and isinstance(st.value.value, str):
                pass
            else:
                raise U(st, 'module-level statement %s' % type(st).__name__)

    def _bind(self, name, what):
        if name in self.names:
            self.names[name] = ('ambiguous',)
        else:
            self.names[name] = what

    def resolve(self, node):
        """qualified origin (module, name) of a global name, or ('builtins', name)"""
        name = node.id
        w = self.names.get(name)
        if w is None:
            if name in BUILTINS:
                return ('builtins', name)
            raise U(node, 'unknown name %s' % name)
        if w[0] != 'import':
            raise U(node, 'name %s is bound more than once or is a module' % name)
        return (w[1], w[2])


def check_plain_args(fn, names):
    a = fn.args
    if a.vararg or a.kwarg or a.kwonlyargs or a.posonlyargs or a.defaults or a.kw_defaults:
        raise U(fn, 'argument list of %s' % fn.name)
    got = [x.arg for x in a.args]
    if got != names:
        raise U(fn, 'argument list of %s is %s, expected %s' % (fn.name, got, names))
    if fn.decorator_list:
        raise U(fn, 'decorator on %s' % fn.name)


def names_in(node):
    return {n.id for n in ast.walk(node) if isinstance(n, ast.Name)}


# ---------------------------------------------------------------------------------------------------------------------
# format strings

class Piece:
    def __init__(self, lit=None, index=None, spec=None):
        self.lit, self.index, self.spec = lit, index, spec


SPEC = re.compile(r'^(0?)(\d*)([Xxds]?)$')


def parse_format(node, fmt):
    """str.format mini language -> pieces"""
    out, i, auto, manual = [], 0, 0, False
    buf = ''
    while i < len(fmt):
        c = fmt[i]
        if c == '{':
            if fmt[i + 1:i + 2] == '{':
                buf += '{'
                i += 2
                continue
            j = fmt.find('}', i)
            if j < 0:
                raise U(node, 'format string')
            field = fmt[i + 1:j]
            if '{' in field or '!' in field or '[' in field or '.' in field.split(':')[0]:
                raise U(node, 'format field %r' % field)
            name, _, spec = field.partition(':')
            if name == '':
                if manual:
                    raise U(node, 'format field numbering')
                idx = auto
                auto += 1
            elif name.isdigit():
                if auto:
                    raise U(node, 'format field numbering')
                manual = True
                idx = int(name)
            else:
                raise U(node, 'named format field %r' % name)
            if buf:
                out.append(Piece(lit=buf))
                buf = ''
            out.append(Piece(index=idx, spec=spec))
            i = j + 1
        elif c == '}':
            if fmt[i + 1:i + 2] == '}':
                buf += '}'
                i += 2
                continue
            raise U(node, 'format string')
        else:
            buf += c
            i += 1
    if buf:
        out.append(Piece(lit=buf))
    return out


PCT = re.compile(r'%(0?)(\d*)([Xxdsi%])')


def parse_percent(node, fmt):
    out, pos, idx = [], 0, 0
    for m in PCT.finditer(fmt):
        if m.start() > pos:
            lit = fmt[pos:m.start()]
            if '%' in lit:
                raise U(node, '% format')
            out.append(Piece(lit=lit))
        if m.group(3) == '%':
            if m.group(1) or m.group(2):
                raise U(node, '% format')
            out.append(Piece(lit='%'))
        else:
            ty = {'i': 'd'}.get(m.group(3), m.group(3))
            out.append(Piece(index=idx, spec=m.group(1) + m.group(2) + ty))
            idx += 1
        pos = m.end()
    if '%' in fmt[pos:]:
        raise U(node, '% format')
    if fmt[pos:]:
        out.append(Piece(lit=fmt[pos:]))
    return out


def format_value(node, v, spec, percent=False):
    """one formatted argument -> text term"""
    m = SPEC.match(spec or '')
    if not m:
        raise U(node, 'format spec %r' % spec)
    zero, width, ty = m.group(1), m.group(2), m.group(3)
    w = int(width) if width else 0
    if v.ty == 'text':
        if ty not in ('', 's') or zero or w:
            raise U(node, 'format spec %r for a str' % spec)
        return v.term
    if v.ty != 'int':
        raise U(node, 'formatting a value of type %s' % v.ty)
    if ty == 's' and not percent:
        raise U(node, 'format spec %r for an int' % spec)
    if w > 1 and not zero:
        raise U(node, 'space-padded number')
    if ty in ('X', 'x'):
        return '(%s %d %s)' % ('fmtHex' if ty == 'X' else 'fmtHexL', max(w, 1), v.term)
    if ty == 's' and (w or zero):
        raise U(node, 'format spec %r' % spec)
    if w > 1:
        return '(fmtDec0 %d %s)' % (w, v.term)
    return '(natDec %s)' % v.term


# ---------------------------------------------------------------------------------------------------------------------
# the symbolic executor

class Exec:
    def __init__(self, mod, counter=None):
        self.mod = mod
        self.env = {}
        self.binds = []            # (var, rhs term, type)
        self.counter = counter if counter is not None else [0]

    def fork(self):
        e = Exec(self.mod, self.counter)
        e.env = dict(self.env)
        return e

    def fresh(self, prefix='v'):
        self.counter[0] += 1
        return '%s%d' % (prefix, self.counter[0])

    def bind(self, rhs, ty):
        v = self.fresh()
        self.binds.append((v, rhs, ty))
        return V(ty, v)

    # ---- names
    def key_of(self, node):
        if isinstance(node, ast.Name):
            return node.id
        if isinstance(node, ast.Attribute) and isinstance(node.value, ast.Name) and node.value.id == 'self' \
                and self.env.get('self') is not None and self.env['self'].ty == 'self':
            return ('self', node.attr)
        return None

    def lookup(self, node):
        k = self.key_of(node)
        if k is None or k not in self.env:
            return None
        v = self.env[k]
        if v.ty == 'undef':
            raise U(node, 'value that may be unbound or is the leftover of a loop')
        return v

    def global_of(self, node):
        """(module, name) of a Name that is not a local, else None"""
        if isinstance(node, ast.Name) and node.id not in self.env:
            return self.mod.resolve(node)
        return None

    # ---- expressions
    def eval(self, node):
        if isinstance(node, ast.Constant):
            if isinstance(node.value, bool) or node.value is None:
                raise U(node, 'constant %r' % node.value)
            if isinstance(node.value, int):
                if node.value < 0:
                    raise U(node, 'negative literal')
                return V('int', str(node.value), lit=node.value, chr_ok=node.value < 0x110000)
            if isinstance(node.value, str):
                return V('text', text_lit(node.value), lit=node.value)
            raise U(node, 'constant %r' % (node.value,))
        if isinstance(node, (ast.Name, ast.Attribute)):
            v = self.lookup(node)
            if v is not None:
                if v.ty == 'self':
                    raise U(node, 'self used as a value')
                return v
            if isinstance(node, ast.Name):
                g = self.global_of(node)
                if g[0] == 'pel.peltool.pel_values' and g[1] in TABLES:
                    return V('table', TABLES[g[1]][0], keyty=TABLES[g[1]][1])
                raise U(node, 'global %s.%s used as a value' % g)
            raise U(node, 'unknown attribute %s' % (pytrans.dotted(node) or node.attr))
        if isinstance(node, ast.JoinedStr):
            pieces = []
            for p in pytrans.fstring_parts(node):
                if p[0] == 'lit':
                    pieces.append(('lit', p[1]))
                else:
                    _, e, conv, spec = p
                    if conv != -1:
                        raise U(node, 'f-string conversion')
                    pieces.append(('val', self.eval(e), spec))
            return self.concat_pieces(node, pieces)
        if isinstance(node, ast.BinOp):
            return self.eval_binop(node)
        if isinstance(node, ast.Call):
            return self.eval_call(node)
        if isinstance(node, ast.List):
            if node.elts:
                raise U(node, 'non-empty list display')
            return mk_list('[]', None, None)
        if isinstance(node, ast.Dict):
            if node.keys:
                raise U(node, 'non-empty dict display')
            return mk_dict([])
        if isinstance(node, ast.ListComp):
            return self.eval_listcomp(node)
        if isinstance(node, ast.IfExp):
            n0 = len(self.binds)
            c = self.cond(node.test, 'prop')
            a = self.eval(node.body)
            b = self.eval(node.orelse)
            if len(self.binds) != n0:
                raise U(node, 'read inside a conditional expression')
            if a.ty != b.ty or a.ty not in ('int', 'text', 'bytes'):
                raise U(node, 'conditional expression of types %s/%s' % (a.ty, b.ty))
            return V(a.ty, '(if %s then %s else %s)' % (c, a.term, b.term))
        raise U(node, 'expression %s' % type(node).__name__)

    def concat_pieces(self, node, pieces, hole=None):
        terms, nums = [], []
        for p in pieces:
            if p[0] == 'lit':
                if p[1]:
                    terms.append(text_lit(p[1]))
            else:
                terms.append(format_value(node, hole if hole is not None else p[1], p[2], percent=len(p) > 3))
                nums.append(p[1])
        if not terms:
            return V('text', '[]', lit='')
        t = terms[0]
        for x in terms[1:]:
            t = '(%s ++ %s)' % (t, x)
        r = V('text', t)
        if hole is None and len(nums) == 1 and nums[0].ty == 'int':
            r.fmtnum = nums[0].term
            r.fmttpl = self.concat_pieces(node, pieces, hole=V('int', 'n')).term      # the same text with the number called `n`
        return r

    def eval_binop(self, node):
        op = node.op
        if isinstance(op, ast.Mod) and isinstance(node.left, ast.Constant) and isinstance(node.left.value, str):
            fmt = parse_percent(node, node.left.value)
            if isinstance(node.right, ast.Tuple):
                args = [self.eval(e) for e in node.right.elts]
            else:
                args = [self.eval(node.right)]
                if args[0].ty not in ('int', 'text'):
                    raise U(node, '% argument')
            return self.apply_format(node, fmt, args, percent=True)
        a = self.eval(node.left)
        b = self.eval(node.right)
        if a.ty == 'text' and b.ty == 'text' and isinstance(op, ast.Add):
            return V('text', '(%s ++ %s)' % (a.term, b.term))
        if a.ty != 'int' or b.ty != 'int':
            raise U(node, 'operator %s on %s and %s' % (type(op).__name__, a.ty, b.ty))
        sym = {ast.BitAnd: '&&&', ast.BitOr: '|||', ast.RShift: '>>>', ast.LShift: '<<<', ast.Add: '+'}.get(type(op))
        if sym:
            r = V('int', '(%s %s %s)' % (a.term, sym, b.term))
            if isinstance(op, ast.BitAnd) and ((b.lit is not None and b.lit < 0x110000) or (a.lit is not None and a.lit < 0x110000)):
                r.chr_ok = True
            return r
        if isinstance(op, ast.Sub):
            return V('intz', '(%s - %s)' % (a.term, b.term))
        if isinstance(op, (ast.Mod, ast.FloorDiv)):
            if b.lit is None or b.lit <= 0:
                raise U(node, 'divisor must be a positive literal')
            r = V('int', '(%s %s %s)' % (a.term, '%' if isinstance(op, ast.Mod) else '/', b.term))
            if isinstance(op, ast.Mod) and b.lit <= 0x110000:
                r.chr_ok = True
            return r
        raise U(node, 'operator %s' % type(op).__name__)

    def apply_format(self, node, fmt, args, percent=False):
        used = set()
        pieces = []
        for p in fmt:
            if p.lit is not None:
                pieces.append(('lit', p.lit))
            else:
                if p.index >= len(args):
                    raise U(node, 'format argument missing')
                used.add(p.index)
                pieces.append(('val', args[p.index], p.spec) + (('pct',) if percent else ()))
        if percent and len(used) != len(args):
            raise U(node, '% argument count')
        return self.concat_pieces(node, pieces)

    def stream_of(self, node):
        """the expression denotes the data stream"""
        v = self.lookup(node) if isinstance(node, (ast.Name, ast.Attribute)) else None
        return v is not None and v.ty == 'stream'

    def width(self, node):
        v = self.eval(node)
        if v.ty not in ('int', 'intz'):
            raise U(node, 'byte count of type %s' % v.ty)
        return v.term

    def plain_call(self, node, n=None):
        if node.keywords or any(isinstance(a, ast.Starred) for a in node.args):
            raise U(node, 'keyword or starred argument')
        if n is not None and len(node.args) != n:
            raise U(node, 'number of arguments')

    def read_call(self, node):
        """<stream>.get_int(n) / <stream>.get_mem(n) -> (lean reader, type) or None"""
        if isinstance(node, ast.Call) and isinstance(node.func, ast.Attribute) and self.stream_of(node.func.value):
            self.plain_call(node, 1)
            if node.func.attr == 'get_int':
                return ('getInt', 'int')
            if node.func.attr == 'get_mem':
                return ('getMem', 'bytes')
            raise U(node, 'stream method %s' % node.func.attr)
        return None

    def eval_call(self, node):
        f = node.func
        rc = self.read_call(node)
        if rc:
            return self.bind('%s %s' % (rc[0], self.width(node.args[0])), rc[1])
        if isinstance(f, ast.Attribute):
            # bytes.decode(x)
            if isinstance(f.value, ast.Name) and f.value.id == 'bytes' and f.attr == 'decode' and self.global_of(f.value) == ('builtins', 'bytes'):
                self.plain_call(node, 1)
                arg = node.args[0]
                rc = self.read_call(arg)
                if rc and rc[0] == 'getMem':
                    return self.bind('getText %s' % self.width(arg.args[0]), 'text')
                b = self.eval(arg)
                if b.ty != 'bytes':
                    raise U(node, 'bytes.decode of %s' % b.ty)
                return self.bind('(match utf8Decode %s with | some t => pure t | none => Rd.fail .decode)' % b.term, 'text')
            # "...".format(...)
            if isinstance(f.value, ast.Constant) and isinstance(f.value.value, str) and f.attr == 'format':
                self.plain_call(node)
                fmt = parse_format(node, f.value.value)
                args = [self.eval(a) for a in node.args]
                return self.apply_format(node, fmt, args)
            # table.get(k, default)
            recv = self.eval(f.value)
            if recv.ty == 'table' and f.attr == 'get':
                self.plain_call(node, 2)
                k = self.eval(node.args[0])
                d = self.eval(node.args[1])
                if k.ty != recv.keyty or d.ty != 'text':
                    raise U(node, 'table look-up with a %s key and a %s default' % (k.ty, d.ty))
                return V('text', '((%s %s %s).getD %s)' % ('lookupN' if recv.keyty == 'int' else 'lookupT', recv.term, k.term, d.term))
            if recv.ty == 'bytes' and f.attr == 'hex':
                self.plain_call(node, 0)
                return V('text', '(bytesHexL %s)' % recv.term)
            if recv.ty == 'text' and f.attr in ('strip', 'rstrip', 'lstrip'):
                self.plain_call(node, 1)
                c = self.eval(node.args[0])
                if c.ty != 'text' or c.lit is None or len(c.lit) != 1:
                    raise U(node, '%s argument must be a one-character literal' % f.attr)
                o = ord(c.lit)
                if f.attr == 'rstrip':
                    return V('text', '(rstripChar %d %s)' % (o, recv.term))
                if f.attr == 'lstrip':
                    return V('text', '(lstripChar %d %s)' % (o, recv.term))
                return V('text', '(rstripChar %d (lstripChar %d %s))' % (o, o, recv.term))
            raise U(node, 'method %s of a %s' % (f.attr, recv.ty))
        if isinstance(f, ast.Name):
            if f.id in self.env:
                raise U(node, 'call of a local')
            g = self.global_of(f)
            if g == ('pel.peltool.private_header', 'getTimestamp'):
                self.plain_call(node, 1)
                if not self.stream_of(node.args[0]):
                    raise U(node, 'getTimestamp argument')
                return self.bind('getTimestamp', 'text')
            if g == ('pel.peltool.comp_id', 'getDisplayCompID'):
                self.plain_call(node, 2)
                a = self.eval(node.args[0])
                b = self.eval(node.args[1])
                if a.ty != 'int' or b.ty != 'text':
                    raise U(node, 'getDisplayCompID argument types')
                return V('text', '(displayCompID T %s %s)' % (a.term, b.term))
            if g == ('pel.hexdump', 'hexdump'):
                self.plain_call(node, 1)
                b = self.eval(node.args[0])
                if b.ty != 'bytes':
                    raise U(node, 'hexdump of %s' % b.ty)
                l, c = hexdump_defaults(self.mod.repo)
                x = self.fresh('x')
                return mk_list('(hexdump %d %d %s)' % (l, c, b.term), x, V('text', x))
            if g == ('builtins', 'str'):
                self.plain_call(node, 1)
                a = self.eval(node.args[0])
                if a.ty == 'text':
                    return a
                if a.ty == 'int':
                    r = V('text', '(natDec %s)' % a.term)
                    r.fmtnum = a.term
                    r.fmttpl = '(natDec n)'
                    return r
                raise U(node, 'str of %s' % a.ty)
            if g == ('builtins', 'memoryview'):
                self.plain_call(node, 1)
                a = self.eval(node.args[0])
                if a.ty != 'bytes':
                    raise U(node, 'memoryview of %s' % a.ty)
                return a
            if g == ('builtins', 'chr'):
                self.plain_call(node, 1)
                a = self.eval(node.args[0])
                if a.ty != 'int' or not a.chr_ok:
                    raise U(node, 'chr of a value not known to be a code point')
                return V('text', '[%s]' % a.term)
            if g in (('collections', 'OrderedDict'), ('builtins', 'dict')):
                self.plain_call(node, 0)
                return mk_dict([])
            raise U(node, 'call of %s.%s' % g)
        raise U(node, 'call')

    def eval_listcomp(self, node):
        if len(node.generators) != 1:
            raise U(node, 'comprehension')
        g = node.generators[0]
        if g.ifs or g.is_async or not isinstance(g.target, ast.Name):
            raise U(node, 'comprehension')
        src = self.eval(g.iter)
        if src.ty != 'list':
            raise U(node, 'comprehension over %s' % src.ty)
        if src.var is None:
            return mk_list('[]', None, None)
        sub = self.fork()
        sub.env[g.target.id] = src.elem
        e = sub.eval(node.elt)
        if sub.binds:
            raise U(node, 'read inside a comprehension')
        if e.ty not in ('int', 'text'):
            raise U(node, 'comprehension element of type %s' % e.ty)
        return mk_list(src.base, src.var, e)

    # ---- conditions
    def cond(self, node, mode):
        P = mode == 'prop'
        if isinstance(node, ast.BoolOp):
            parts = []
            for i, v in enumerate(node.values):
                parts.append(self.cond(v, mode))
                if i == 0:
                    n0 = len(self.binds)
            if len(self.binds) != n0:
                # `a and <read>` reads only if a holds
                raise U(node, 'read in the short-circuited part of and/or')
            if isinstance(node.op, ast.And):
                sym = ' ∧ ' if P else ' && '
            else:
                sym = ' ∨ ' if P else ' || '
            t = parts[0]
            for p in parts[1:]:
                t = '%s%s%s' % (t, sym, p)
            return '(%s)' % t        # always parenthesised: a nested mixed and/or must keep its grouping
        if isinstance(node, ast.UnaryOp) and isinstance(node.op, ast.Not):
            inner = node.operand
            if not isinstance(inner, (ast.BoolOp, ast.Compare, ast.UnaryOp)):
                v = self.eval(inner)
                if v.ty == 'int':
                    return '%s %s 0' % (v.term, '=' if P else '==')
                if v.ty == 'text':
                    return '%s %s []' % (v.term, '=' if P else '==')
                raise U(node, 'truth value of %s' % v.ty)
            c = self.cond(inner, mode)
            return ('¬ (%s)' if P else '!(%s)') % c
        if isinstance(node, ast.Compare):
            if len(node.ops) != 1:
                raise U(node, 'chained comparison')
            a = self.eval(node.left)
            b = self.eval(node.comparators[0])
            op = type(node.ops[0])
            if a.ty != b.ty or a.ty not in ('int', 'text'):
                raise U(node, 'comparison of %s and %s' % (a.ty, b.ty))
            if op is ast.NotEq:
                return '%s %s %s' % (a.term, '≠' if P else '!=', b.term)
            if op is ast.Eq:
                return '%s %s %s' % (a.term, '=' if P else '==', b.term)
            if a.ty != 'int':
                raise U(node, 'ordering of %s' % a.ty)
            sym = {ast.Lt: '<', ast.LtE: '≤', ast.Gt: '>', ast.GtE: '≥'}.get(op)
            if not sym:
                raise U(node, 'comparison operator')
            t = '%s %s %s' % (a.term, sym, b.term)
            return t if P else 'decide (%s)' % t
        v = self.eval(node)
        if v.ty == 'int':
            return '%s %s 0' % (v.term, '≠' if P else '!=')
        if v.ty == 'text':
            return '%s %s []' % (v.term, '≠' if P else '!=')
        raise U(node, 'truth value of %s' % v.ty)

    # ---- statements
    def exec_block(self, stmts):
        stmts = pytrans.strip_docstring(stmts)
        for i, st in enumerate(stmts):
            r = self.exec_stmt(st)
            if r is not None:
                if i != len(stmts) - 1:
                    raise U(st, 'statements after return')
                return r
        return None

    def assign(self, target, v, node):
        if isinstance(target, ast.Subscript):
            d = self.lookup(target.value) if isinstance(target.value, (ast.Name, ast.Attribute)) else None
            if d is None or d.ty != 'dict':
                raise U(node, 'subscript assignment')
            key = pytrans.const_str(target.slice)
            if key in dict_keys(d.items):
                raise U(node, 'member %r is set twice' % key)
            if v.ty == 'int':
                j = '(jnum %s)' % v.term
            elif v.ty == 'text':
                j = '(jstr %s)' % v.term
            elif v.ty == 'list':
                v.shared = True
                if v.var is None:
                    j = '(.arr [])' if v.base == '[]' else None
                    if j is None:
                        raise U(node, 'list of unknown element type as a member')
                else:
                    j = '(.arr (%s.map fun %s => %s %s))' % (v.base, v.var, 'jstr' if v.elem.ty == 'text' else 'jnum', v.elem.term)
            else:
                raise U(node, 'member value of type %s' % v.ty)
            self.env[self.key_of(target.value)] = mk_dict(d.items + [('kv', key, j)])
            return
        k = self.key_of(target)
        if k is None or k == 'self' or (isinstance(k, str) and (k in BUILTINS)):
            raise U(node, 'assignment target')
        if isinstance(k, str) and k in self.mod.names:
            raise U(node, 'assignment to a name that is also a module-level name')
        self.env[k] = v

    def exec_stmt(self, st):
        if isinstance(st, ast.Assign):
            if len(st.targets) != 1:
                raise U(st, 'multiple assignment')
            v = self.eval(st.value)
            if v.ty in ('list', 'dict') and isinstance(st.value, (ast.Name, ast.Attribute)) and not isinstance(st.targets[0], ast.Subscript):
                raise U(st, 'second name for a mutable object')
            if v.ty in ('table',):
                raise U(st, 'table stored in a variable')
            self.assign(st.targets[0], v, st)
            return None
        if isinstance(st, ast.AnnAssign):
            if st.value is None or not st.simple and not isinstance(st.target, ast.Attribute):
                raise U(st, 'annotated assignment')
            v = self.eval(st.value)
            if v.ty in ('list', 'dict') and isinstance(st.value, (ast.Name, ast.Attribute)):
                raise U(st, 'second name for a mutable object')
            if v.ty in ('table',):
                raise U(st, 'table stored in a variable')
            self.assign(st.target, v, st)
            return None
        if isinstance(st, ast.Return):
            if st.value is None:
                raise U(st, 'return without a value')
            return ('return', self.eval(st.value))
        if isinstance(st, ast.If):
            return self.exec_if(st)
        if isinstance(st, ast.For):
            return self.exec_for(st)
        raise U(st, 'statement %s' % type(st).__name__)

    def exec_if(self, st):
        body = pytrans.strip_docstring(st.body)
        # `if n: for _ in range(n): …` = the loop alone
        if not st.orelse and len(body) == 1 and isinstance(body[0], ast.For):
            it = body[0].iter
            if isinstance(it, ast.Call) and isinstance(it.func, ast.Name) and it.func.id == 'range' and len(it.args) == 1 \
                    and not it.keywords and ast.dump(it.args[0]) == ast.dump(st.test):
                n0 = len(self.binds)
                v = self.eval(st.test)
                if len(self.binds) != n0 or v.ty != 'int':
                    raise U(st, 'guard of a counted loop')
                return self.exec_for(body[0])
        c = self.cond(st.test, 'prop')
        a, b = self.fork(), self.fork()
        if a.exec_block(st.body) is not None or b.exec_block(st.orelse) is not None:
            raise U(st, 'return inside if')
        keys = []
        for k in list(a.env) + list(b.env):
            if k not in keys and (a.env.get(k) is not self.env.get(k) or b.env.get(k) is not self.env.get(k)):
                keys.append(k)
        monadic = bool(a.binds or b.binds)
        carried = []
        for k in keys:
            va, vb, v0 = a.env.get(k), b.env.get(k), self.env.get(k)
            if va is None or vb is None or va.ty == 'undef' or vb.ty == 'undef':
                self.env[k] = V('undef')
                continue
            if va.ty == 'dict' or vb.ty == 'dict':
                if monadic or v0 is None or v0.ty != 'dict' or va.ty != 'dict' or vb.ty != 'dict':
                    raise U(st, 'dictionary changed in a branch that reads')
                n = len(v0.items)
                if va.items[:n] != v0.items or vb.items[:n] != v0.items:
                    raise U(st, 'dictionary rebuilt in a branch')
                ta, tb = va.items[n:], vb.items[n:]
                ka, kb = dict_keys(ta), dict_keys(tb)
                if set(ka) & set(kb):
                    # the same member in both branches would be two entries of the rendered list
                    raise U(st, 'member set in both branches')
                self.env[k] = mk_dict(v0.items + [('cond', c, ta, tb)])
                continue
            if va.ty != vb.ty or va.ty not in ('int', 'text', 'bytes'):
                raise U(st, 'variable of type %s/%s changed in a branch' % (va.ty, vb.ty))
            carried.append((k, va, vb))
        if not monadic:
            for k, va, vb in carried:
                self.env[k] = V(va.ty, '(if %s then %s else %s)' % (c, va.term, vb.term))
            return None
        if not carried:
            # value of the conditional read is dropped
            def one(x, other):
                if len(x.binds) == 1 and not other.binds:
                    return x.binds[0]
                return None
            oa, ob = one(a, b), one(b, a)
            if oa and oa[2] in DEFAULTS:
                self.bind('if %s then %s else pure %s' % (c, oa[1], DEFAULTS[oa[2]]), oa[2])
            elif ob and ob[2] in DEFAULTS:
                self.bind('if %s then pure %s else %s' % (c, DEFAULTS[ob[2]], ob[1]), ob[2])
            else:
                self.bind('if %s then %s else %s' % (c, prog(a.binds, '()'), prog(b.binds, '()')), 'unit')
            return None
        if len(carried) == 1:
            k, va, vb = carried[0]
            self.env[k] = self.bind('if %s then %s else %s' % (c, prog(a.binds, va.term), prog(b.binds, vb.term)), va.ty)
            return None
        ta = '(' + ', '.join(va.term for _, va, _ in carried) + ')'
        tb = '(' + ', '.join(vb.term for _, _, vb in carried) + ')'
        p = self.bind('if %s then %s else %s' % (c, prog(a.binds, ta), prog(b.binds, tb)), 'tuple')
        for i, (k, va, vb) in enumerate(carried):
            proj = p.term + '.2' * i + ('.1' if i < len(carried) - 1 else '')
            self.env[k] = V(va.ty, proj)
        return None

    def exec_for(self, st):
        if st.orelse or not isinstance(st.target, ast.Name):
            raise U(st, 'for loop')
        var = st.target.id
        body = pytrans.strip_docstring(st.body)
        it = st.iter
        # for _ in range(n): L.append(<stream>.get_int(w))
        if isinstance(it, ast.Call) and isinstance(it.func, ast.Name) and it.func.id == 'range' and 'range' not in self.env \
                and self.mod.resolve(it.func) == ('builtins', 'range'):
            self.plain_call(it, 1)
            n0 = len(self.binds)
            n = self.eval(it.args[0])
            if n.ty != 'int' or len(self.binds) != n0:
                raise U(st, 'loop count')
            if len(body) == 1 and isinstance(body[0], ast.Expr) and isinstance(body[0].value, ast.Call):
                call = body[0].value
                if isinstance(call.func, ast.Attribute) and call.func.attr == 'append' and len(call.args) == 1 and not call.keywords:
                    lst = self.lookup(call.func.value) if isinstance(call.func.value, (ast.Name, ast.Attribute)) else None
                    rc = self.read_call(call.args[0])
                    if lst is not None and lst.ty == 'list' and rc and rc[0] == 'getInt' and var not in names_in(body[0]):
                        if lst.shared:
                            raise U(st, 'append to a list that is already stored elsewhere')
                        if lst.var is not None and not (lst.elem.ty == 'int' and lst.elem.term == lst.var):
                            raise U(st, 'append to a mapped list')
                        sub = self.fork()
                        w = sub.width(call.args[0].args[0])
                        if sub.binds:
                            raise U(st, 'read inside a byte count')
                        xs = self.bind('getInts %s %s' % (w, n.term), 'intlist')
                        x = self.fresh('x')
                        base = xs.term if lst.base == '[]' else '(%s ++ %s)' % (lst.base, xs.term)
                        self.env[self.key_of(call.func.value)] = mk_list(base, x, V('int', x))
                        self.env[var] = V('undef')
                        return None
            raise U(st, 'counted loop body')
        # for k in TABLE: if c(k): L.append(TABLE[k])
        tv = None
        if isinstance(it, ast.Name) and it.id not in self.env:
            g = self.mod.resolve(it)
            if g[0] == 'pel.peltool.pel_values' and g[1] in TABLES:
                tv = TABLES[g[1]]
        if tv is not None and len(body) == 1 and isinstance(body[0], ast.If) and not body[0].orelse:
            inner = pytrans.strip_docstring(body[0].body)
            if len(inner) == 1 and isinstance(inner[0], ast.Expr) and isinstance(inner[0].value, ast.Call):
                call = inner[0].value
                if isinstance(call.func, ast.Attribute) and call.func.attr == 'append' and len(call.args) == 1 and not call.keywords:
                    lst = self.lookup(call.func.value) if isinstance(call.func.value, (ast.Name, ast.Attribute)) else None
                    arg = call.args[0]
                    if lst is not None and lst.ty == 'list' and isinstance(arg, ast.Subscript) and isinstance(arg.value, ast.Name) \
                            and arg.value.id == it.id and isinstance(arg.slice, ast.Name) and arg.slice.id == var:
                        if lst.shared or lst.base != '[]':
                            raise U(st, 'filtered append to a list that is not fresh and empty')
                        p = self.fresh('p')
                        sub = self.fork()
                        sub.env[var] = V(tv[1], '%s.1' % p)
                        c = sub.cond(body[0].test, 'bool')
                        if sub.binds:
                            raise U(st, 'read inside a loop condition')
                        self.env[self.key_of(call.func.value)] = mk_list('(%s.filter (fun %s => %s))' % (tv[0], p, c), p, V('text', '%s.2' % p))
                        self.env[var] = V('undef')
                        return None
        raise U(st, 'for loop shape')


def dict_keys(items):
    out = []
    for it in items:
        if it[0] == 'kv':
            out.append(it[1])
        else:
            out += dict_keys(it[2]) + dict_keys(it[3])
    return out


def prog(binds, result):
    """reader program of a branch: binds, then the value"""
    if not binds:
        return 'pure %s' % result
    if len(binds) == 1 and binds[0][0] == result:
        return binds[0][1] if re.match(r'^\w+( [\w.]+)*$', binds[0][1]) else '(%s)' % binds[0][1]
    return '(do ' + '; '.join('let %s ← %s' % (v, r) for v, r, _ in binds) + '; pure %s)' % result


def render_items(items):
    groups, cur = [], []
    for it in items:
        if it[0] == 'kv':
            cur.append('kv %s %s' % (lean_str(it[1]), it[2]))
        else:
            if cur:
                groups.append('[' + ',\n      '.join(cur) + ']')
                cur = []
            groups.append('(if %s then %s else %s)' % (it[1], render_items(it[2]), render_items(it[3])))
    if cur or not groups:
        groups.append('[' + ',\n      '.join(cur) + ']')
    if len(groups) == 1:
        return groups[0]
    return '(' + ' ++\n    '.join(groups) + ')'


def render_do(params, binds, result):
    lines = ['fun %s => do' % ' '.join(params)] if params else ['do']
    for v, r, _ in binds:
        lines.append('  let %s ← %s' % (v, r))
    lines.append('  pure %s' % result)
    return '\n'.join(lines)


_hexdump_defaults = {}


def hexdump_defaults(repo):
    """(bytes_per_line, bytes_per_chunk) defaults of pel.hexdump.hexdump, from its signature"""
    if repo not in _hexdump_defaults:
        m = Module(repo, 'pel/hexdump.py')
        fn = pytrans.find_def(m.tree, 'hexdump')
        a = fn.args
        if a.vararg or a.kwarg or a.kwonlyargs or a.posonlyargs or fn.decorator_list or [x.arg for x in a.args] != ['data', 'bytes_per_line', 'bytes_per_chunk'] \
                or len(a.defaults) != 2:
            raise U(fn, 'signature of hexdump')
        _hexdump_defaults[repo] = (pytrans.const_int(a.defaults[0]), pytrans.const_int(a.defaults[1]))
    return _hexdump_defaults[repo]


# ---------------------------------------------------------------------------------------------------------------------
# the targets

def translate_getTimestamp(repo):
    mod = Module(repo, PELTOOL + 'private_header.py')
    fn = pytrans.find_def(mod.tree, 'getTimestamp')
    check_plain_args(fn, ['stream'])
    ex = Exec(mod)
    ex.env['stream'] = V('stream')
    r = ex.exec_block(fn.body)
    if r is None or r[1].ty != 'text':
        raise U(fn, 'getTimestamp must return a str')
    return render_do([], ex.binds, r[1].term)


def class_exec(repo, relfile, cls, with_creator):
    mod = Module(repo, PELTOOL + relfile)
    cnode = None
    for n in mod.tree.body:
        if isinstance(n, ast.ClassDef) and n.name == cls:
            cnode = n
    if cnode is None:
        raise Untranslatable('no class %s' % cls)
    if cnode.bases or cnode.keywords or cnode.decorator_list:
        raise U(cnode, 'class %s has bases, keywords or decorators' % cls)
    seen = set()
    for st in pytrans.strip_docstring(cnode.body):
        if not isinstance(st, ast.FunctionDef):
            raise U(st, 'class-level statement %s' % type(st).__name__)
        if st.name in seen:
            raise U(st, 'method %s defined twice' % st.name)
        seen.add(st.name)
        if st.name.startswith('__') and st.name != '__init__':
            raise U(st, 'special method %s' % st.name)
        if st.decorator_list:
            raise U(st, 'decorated method %s' % st.name)
    init = pytrans.find_def(mod.tree, cls + '.__init__')
    tojson = pytrans.find_def(mod.tree, cls + '.toJSON')
    check_plain_args(init, ['self'] + INIT_PARAMS + (['creatorID'] if with_creator else []))
    check_plain_args(tojson, ['self'])
    ex = Exec(mod)
    ex.env['self'] = V('self')
    ex.env['stream'] = V('stream')
    for p in INIT_PARAMS[1:] + (['creatorID'] if with_creator else []):
        ty, term = PARAM_TERMS[p]
        ex.env[p] = V(ty, term)
    if ex.exec_block(init.body) is not None:
        raise U(init, 'return in __init__')
    # the locals of __init__ end with it
    ex.env = {k: v for k, v in ex.env.items() if isinstance(k, tuple) or k == 'self'}
    r = ex.exec_block(tojson.body)
    if r is None or r[1].ty != 'dict':
        raise U(tojson, 'toJSON must end in returning the dictionary it built')
    return ex, r[1]


def field(ex, name, kind):
    v = ex.env.get(('self', name))
    if v is None or v.ty == 'undef':
        raise Untranslatable('field %s is not set' % name)
    if kind == 'fmtnum':
        if v.ty != 'text' or v.fmtnum is None:
            raise Untranslatable('field %s is not the text of one formatted number' % name)
        return v.fmtnum
    if v.ty != kind:
        raise Untranslatable('field %s has type %s, expected %s' % (name, v.ty, kind))
    return v.term


def translate_ph_idtext(repo):
    """the TEXT peltool.py finds in `ph.pLID` / `ph.lEID`, as functions of the number PHInfo keeps"""
    ex, _ = class_exec(repo, 'private_header.py', 'PrivateHeader', False)
    out = []
    for name in ('pLID', 'lEID'):
        v = ex.env.get(('self', name))
        if v is None or v.ty != 'text' or v.fmttpl is None:
            raise Untranslatable('field %s is not the text of one formatted number' % name)
        out.append(v.fmttpl)
    return 'fun n => (%s, %s)' % tuple(out)


def translate_class(repo, relfile, cls, with_creator, info=None, tables=True):
    ex, d = class_exec(repo, relfile, cls, with_creator)
    res = 'J.obj ' + render_items(d.items)
    if info:
        res = '(%s,\n    { %s })' % (res, ', '.join('%s := %s' % (ln, field(ex, pn, kind)) for ln, pn, kind in info))
    else:
        res = '(%s)' % res
    params = (['T'] if tables else []) + ['h'] + (['creator'] if with_creator else [])
    return render_do(params, ex.binds, res)


# ---- getDisplayCompID: a pure function with early returns
class PureFn(Exec):
    """statement list -> one Lean expression; `if c: … return a` followed by the rest is `if c then a else rest`"""

    def fork(self):
        e = PureFn(self.mod, self.counter)
        e.env = dict(self.env)
        return e

    def run(self, stmts):
        stmts = pytrans.strip_docstring(stmts)
        for i, st in enumerate(stmts):
            if isinstance(st, ast.Return):
                # (what follows a return in the same statement list is never executed)
                if st.value is None:
                    raise U(st, 'return without a value')
                v = self.eval(st.value)
                if v.ty != 'text' or self.binds:
                    raise U(st, 'return of a %s' % v.ty)
                return v.term
            if isinstance(st, ast.If):
                # the lazy load of the registry: `if not componentIDs: getAllCreatorsCompIDs()` is what makes T.compIds the loaded registry
                if self.is_lazy_load(st):
                    continue
                r = self.registry_idiom(st, stmts[i + 1:])
                if r is not None:
                    return r
                c = self.cond(st.test, 'prop')
                if self.binds:
                    raise U(st, 'read in a pure function')
                ra = self.fork().run(st.body + stmts[i + 1:])
                rb = self.fork().run(st.orelse + stmts[i + 1:])
                return '(if %s then %s else %s)' % (c, ra, rb)
            r = self.exec_stmt(st)
            if r is not None or self.binds:
                raise U(st, 'statement in a pure function')
        raise Untranslatable('the function may end without return')

    def is_lazy_load(self, st):
        if st.orelse or len(st.body) != 1:
            return False
        t = st.test
        b = st.body[0]
        return (isinstance(t, ast.UnaryOp) and isinstance(t.op, ast.Not) and isinstance(t.operand, ast.Name) and t.operand.id not in self.env
                and self.mod.resolve(t.operand) == ('pel.peltool.comp_id', 'componentIDs')
                and isinstance(b, ast.Expr) and isinstance(b.value, ast.Call) and isinstance(b.value.func, ast.Name)
                and not b.value.args and not b.value.keywords and b.value.func.id not in self.env
                and self.mod.resolve(b.value.func) == ('pel.peltool.comp_id', 'getAllCreatorsCompIDs'))

    def table_of(self, node):
        if isinstance(node, ast.Name) and node.id not in self.env:
            g = self.mod.resolve(node)
            if g == ('pel.peltool.pel_values', 'creatorIDs'):
                return 'T.creators'
            if g == ('pel.peltool.comp_id', 'componentIDs'):
                return 'T.compIds'
        return None

    def registry_idiom(self, iff, rest):
        """   if K in componentIDs and S.upper() in componentIDs[K]: return componentIDs[K][S]
              return S
           -> match T.compIds.find? (·.1 == K) with | some (_, m) => (match lookupT m S with | some nm => nm | none => S) | none => S
           (`S.upper()` is admitted for S = an upper-case hex format of a number only: it is S)"""
        rest = pytrans.strip_docstring(rest)
        t = iff.test
        if not (len(rest) >= 1 and isinstance(rest[0], ast.Return) and rest[0].value is not None and not iff.orelse and len(iff.body) == 1
                and isinstance(iff.body[0], ast.Return)
                and isinstance(t, ast.BoolOp) and isinstance(t.op, ast.And) and len(t.values) == 2):
            return None
        m1, m2 = t.values
        r = iff.body[0].value
        if not (isinstance(m1, ast.Compare) and len(m1.ops) == 1 and isinstance(m1.ops[0], ast.In) and self.table_of(m1.comparators[0]) == 'T.compIds'
                and isinstance(m2, ast.Compare) and len(m2.ops) == 1 and isinstance(m2.ops[0], ast.In)
                and isinstance(m2.comparators[0], ast.Subscript) and self.table_of(m2.comparators[0].value) == 'T.compIds'
                and ast.dump(m2.comparators[0].slice) == ast.dump(m1.left)
                and isinstance(r, ast.Subscript) and isinstance(r.value, ast.Subscript) and self.table_of(r.value.value) == 'T.compIds'
                and ast.dump(r.value.slice) == ast.dump(m1.left)):
            return None
        k = self.eval(m1.left)
        sv = self.eval(r.slice)
        probe = m2.left
        if isinstance(probe, ast.Call) and isinstance(probe.func, ast.Attribute) and probe.func.attr == 'upper' and not probe.args and not probe.keywords:
            pv = self.eval(probe.func.value)
            if not re.match(r'^\(fmtHex \d+ \w+\)$', pv.term):
                raise U(iff, '.upper() of something that is not an upper-case hex number')
        else:
            pv = self.eval(probe)
        d = self.eval(rest[0].value)
        if k.ty != 'text' or sv.ty != 'text' or pv.term != sv.term or d.term != sv.term or self.binds:
            raise U(iff, 'registry look-up idiom')
        return ('(match (T.compIds.find? (fun p => p.1 == %s)) with\n    | some (_, m) => (match lookupT m %s with | some nm => nm | none => %s)\n    | none => %s)'
                % (k.term, sv.term, sv.term, sv.term))

    def cond(self, node, mode):
        # `k in D and D[k] == "lit"`  ->  lookupT D k = some "lit"
        if mode == 'prop' and isinstance(node, ast.BoolOp) and isinstance(node.op, ast.And) and len(node.values) == 2:
            m, e = node.values
            if isinstance(m, ast.Compare) and len(m.ops) == 1 and isinstance(m.ops[0], ast.In) and self.table_of(m.comparators[0]) == 'T.creators' \
                    and isinstance(e, ast.Compare) and len(e.ops) == 1 and isinstance(e.ops[0], ast.Eq) \
                    and isinstance(e.left, ast.Subscript) and self.table_of(e.left.value) == 'T.creators' \
                    and ast.dump(e.left.slice) == ast.dump(m.left):
                k = self.eval(m.left)
                v = self.eval(e.comparators[0])
                if k.ty == 'text' and v.ty == 'text':
                    return 'lookupT T.creators %s = some %s' % (k.term, v.term)
        return Exec.cond(self, node, mode)


def translate_displayCompID(repo):
    mod = Module(repo, PELTOOL + 'comp_id.py')
    fn = pytrans.find_def(mod.tree, 'getDisplayCompID')
    check_plain_args(fn, ['componentID', 'creatorID'])
    ex = PureFn(mod)
    ex.env['componentID'] = V('int', 'comp')
    ex.env['creatorID'] = V('text', 'creator')
    return 'fun T comp creator =>\n  ' + ex.run(fn.body)


TARGETS = [
    ('getTimestamp', 'Rd Text', lambda repo: translate_getTimestamp(repo)),
    ('decodePH', 'Tables → SecHdr → Rd (J × PHInfo)', lambda repo: translate_class(repo, 'private_header.py', 'PrivateHeader', False, PH_INFO)),
    ('phIdText', 'Nat → Text × Text', lambda repo: translate_ph_idtext(repo)),
    ('decodeUH', 'Tables → SecHdr → Text → Rd (J × UHInfo)', lambda repo: translate_class(repo, 'user_header.py', 'UserHeader', True, UH_INFO)),
    ('decodeEH', 'Tables → SecHdr → Text → Rd J', lambda repo: translate_class(repo, 'extend_user_header.py', 'ExtendedUserHeader', True)),
    ('decodeMT', 'Tables → SecHdr → Text → Rd J', lambda repo: translate_class(repo, 'failing_mtms.py', 'FailingMTMS', True)),
    ('decodeLP', 'Tables → SecHdr → Text → Rd J', lambda repo: translate_class(repo, 'imp_partition.py', 'ImpactedPartition', True)),
    ('decodeDefault', 'SecHdr → Rd J', lambda repo: translate_class(repo, 'default.py', 'Default', False, tables=False)),
    ('displayCompID', 'Tables → Nat → Text → Text', lambda repo: translate_displayCompID(repo)),
]


def generate(repo, verif):
    gen = pytrans.GenFile(verif, 'GenSections', ['PelModel.Sections'],
                          'modules/pel/peltool: private_header, user_header, extend_user_header, failing_mtms, imp_partition, default, comp_id')
    for name, ty, fn in TARGETS:
        gen.emit(name, ty, (lambda fn=fn: fn(repo)))
    return gen


if __name__ == '__main__':
    import sys
    g = generate(os.environ.get('VERIF_REPO', '/repo'), os.path.dirname(os.path.dirname(os.path.abspath(__file__))))
    sys.stdout.write(g.render())
