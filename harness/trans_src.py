"""
Source-to-Lean translator for the SRC section (stream `src`, property C03).

Reads the CURRENT text of modules/pel/peltool/src.py (and pel_types.py for the `SRCType` values) with `ast` and regenerates
lean/PelGen/GenSrc.lean; lean/PelProps/TieC03.lean proves every generated definition equal to the hand-written model function of
lean/PelModel/Src.lean.  The executor is the symbolic executor of harness/trans_sections.py (imported, not copied: expressions,
formats, table look-ups, conditional reads, `getInts` loop), extended here by objects, optional objects, loops, early return,
calls of named methods and dictionaries changed in branches that read.  Anything not listed raises `Untranslatable`.

TRUSTED NAME MAP (Python identifier -> Lean identifier of the model); everything else is read off the AST
------------------------------------------------------------------------------------------------------------------------
 everything of harness/trans_sections.py (stream.get_int -> getInt, get_mem -> getMem, bytes.decode(get_mem) -> getText, tables, formats …)
 classes of src.py whose instances cross function boundaries: attribute -> field of the model's structure
     FRUIdentity  -> Fru      flags->flags  pnOrProcedureID->pnOrProc  ccin->ccin  sn->sn  flattenedSize->flatSize
     PCEIdentity  -> Pce      flattenedSize->declaredSize  machineType->mtm  serialNumber->sn  pceName->name (Option: may be left unset)
     MRU          -> Mru      flattenedSize->declaredSize  mrus->ids
     MRUCallout   -> Nat×Nat  priority->.1  id->.2          (constructor arguments by the parameter names of its __init__)
     Callout      -> Callout  size flags priority->same  locationCodeSize->locSize  locationCode->loc  fruIdentity->fru  pceIdentity->pce  mru->mru
   (attributes that are not listed are private to `__init__`: their names do not matter.  An instance is only ever created by
    `Cls(<stream>)`, which is the model's reader: FRUIdentity -> readFru, PCEIdentity -> readPce, MRU -> readMru, Callout -> readCallout,
    each generated from `Cls.__init__` and tied on its own; `callout.flattenedSize()` -> Callout.flattenedSize, generated and tied.)
 get_value(<stream>.data, <stream>.index, n)  -> peekInt n    (the body of `get_value` must be `return int.from_bytes(a[b: b + c], byteorder="big")`)
 Enum.member.value (HeaderFlags, ErrorStatusFlags, Flags of src.py; SRCType of pel_types.py) -> the literal in the class body (@unique Enum classes only)
 SRC.__init__ parameters as in trans_sections (h : SecHdr, creator); `config.allow_plugins` -> allow = true   (allow : Bool, the model's allowPlugins)
 failingComponentType / calloutPriorityValues -> T.failingCompTypes / T.calloutPriorities (trans_sections.TABLES)
 CALL SITES of functions that are named, NOT translated (their bodies are outside the subset: try/except, importlib, module caches, re.sub, str.format(*args), JSON data):
     self.getErrorDetails(D, a, b)     -> D gets the members `(errDetailsCall env.registry a b <self.hexData>).rd KEY`, KEY = the literal of the callee's last
                                           statement `D[KEY] = …` (first parameter); `self.hexData` = the attribute the callee's helpers index, named HEXDATA below
     self.getProcedureDesc(p, D)       -> D gets `procDescCall env creator p` (keys unknown: D is rendered with `dictOf`, Python's assignment semantics)
     V = self.parse(L); if V != '' and V != 'null': D[K] = json.loads(V)   (exactly this shape, these two literals) -> D gets `(srcDetails env creator <self.asciiString> L).rd K`
     self.getCallouts(D, config)       -> `let c ← decodeCallouts T env creator allow`, D[KEY] = c, KEY = the literal of the callee's last statement `D[KEY] = od`;
                                           decodeCallouts is generated from the rest of `getCallouts` and tied on its own
 member of the SRC document peltool.py reads afterwards: "Reference Code" -> second component of decodeSRC

TRUSTED IDIOMS / PYTHON SEMANTICS (in addition to trans_sections)
------------------------------------------------------------------------------------------------------------------------
 X = None; X = Cls(stream)          -> Option of the structure; `if X:` / `E if X else F` -> match X with | some x => … | none => …  (X denotes x inside;
                                        instances are always true: classes with __bool__/__len__ or any other special method are refused)
 attribute that may be unset (Pce.name)  -> reading it is a failing step (Option bind / rdOfOption): AttributeError
 `if c: print(<string literals>, file=sys.stderr); return` in __init__ -> `if c then pure <object as it is> else <rest>`; stderr is not modelled
 a -= k under a test `a >= k'`/`a > k'` (k <= k') that dominates it  -> exact subtraction
 t[a:b] (literals, a <= b) -> (t.drop a).take (b-a), t.take b for a = 0;  t[:-1] -> t.dropLast;  t.strip() -> stripSp t;  t.lower() -> t.map toLowerAscii;  len
 L[k] for a literal k below the known length of L (built by one counted loop from []) -> L.getD k 0;   L[e] otherwise -> rdIndex L e (IndexError)
 for _ in range(n): [x = <reads>]* ; L.append(e)              -> let xs ← rdRepeat (do …; pure e) n;  L := L ++ xs
 for x in L: acc += e(x)            (acc a str)                -> acc := L.foldl (fun a x => a ++ e x) acc
 for x in L: D = OrderedDict(); …; M.append(D)   (M fresh)     -> let js ← rdOfOption (optAllJ (L.map <body as a function x ↦ Option J>)); M := js
 for i in range(a, b): <body: pure steps, L[e] look-ups, D[lit + str(i)] = v, M.append(v)>  -> forRangeRd a b (fun i st => …) init;
        members with keys `lit + str(i)` are appended to D: no other key of D may start with `lit` (checked), str is injective
 while len(L) < n: L.append(e)                                  -> L := padTo n e L
 while TEST: BODY  (BODY: statements, then an if/elif/else chain whose branches may end in `break`; every path that continues performs a read)
        -> let rem ← remaining; let st ← rdWhile (fun st => TEST) (fun st => BODY ↦ (new state, continue?)) (rem + 1) init
        state = the variables BODY assigns that exist before the loop (objects in the order of the class table above, then the others
        in the order of their first binding; any order is sound)
 D[k] = v with v a dict / list of dicts -> .obj / .arr;   D with distinct literal keys -> the member list in statement order (as in trans_sections)
"""
import ast
import copy
import os

import pytrans
from pytrans import Untranslatable
import trans_sections as ts
from trans_sections import V, U, mk_list, mk_dict, text_lit, lean_str, prog, check_plain_args, names_in

SRC_PY = 'pel/peltool/src.py'

# class -> (Lean structure or None for a pair, reader, [(python attribute, lean field, kind)])
CLASSES = {
    'FRUIdentity': ('Fru', 'readFru', [('flags', 'flags', 'int'), ('pnOrProcedureID', 'pnOrProc', 'text'), ('ccin', 'ccin', 'text'),
                                       ('sn', 'sn', 'text'), ('flattenedSize', 'flatSize', 'int')]),
    'PCEIdentity': ('Pce', 'readPce', [('flattenedSize', 'declaredSize', 'int'), ('machineType', 'mtm', 'text'), ('serialNumber', 'sn', 'text'),
                                       ('pceName', 'name', 'opttext')]),
    'MRU': ('Mru', 'readMru', [('flattenedSize', 'declaredSize', 'int'), ('mrus', 'ids', 'list:MRUCallout')]),
    'MRUCallout': (None, None, [('priority', '1', 'int'), ('id', '2', 'int')]),
    'Callout': ('Callout', 'readCallout', [('size', 'size', 'int'), ('flags', 'flags', 'int'), ('priority', 'priority', 'int'),
                                           ('locationCodeSize', 'locSize', 'int'), ('locationCode', 'loc', 'text'),
                                           ('fruIdentity', 'fru', 'opt:FRUIdentity'), ('pceIdentity', 'pce', 'opt:PCEIdentity'), ('mru', 'mru', 'opt:MRU')]),
}
METHODS = {('Callout', 'flattenedSize'): 'Callout.flattenedSize'}
ENUM_MODULES = {'pel.peltool.src': SRC_PY, 'pel.peltool.pel_types': 'pel/peltool/pel_types.py'}
REFCODE_KEY = 'Reference Code'
BUILTINS = ts.BUILTINS | {'len', 'print', 'int'}


class SrcModule(ts.Module):
    """trans_sections.Module, COPIED with one change: `@unique` Enum classes may be decorated (recorded in `self.enums`)"""

    def __init__(self, repo, relpath):
        self.relpath = relpath
        self.modname = relpath[:-3].replace('/', '.')
        self.tree = pytrans.load_module_ast(repo, relpath)
        self.repo = repo
        self.names = {}
        for st in self.tree.body:
            if isinstance(st, ast.ImportFrom):
                if st.level:
                    raise U(st, 'relative import')
                for a in st.names:
                    if a.name == '*':
                        raise U(st, 'star import')
                    self._bind(a.asname or a.name, ('import', st.module, a.name))
            elif isinstance(st, ast.Import):
                for a in st.names:
                    self._bind((a.asname or a.name).split('.')[0], ('module', a.name))
            elif isinstance(st, ast.ClassDef):
                if st.decorator_list and not self.is_enum_class(st):
                    raise U(st, 'decorated module-level definition')
                self._bind(st.name, ('import', self.modname, st.name))
            elif isinstance(st, ast.FunctionDef):
                if st.decorator_list:
                    raise U(st, 'decorated module-level definition')
                self._bind(st.name, ('import', self.modname, st.name))
            elif isinstance(st, ast.Assign) and all(isinstance(t, ast.Name) for t in st.targets):
                for t in st.targets:
                    self._bind(t.id, ('import', self.modname, t.id))
            elif isinstance(st, ast.AnnAssign) and isinstance(st.target, ast.Name):
                self._bind(st.target.id, ('import', self.modname, st.target.id))
            elif isinstance(st, ast.Expr) and isinstance(st.value, ast.Constant) and isinstance(st.value.value, str):
                pass
            else:
                raise U(st, 'module-level statement %s' % type(st).__name__)

    def is_enum_class(self, st):
        """class X(Enum) with at most the decorator `unique` (names as imported from `enum`)"""
        def from_enum(n, what):
            return isinstance(n, ast.Name) and self.names.get(n.id) == ('import', 'enum', what)
        return (len(st.bases) == 1 and from_enum(st.bases[0], 'Enum') and not st.keywords
                and all(from_enum(d, 'unique') for d in st.decorator_list))

    def resolve(self, node):
        name = node.id
        w = self.names.get(name)
        if w is None:
            if name in BUILTINS:
                return ('builtins', name)
            raise U(node, 'unknown name %s' % name)
        if w[0] == 'module':
            return ('module', w[1])
        if w[0] != 'import':
            raise U(node, 'name %s is bound more than once' % name)
        return (w[1], w[2])

    def enum_members(self, clsname):
        """member -> literal of an Enum class of this module"""
        node = None
        for st in self.tree.body:
            if isinstance(st, ast.ClassDef) and st.name == clsname:
                node = st
        if node is None or self.names.get(clsname) != ('import', self.modname, clsname) or not self.is_enum_class(node):
            raise Untranslatable('%s is not a plain Enum class of %s' % (clsname, self.modname))
        out = {}
        for st in pytrans.strip_docstring(node.body):
            if not (isinstance(st, ast.Assign) and len(st.targets) == 1 and isinstance(st.targets[0], ast.Name) and isinstance(st.value, ast.Constant)
                    and isinstance(st.value.value, (int, str)) and not isinstance(st.value.value, bool)):
                raise U(st, 'statement in Enum class %s' % clsname)
            if st.targets[0].id in out:
                raise U(st, 'Enum member defined twice')
            out[st.targets[0].id] = st.value.value
        return out


_modules = {}


def module(repo, relpath):
    if (repo, relpath) not in _modules:
        _modules[(repo, relpath)] = SrcModule(repo, relpath)
    return _modules[(repo, relpath)]


def plain_class(mod, cls, allowed_methods=None):
    """ClassDef of a class without bases, decorators, class-level statements or special methods other than __init__"""
    cnode = None
    for n in mod.tree.body:
        if isinstance(n, ast.ClassDef) and n.name == cls:
            cnode = n
    if cnode is None or mod.names.get(cls) != ('import', mod.modname, cls):
        raise Untranslatable('no class %s (or bound more than once)' % cls)
    if cnode.bases or cnode.keywords or cnode.decorator_list:
        raise U(cnode, 'class %s has bases, keywords or decorators' % cls)
    seen = {}
    for st in pytrans.strip_docstring(cnode.body):
        if not isinstance(st, ast.FunctionDef):
            raise U(st, 'class-level statement %s' % type(st).__name__)
        if st.name in seen:
            raise U(st, 'method %s defined twice' % st.name)
        seen[st.name] = st
        if st.name.startswith('__') and st.name != '__init__':
            raise U(st, 'special method %s' % st.name)
        if st.decorator_list:
            raise U(st, 'decorated method %s' % st.name)
    if allowed_methods is not None and set(seen) - set(allowed_methods):
        raise U(cnode, 'class %s has methods %s' % (cls, sorted(set(seen) - set(allowed_methods))))
    # nothing outside the class may patch it
    for n in ast.walk(mod.tree):
        if isinstance(n, (ast.Assign, ast.AugAssign, ast.AnnAssign, ast.Delete)):
            tg = n.targets if isinstance(n, (ast.Assign, ast.Delete)) else [n.target]
            for t in tg:
                if isinstance(t, ast.Attribute) and isinstance(t.value, ast.Name) and t.value.id == cls:
                    raise U(n, 'class %s is patched' % cls)
    return cnode, seen


def assigned_names(stmts):
    """names a function body binds (Python scoping: local in the whole body)"""
    out = set()
    for st in stmts:
        for n in ast.walk(st):
            if isinstance(n, ast.Name) and isinstance(n.ctx, (ast.Store, ast.Del)):
                out.add(n.id)
            if isinstance(n, (ast.Global, ast.Nonlocal, ast.Lambda, ast.FunctionDef, ast.ClassDef, ast.Import, ast.ImportFrom, ast.Try, ast.With,
                              ast.NamedExpr, ast.Yield, ast.YieldFrom, ast.Await, ast.Raise, ast.Delete, ast.Assert)):
                raise U(n, '%s in a translated function' % type(n).__name__)
    return out


def tuple_term(terms):
    return '(' + ', '.join(terms) + ')' if len(terms) != 1 else terms[0]


def proj(term, i, n):
    """i-th component of an n-tuple (right-nested pairs)"""
    if n == 1:
        return term
    return term + '.2' * i + ('.1' if i < n - 1 else '')


def ident_elem(ty, var, cls=None):
    e = V(ty, var)
    e.cls = cls
    return e


def list_term(v):
    if v.var is None:
        if v.base != '[]':
            raise Untranslatable('list of unknown element type')
        return '[]'
    if v.elem.term == v.var:
        return v.base
    return '(%s.map fun %s => %s)' % (v.base, v.var, v.elem.term)


def jval(v, node):
    """a Python value stored in a dictionary -> J term"""
    if v.ty == 'int':
        return '(jnum %s)' % v.term
    if v.ty == 'text':
        return '(jstr %s)' % v.term
    if v.ty == 'j':
        return v.term
    if v.ty == 'dict':
        return dict_j(v)
    if v.ty == 'list':
        v.shared = True
        if v.var is None:
            if v.base != '[]':
                raise U(node, 'list of unknown element type as a member')
            return '(.arr [])'
        if v.elem.ty == 'j':
            return '(.arr %s)' % list_term(v)
        if v.elem.ty in ('text', 'int'):
            return '(.arr (%s.map fun %s => %s %s))' % (v.base, v.var, 'jstr' if v.elem.ty == 'text' else 'jnum', v.elem.term)
    raise U(node, 'member value of type %s' % v.ty)


def dict_j(d):
    body = render_items(d.items)
    if getattr(d, 'opaque', False):
        return '(J.obj (dictOf %s))' % body
    return '(J.obj %s)' % body


def item_keys(items):
    """(literal keys, key-family prefixes, contains members with unknown keys?)"""
    keys, fams, unknown = [], [], False
    for it in items:
        if it[0] == 'kv':
            keys.append(it[1])
        elif it[0] in ('cond', 'match'):
            for sub in it[-2:]:
                k, f, u = item_keys(sub)
                keys += k
                fams += f
                unknown = unknown or u
        elif it[0] == 'splice':
            if it[2] is None:
                unknown = True
            else:
                keys += [k for k in it[2] if not isinstance(k, tuple)]
                fams += [k[1] for k in it[2] if isinstance(k, tuple)]
    return keys, fams, unknown


def one_line(text):
    return ' '.join(l.strip() for l in text.split('\n'))


def render_items(items):
    groups, cur = [], []

    def flush():
        if cur:
            groups.append('[' + ',\n      '.join(cur) + ']')
            del cur[:]
    for it in items:
        if it[0] == 'kv':
            cur.append('kv %s %s' % (lean_str(it[1]), it[2]))
        elif it[0] == 'cond':
            flush()
            groups.append('(if %s then %s else %s)' % (it[1], render_items(it[2]), render_items(it[3])))
        elif it[0] == 'match':
            flush()
            groups.append('(match %s with | some %s => %s | none => %s)' % (it[1], it[2], one_line(render_items(it[3])), one_line(render_items(it[4]))))
        elif it[0] == 'splice':
            flush()
            groups.append(it[1])
        else:
            raise Untranslatable('dictionary item')
    flush()
    if not groups:
        return '[]'
    if len(groups) == 1:
        return groups[0]
    return '(' + ' ++\n    '.join(groups) + ')'


class SX(ts.Exec):
    """the symbolic executor of trans_sections, extended (see the table at the top)"""

    def __init__(self, mod, counter=None, fn_locals=(), mode='rd'):
        ts.Exec.__init__(self, mod, counter)
        self.fn_locals = set(fn_locals)
        self.mode = mode             # 'rd': failing steps are Rd programs; 'opt': Option (no stream)
        self.refine = {}             # ast.dump of an expression known to be a live object -> its value
        self.lower = {}              # variable key -> known lower bound
        self.consumed = 0            # number of reads bound so far on this path (termination check of while loops)

    def fork(self):
        e = SX(self.mod, self.counter, self.fn_locals, self.mode)
        e.env = dict(self.env)
        e.refine = dict(self.refine)
        e.lower = dict(self.lower)
        return e

    def bind(self, rhs, ty):
        head = rhs.split()[0].lstrip('(')
        # a successful getInt/getMem/getText consumes at least one byte (a count of 0 raises); a reader of a mapped class starts
        # with such a read (checked in `construct`); `getInts w 0` consumes nothing and does not count
        if head in ('getInt', 'getMem', 'getText', 'getTimestamp') or head in [c[1] for c in CLASSES.values()]:
            self.consumed += 1
        return ts.Exec.bind(self, rhs, ty)

    # ---- names
    def global_of(self, node):
        if isinstance(node, ast.Name) and node.id not in self.env:
            if node.id in self.fn_locals:
                raise U(node, 'local %s used before it is bound' % node.id)
            return self.mod.resolve(node)
        return None

    def is_global(self, node, origin):
        return isinstance(node, ast.Name) and node.id not in self.env and node.id not in self.fn_locals and self.mod.resolve(node) == origin

    def use(self, v, node):
        if v.ty == 'optfield':
            r = self.bind(v.term if self.mode == 'opt' else 'rdOfOption %s' % v.term, v.inner)
            return r
        return v

    def enum_value(self, node):
        if not (isinstance(node, ast.Attribute) and node.attr == 'value' and isinstance(node.value, ast.Attribute)
                and isinstance(node.value.value, ast.Name)):
            return None
        x = node.value.value
        if x.id in self.env or x.id in self.fn_locals:
            return None
        g = self.mod.resolve(x)
        if g[0] not in ENUM_MODULES:
            return None
        val = module(self.mod.repo, ENUM_MODULES[g[0]]).enum_members(g[1]).get(node.value.attr)
        if val is None:
            raise U(node, 'no Enum member %s.%s' % (g[1], node.value.attr))
        return self.eval(ast.copy_location(ast.Constant(val), node))

    def field(self, obj, attr, node):
        lean, _, fields = CLASSES[obj.cls]
        for py, lf, kind in fields:
            if py == attr:
                t = '%s.%s' % (obj.term, lf)
                if kind in ('int', 'text'):
                    return V(kind, t)
                if kind == 'opttext':
                    return V('optfield', t, inner='text')
                if kind.startswith('opt:'):
                    return V('opt', t, cls=kind[4:])
                if kind.startswith('list:'):
                    x = self.fresh('x')
                    return mk_list(t, x, ident_elem('obj', x, kind[5:]))
        raise U(node, 'attribute %s of a %s is not part of the interface' % (attr, obj.cls))

    # ---- expressions
    def eval(self, node):
        d = ast.dump(node)
        if d in self.refine:
            return self.refine[d]
        if isinstance(node, ast.Constant) and node.value is None:
            return V('opt', 'none', cls=None)
        if isinstance(node, ast.Attribute):
            return self.eval_attr(node)
        if isinstance(node, ast.Subscript):
            return self.eval_subscript(node)
        if isinstance(node, (ast.BoolOp, ast.Compare)) or (isinstance(node, ast.UnaryOp) and isinstance(node.op, ast.Not)):
            return V('bool', '(' + self.cond(node, 'prop') + ')')
        if isinstance(node, ast.IfExp):
            n0 = len(self.binds)
            t = self.eval(node.test)
            if t.ty == 'opt' and t.cls is not None and len(self.binds) == n0:
                x = self.fresh('x')
                a = self.fork()
                a.refine[ast.dump(node.test)] = ident_elem('obj', x, t.cls)
                va = a.eval(node.body)
                b = self.fork()
                vb = b.eval(node.orelse)
                if a.binds or b.binds or va.ty != vb.ty or va.ty not in ('int', 'text'):
                    raise U(node, 'conditional expression on an optional object')
                return V(va.ty, '(match %s with | some %s => %s | none => %s)' % (t.term, x, va.term, vb.term))
            del self.binds[n0:]
            return ts.Exec.eval(self, node)
        if isinstance(node, ast.Name):
            if node.id in self.env:
                return self.use(self.lookup(node), node)
            if node.id in self.fn_locals:
                raise U(node, 'local %s used before it is bound' % node.id)
        return ts.Exec.eval(self, node)

    def eval_attr(self, node):
        ev = self.enum_value(node)
        if ev is not None:
            return ev
        k = self.key_of(node)
        if k is not None:
            if k in self.env:
                return self.use(self.lookup(node), node)
            raise U(node, 'attribute self.%s is not set' % node.attr)
        bv = self.eval(node.value)
        if bv.ty == 'config':
            if node.attr == 'allow_plugins':
                return V('bool', '(allow = true)')
            raise U(node, 'Config member %s' % node.attr)
        if bv.ty == 'obj':
            fv = self.field(bv, node.attr, node)
            r = self.use(fv, node)
            if fv.ty == 'optfield':
                self.refine[ast.dump(node)] = r        # read once without an exception: the attribute is set
            return r
        if bv.ty == 'opt':
            raise U(node, 'attribute of a value that may be None')
        raise U(node, 'attribute %s of a %s' % (node.attr, bv.ty))

    def eval_subscript(self, node):
        v = self.eval(node.value)
        sl = node.slice
        if v.ty == 'dict':
            key = pytrans.const_str(sl)
            got = getattr(v, 'vals', {}).get(key)
            if got is None:
                raise U(node, 'dictionary member %r is not known to be set' % key)
            return got
        if isinstance(sl, ast.Slice):
            if v.ty != 'text' or sl.step is not None:
                raise U(node, 'slice of a %s' % v.ty)
            if sl.lower is None and isinstance(sl.upper, ast.UnaryOp) and isinstance(sl.upper.op, ast.USub) \
                    and isinstance(sl.upper.operand, ast.Constant) and sl.upper.operand.value == 1:
                return V('text', '(%s.dropLast)' % v.term)
            a = 0 if sl.lower is None else pytrans.const_int(sl.lower)
            if sl.upper is None:
                raise U(node, 'open slice')
            b = pytrans.const_int(sl.upper)
            if a < 0 or b < a:
                raise U(node, 'slice bounds')
            if a == 0:
                return V('text', '(%s.take %d)' % (v.term, b))
            return V('text', '((%s.drop %d).take %d)' % (v.term, a, b - a))
        if v.ty == 'list':
            if v.var is None or v.elem.ty != 'int' or v.elem.term != v.var:
                raise U(node, 'index into a list that is not a list of numbers')
            i = self.eval(sl)
            if i.ty != 'int':
                raise U(node, 'list index of type %s' % i.ty)
            n = getattr(v, 'length', None)
            if i.lit is not None and n is not None and i.lit < n:
                return V('int', '(%s.getD %d 0)' % (v.base, i.lit))
            return self.bind('rdIndex %s %s' % (v.base, i.term), 'int')
        raise U(node, 'subscript of a %s' % v.ty)

    def eval_binop(self, node):
        if isinstance(node.op, ast.Sub):
            k = self.key_of(node.left)
            b = self.eval(node.right)
            if k is not None and b.lit is not None and self.lower.get(k, -1) >= b.lit:
                a = self.eval(node.left)
                if a.ty == 'int':
                    return V('int', '(%s - %s)' % (a.term, b.term))
        if isinstance(node.op, ast.Mult):
            a, b = self.eval(node.left), self.eval(node.right)
            if a.ty == 'int' and b.ty == 'int':
                return V('int', '(%s * %s)' % (a.term, b.term))
            raise U(node, 'operator * on %s and %s' % (a.ty, b.ty))
        return ts.Exec.eval_binop(self, node)

    def eval_call(self, node):
        f = node.func
        if isinstance(f, ast.Name) and f.id not in self.env and f.id not in self.fn_locals:
            g = self.mod.resolve(f)
            if g == ('builtins', 'len'):
                self.plain_call(node, 1)
                a = self.eval(node.args[0])
                if a.ty == 'text':
                    return V('int', '%s.length' % a.term)
                if a.ty == 'list':
                    return V('int', '%s.length' % (a.base if a.var is not None else '([] : List Nat)'))
                raise U(node, 'len of a %s' % a.ty)
            if g[0] == self.mod.modname and g[1] in CLASSES:
                return self.construct(node, g[1])
            if g == (self.mod.modname, 'get_value'):
                return self.peek(node)
        if isinstance(f, ast.Attribute) and not (isinstance(f.value, ast.Constant)):
            if isinstance(f.value, ast.Name) and f.value.id == 'bytes' and f.attr == 'decode':
                return ts.Exec.eval_call(self, node)
            rc = self.read_call(node)
            if rc:
                return ts.Exec.eval_call(self, node)
            if f.attr in ('strip', 'lower', 'rstrip', 'lstrip') and not node.args and not node.keywords:
                recv = self.eval(f.value)
                if recv.ty == 'text':
                    return V('text', {'strip': '(stripSp %s)', 'lower': '(%s.map toLowerAscii)', 'rstrip': '(rstripSp %s)',
                                      'lstrip': '(lstripSp %s)'}[f.attr] % recv.term)
                raise U(node, '%s of a %s' % (f.attr, recv.ty))
            # method of an object of a mapped class
            if f.attr in [m for (_, m) in METHODS]:
                recv = self.eval(f.value)
                if recv.ty == 'obj' and (recv.cls, f.attr) in METHODS:
                    self.plain_call(node, 0)
                    return V('int', '(%s %s)' % (METHODS[(recv.cls, f.attr)], recv.term))
                raise U(node, 'method %s of a %s' % (f.attr, recv.ty))
        return ts.Exec.eval_call(self, node)

    def construct(self, node, cls):
        lean, reader, fields = CLASSES[cls]
        self.plain_call(node)
        if reader is not None:
            if len(node.args) != 1 or not self.stream_of(node.args[0]):
                raise U(node, '%s must be constructed from the stream' % cls)
            if self.mode != 'rd':
                raise U(node, 'read outside a reader')
            init = class_init(self.mod, cls)          # the class must exist in a translatable form
            first = (pytrans.strip_docstring(init.body) or [None])[0]
            sp = init.args.args[1].arg
            if not (isinstance(first, (ast.Assign, ast.AnnAssign)) and isinstance(first.value, ast.Call) and isinstance(first.value.func, ast.Attribute)
                    and first.value.func.attr in ('get_int', 'get_mem') and isinstance(first.value.func.value, ast.Name)
                    and first.value.func.value.id == sp and len(first.value.args) == 1 and not first.value.keywords):
                raise U(node, '%s.__init__ does not start with an unconditional read' % cls)
            r = self.bind(reader, 'obj')
            r.cls = cls
            return r
        # a plain record class: run its __init__ on the arguments
        init = class_init(self.mod, cls)
        params = [a.arg for a in init.args.args][1:]
        if len(params) != len(node.args):
            raise U(node, 'arguments of %s' % cls)
        sub = SX(self.mod, self.counter, assigned_names(init.body), self.mode)
        sub.env['self'] = V('self')
        for p, a in zip(params, node.args):
            sub.env[p] = self.eval(a)
        if sub.exec_block(init.body) is not None or sub.binds:
            raise U(node, '__init__ of %s' % cls)
        vals = []
        for py, lf, kind in sorted(fields, key=lambda x: x[1]):
            v = sub.env.get(('self', py))
            if v is None or v.ty != kind:
                raise U(node, 'attribute %s of %s' % (py, cls))
            vals.append(v.term)
        extra = [k for k in sub.env if isinstance(k, tuple) and k[1] not in [f[0] for f in fields]]
        r = V('obj', tuple_term(vals))
        r.cls = cls
        return r

    def peek(self, node):
        self.plain_call(node, 3)
        check_get_value(self.mod)
        a, b, c = node.args
        ok = (isinstance(a, ast.Attribute) and a.attr == 'data' and self.stream_of(a.value)
              and isinstance(b, ast.Attribute) and b.attr == 'index' and self.stream_of(b.value))
        if not ok:
            raise U(node, 'get_value must look at the stream at its cursor')
        n = pytrans.const_int(c)
        if self.mode != 'rd':
            raise U(node, 'read outside a reader')
        return self.bind('peekInt %d' % n, 'int')

    # ---- conditions
    def cond(self, node, mode):
        if isinstance(node, ast.BoolOp):
            # trans_sections renders a two-part and/or without parentheses: nested in another and/or that would regroup it
            return '(%s)' % ts.Exec.cond(self, node, mode)
        if mode == 'prop' and not isinstance(node, (ast.BoolOp, ast.Compare)) and not (isinstance(node, ast.UnaryOp) and isinstance(node.op, ast.Not)):
            v = self.eval(node)
            if v.ty == 'bool':
                return v.term
            if v.ty == 'int':
                return '%s ≠ 0' % v.term
            if v.ty == 'text':
                return '%s ≠ []' % v.term
            if v.ty == 'list':
                return '%s ≠ []' % list_term(v)
            if v.ty == 'opt' and v.cls is not None:
                return '%s.isSome = true' % v.term
            raise U(node, 'truth value of %s' % v.ty)
        if mode == 'prop' and isinstance(node, ast.UnaryOp) and isinstance(node.op, ast.Not) \
                and not isinstance(node.operand, (ast.BoolOp, ast.Compare, ast.UnaryOp)):
            return '¬ (%s)' % self.cond(node.operand, mode)
        return ts.Exec.cond(self, node, mode)

    # ---- statements
    def set_var(self, k, v):
        self.env[k] = v
        self.lower.pop(k, None)
        pat = "Attribute(value=Name(id='self', ctx=Load()), attr='%s'" % k[1] if isinstance(k, tuple) else "Name(id='%s'" % k
        for d in list(self.refine):
            if pat in d:
                del self.refine[d]

    def assign(self, target, v, node):
        if isinstance(target, ast.Subscript):
            d = self.lookup(target.value) if isinstance(target.value, (ast.Name, ast.Attribute)) else None
            if d is None or d.ty != 'dict':
                raise U(node, 'subscript assignment')
            self.dict_set(self.key_of(target.value), d, target.slice, v, node)
            return
        k = self.key_of(target)
        if k is None or k == 'self' or (isinstance(k, str) and k in BUILTINS):
            raise U(node, 'assignment target')
        if v.ty in ('table', 'config', 'self', 'optfield'):
            raise U(node, 'a %s stored in a variable' % v.ty)
        self.set_var(k, v)

    def _dict_set_plain(self, dk, d, keynode, v, node):
        keys, fams, unknown = item_keys(d.items)
        j = jval(v, node)
        if isinstance(keynode, ast.Constant) and isinstance(keynode.value, str):
            key = keynode.value
            if key in keys:
                raise U(node, 'member %r is set twice' % key)
            if any(key.startswith(f) for f in fams):
                raise U(node, 'member %r may collide with a computed key' % key)
            nd = mk_dict(d.items + [('kv', key, j)])
            nd.vals = dict(getattr(d, 'vals', {}))
            nd.vals[key] = v
            nd.opaque = getattr(d, 'opaque', False) or unknown
            self.env[dk] = nd
            return
        raise U(node, 'computed dictionary key')

    def splice(self, dk, term, keys, node):
        """members (a Lean term of type List (Text × J)) appended to dictionary `dk`; keys = literal keys, ('family', prefix), or None = unknown"""
        d = self.env[dk]
        have, fams, unknown = item_keys(d.items)
        if keys is not None:
            for k in keys:
                if isinstance(k, tuple):
                    if any(h.startswith(k[1]) for h in have) or any(f.startswith(k[1]) or k[1].startswith(f) for f in fams):
                        raise U(node, 'computed keys %r… may collide with another member' % k[1])
                elif k in have or any(k.startswith(f) for f in fams):
                    raise U(node, 'member %r is set twice' % k)
        nd = mk_dict(d.items + [('splice', term, keys)])
        nd.vals = dict(getattr(d, 'vals', {}))
        nd.opaque = getattr(d, 'opaque', False) or keys is None or unknown
        self.env[dk] = nd

    def exec_block(self, stmts):
        stmts = pytrans.strip_docstring(stmts)
        i = 0
        while i < len(stmts):
            st = stmts[i]
            n = self.parse_idiom(stmts, i)
            if n:
                i += n
                continue
            r = self.exec_stmt(st)
            if r is not None:
                if i != len(stmts) - 1:
                    raise U(st, 'statements after return')
                return r
            i += 1
        return None

    def exec_stmt(self, st):
        if isinstance(st, (ast.Assign, ast.AnnAssign)):
            if isinstance(st, ast.Assign):
                if len(st.targets) != 1:
                    raise U(st, 'multiple assignment')
                target = st.targets[0]
            else:
                if st.value is None:
                    raise U(st, 'annotated assignment')
                target = st.target
            v = self.eval(st.value)
            if v.ty in ('list', 'dict') and isinstance(st.value, (ast.Name, ast.Attribute)) and not isinstance(target, ast.Subscript):
                raise U(st, 'second name for a mutable object')
            self.assign(target, v, st)
            return None
        if isinstance(st, ast.AugAssign):
            k = self.key_of(st.target)
            if k is None or k not in self.env:
                raise U(st, 'augmented assignment target')
            binop = ast.copy_location(ast.BinOp(left=copy.deepcopy(st.target), op=st.op, right=st.value), st)
            binop.left.ctx = ast.Load()
            v = self.eval(binop)
            if v.ty not in ('int', 'text'):
                raise U(st, 'augmented assignment of type %s' % v.ty)
            self.set_var(k, v)
            return None
        if isinstance(st, ast.Expr) and isinstance(st.value, ast.Call):
            return self.exec_call_stmt(st, st.value)
        if isinstance(st, ast.While):
            return self.exec_while(st)
        if isinstance(st, ast.Return):
            if st.value is None:
                raise U(st, 'return without a value')
            return ('return', self.eval(st.value))
        if isinstance(st, ast.If):
            return self.exec_if(st)
        if isinstance(st, ast.For):
            return self.exec_for(st)
        raise U(st, 'statement %s' % type(st).__name__)

    def is_stderr_print(self, call):
        f = call.func
        return (self.is_global(f, ('builtins', 'print')) and all(isinstance(a, ast.Constant) and isinstance(a.value, str) for a in call.args)
                and len(call.keywords) == 1 and call.keywords[0].arg == 'file' and isinstance(call.keywords[0].value, ast.Attribute)
                and call.keywords[0].value.attr == 'stderr' and self.is_global(call.keywords[0].value.value, ('module', 'sys')))

    def exec_call_stmt(self, st, call):
        f = call.func
        if isinstance(f, ast.Name):
            if self.is_stderr_print(call):
                return None                        # stderr is not modelled
            raise U(st, 'call statement')
        if not isinstance(f, ast.Attribute):
            raise U(st, 'call statement')
        # L.append(e)
        if f.attr == 'append' and isinstance(f.value, (ast.Name, ast.Attribute)):
            lst = self.lookup(f.value)
            if lst is not None and lst.ty == 'list':
                self.plain_call(call, 1)
                self.append(self.key_of(f.value), lst, self.eval(call.args[0]), st)
                return None
        # methods of the object being decoded
        if isinstance(f.value, ast.Name) and f.value.id == 'self' and self.env.get('self') is not None and self.env['self'].ty == 'self':
            h = getattr(self, 'call_' + f.attr, None)
            if h is not None and f.attr in getattr(self, 'named_methods', ()):
                h(st, call)
                return None
        raise U(st, 'call statement %s' % (pytrans.dotted(f) or f.attr))

    def append(self, k, lst, e, node):
        if lst.shared:
            raise U(node, 'append to a list that is already stored elsewhere')
        if lst.var is not None and lst.elem.term != lst.var:
            raise U(node, 'append to a mapped list')
        if e.ty == 'dict':
            e = V('j', dict_j(e))
        if e.ty not in ('int', 'text', 'obj', 'j'):
            raise U(node, 'append of a %s' % e.ty)
        if lst.var is not None and (lst.elem.ty != e.ty or getattr(lst.elem, 'cls', None) != getattr(e, 'cls', None)):
            raise U(node, 'append of another element type')
        x = self.fresh('x')
        base = '[%s]' % e.term if lst.base == '[]' else '(%s ++ [%s])' % (lst.base, e.term)
        nl = mk_list(base, x, ident_elem(e.ty, x, getattr(e, 'cls', None)))
        self.set_var(k, nl)

    def parse_idiom(self, stmts, i):
        return 0

    # ---- if
    def learn_bounds(self, test):
        """lower bounds the test establishes for variables (conjuncts `x >= k`, `x > k`, `k <= x`, `k < x`)"""
        parts = test.values if isinstance(test, ast.BoolOp) and isinstance(test.op, ast.And) else [test]
        for p in parts:
            if isinstance(p, ast.Compare) and len(p.ops) == 1:
                l, r, op = p.left, p.comparators[0], type(p.ops[0])
                if isinstance(r, ast.Constant) and isinstance(r.value, int) and op in (ast.GtE, ast.Gt):
                    k, n = self.key_of(l), r.value + (op is ast.Gt)
                elif isinstance(l, ast.Constant) and isinstance(l.value, int) and op in (ast.LtE, ast.Lt):
                    k, n = self.key_of(r), l.value + (op is ast.Lt)
                else:
                    continue
                if k is not None and k in self.env and self.env[k].ty == 'int':
                    self.lower[k] = max(self.lower.get(k, 0), n)

    def exec_if(self, st):
        body = pytrans.strip_docstring(st.body)
        if not st.orelse and len(body) == 1 and isinstance(body[0], ast.For):
            it = body[0].iter
            if isinstance(it, ast.Call) and isinstance(it.func, ast.Name) and it.func.id == 'range' and len(it.args) == 1 \
                    and not it.keywords and ast.dump(it.args[0]) == ast.dump(st.test):
                return ts.Exec.exec_if(self, st)
        head = None
        a, b = self.fork(), self.fork()
        if isinstance(st.test, (ast.Name, ast.Attribute)):
            n0, c0 = len(self.binds), self.counter[0]
            tv = self.eval(st.test)
            if tv.ty == 'opt' and tv.cls is not None and len(self.binds) == n0:
                x = self.fresh('o')
                a.refine[ast.dump(st.test)] = ident_elem('obj', x, tv.cls)
                head = ('match', tv.term, x)
            else:
                del self.binds[n0:]
                self.counter[0] = c0
        if head is None:
            head = ('if', self.cond(st.test, 'prop'))
            a, b = self.fork(), self.fork()
            a.learn_bounds(st.test)

        def render(pa, pb):
            if head[0] == 'if':
                return '(if %s then %s else %s)' % (head[1], pa, pb)
            return '(match %s with | some %s => %s | none => %s)' % (head[1], head[2], pa, pb)
        if a.exec_block(st.body) is not None or b.exec_block(st.orelse) is not None:
            raise U(st, 'return inside if')
        keys = []
        for k in list(a.env) + list(b.env):
            if k not in keys and (a.env.get(k) is not self.env.get(k) or b.env.get(k) is not self.env.get(k)):
                keys.append(k)
        monadic = bool(a.binds or b.binds)
        carried = []               # (key, kind, cls, term a, term b, extra)
        for k in keys:
            va, vb, v0 = a.env.get(k), b.env.get(k), self.env.get(k)
            if va is None or vb is None or va.ty == 'undef' or vb.ty == 'undef':
                self.env[k] = V('undef')
                continue
            if va.ty == 'dict' or vb.ty == 'dict':
                if v0 is None or v0.ty != 'dict' or va.ty != 'dict' or vb.ty != 'dict':
                    raise U(st, 'dictionary created in a branch')
                n = len(v0.items)
                if va.items[:n] != v0.items or vb.items[:n] != v0.items:
                    raise U(st, 'dictionary rebuilt in a branch')
                ta, tb = va.items[n:], vb.items[n:]
                ka, fa, ua = item_keys(ta)
                kb, fb, ub = item_keys(tb)
                if (set(ka) & set(kb)) or fa or fb:
                    raise U(st, 'member set in both branches, or computed keys in a branch')
                if not monadic:
                    it = ('cond', head[1], ta, tb) if head[0] == 'if' else ('match', head[1], head[2], ta, tb)
                    nd = mk_dict(v0.items + [it])
                    nd.vals = dict(getattr(v0, 'vals', {}))
                    nd.opaque = getattr(v0, 'opaque', False) or ua or ub
                    self.env[k] = nd
                else:
                    carried.append((k, 'members', None if (ua or ub) else ka + kb, render_items(ta), render_items(tb)))
                continue
            if va.ty == 'list' or vb.ty == 'list':
                raise U(st, 'list changed in a branch')
            kind, cls = va.ty, getattr(va, 'cls', None)
            ta, tb = va.term, vb.term
            if {va.ty, vb.ty} <= {'opt', 'obj'}:
                cls = getattr(va, 'cls', None) or getattr(vb, 'cls', None)
                if getattr(va, 'cls', None) not in (None, cls) or getattr(vb, 'cls', None) not in (None, cls) or cls is None:
                    raise U(st, 'objects of different classes in one variable')
                if va.ty == vb.ty == 'obj':
                    kind = 'obj'
                else:
                    kind = 'opt'
                    ta = '(some %s)' % ta if va.ty == 'obj' else ta
                    tb = '(some %s)' % tb if vb.ty == 'obj' else tb
            elif va.ty != vb.ty or va.ty not in ('int', 'text', 'bytes', 'bool'):
                raise U(st, 'variable of type %s/%s changed in a branch' % (va.ty, vb.ty))
            carried.append((k, kind, cls, ta, tb))
        self.consumed += min(a.consumed, b.consumed)

        def restore(k, kind, cls, term):
            if kind == 'members':
                self.splice(k, term, cls, st)
            else:
                v = V(kind, term)
                v.cls = cls
                self.set_var(k, v)
        if not monadic:
            for k, kind, cls, ta, tb in carried:
                restore(k, kind, cls, render(ta, tb))
            return None
        if not carried:
            self.bind(render(prog(a.binds, '()'), prog(b.binds, '()')), 'unit')
            return None
        ta = tuple_term([c[3] for c in carried])
        tb = tuple_term([c[4] for c in carried])
        p = self.bind(render(prog(a.binds, ta), prog(b.binds, tb)), 'tuple')
        for i, (k, kind, cls, _, _) in enumerate(carried):
            restore(k, kind, cls, proj(p.term, i, len(carried)))
        return None

    # ---- loops: state handling
    base_consumed = 0
    loop_var = None

    def assigned_keys(self, stmts):
        out = []

        def add(k):
            if k is not None and k not in out:
                out.append(k)
        for st in stmts:
            for n in ast.walk(st):
                if isinstance(n, (ast.Assign, ast.AugAssign, ast.AnnAssign, ast.For)):
                    tg = n.targets if isinstance(n, ast.Assign) else [n.target]
                    for t in tg:
                        if isinstance(t, ast.Subscript):
                            t = t.value
                        if isinstance(t, (ast.Tuple, ast.List, ast.Starred)):
                            raise U(n, 'unpacking assignment')
                        add(self.key_of(t))
                elif isinstance(n, ast.Call) and isinstance(n.func, ast.Attribute) and n.func.attr in ('append', 'update', 'extend', 'pop', 'insert', 'clear', 'remove') \
                        and isinstance(n.func.value, (ast.Name, ast.Attribute)):
                    add(self.key_of(n.func.value))
                elif isinstance(n, ast.Call) and isinstance(n.func, ast.Attribute) and isinstance(n.func.value, ast.Name) and n.func.value.id == 'self':
                    # a named method may change the dictionaries handed to it
                    for a in n.args:
                        if isinstance(a, (ast.Name, ast.Attribute)):
                            k = self.key_of(a)
                            if k in self.env and self.env[k].ty == 'dict':
                                add(k)
        return out

    @staticmethod
    def ty_of(v):
        if v.ty in ('int', 'text', 'bool', 'bytes'):
            return (v.ty,)
        if v.ty in ('opt', 'obj'):
            return (v.ty, getattr(v, 'cls', None))
        if v.ty == 'list':
            return ('list', None, None) if v.var is None else ('list', v.elem.ty, getattr(v.elem, 'cls', None))
        if v.ty == 'dict':
            return ('members',)
        raise Untranslatable('loop state of type %s' % v.ty)

    @staticmethod
    def merge_ty(t1, t2):
        if t1 == t2:
            return t1
        if t1[0] in ('opt', 'obj') and t2[0] in ('opt', 'obj') and (t1[1] is None or t2[1] is None or t1[1] == t2[1]):
            return ('opt', t1[1] or t2[1])
        if t1[0] == t2[0] == 'list' and (t1[1] is None or t2[1] is None):
            return t1 if t2[1] is None else t2
        raise Untranslatable('loop state changes its type (%s / %s)' % (t1, t2))

    def from_term(self, ty, term):
        if ty[0] in ('int', 'text', 'bool', 'bytes'):
            return V(ty[0], term)
        if ty[0] in ('opt', 'obj'):
            if ty[1] is None:
                raise Untranslatable('optional object of unknown class in a loop')
            v = V(ty[0], term)
            v.cls = ty[1]
            return v
        if ty[0] == 'list':
            if ty[1] is None:
                raise Untranslatable('list of unknown element type in a loop')
            x = self.fresh('x')
            return mk_list(term, x, ident_elem(ty[1], x, ty[2]))
        if ty[0] == 'members':
            d = mk_dict([('splice', term, [])])
            d.in_loop = True
            d.vals = {}
            return d
        raise Untranslatable('loop state')

    def to_term(self, v, ty, node):
        if v.ty == 'undef':
            raise U(node, 'loop state may be unbound')
        if ty[0] in ('int', 'text', 'bool', 'bytes'):
            if v.ty != ty[0]:
                raise U(node, 'loop state changes its type')
            return v.term
        if ty[0] == 'opt':
            if v.ty == 'obj':
                return '(some %s)' % v.term
            if v.ty == 'opt':
                return v.term
        if ty[0] == 'obj' and v.ty == 'obj':
            return v.term
        if ty[0] == 'list' and v.ty == 'list':
            return '([] : List %s)' % {'int': 'Nat', 'text': 'Text', 'j': 'J'}.get(ty[1], CLASSES.get(ty[2], ('?',))[0]) if v.var is None else list_term(v)
        if ty[0] == 'members' and v.ty == 'dict':
            if not getattr(v, 'in_loop', False) and not (v.items and v.items[0][0] == 'splice'):
                raise U(node, 'dictionary rebuilt in a loop')
            new = v.items[1:]
            keys, fams, unknown = item_keys(new)
            if keys or unknown:
                raise U(node, 'a loop sets a member with a fixed or unknown key')
            if len(fams) != len(set(fams)) or any(f1 != f2 and (f1.startswith(f2)) for f1 in fams for f2 in fams):
                raise U(node, 'computed keys of a loop may collide')
            return '(%s ++ %s)' % (v.items[0][1], render_items(new)) if new else v.items[0][1]
        raise U(node, 'loop state of type %s where %s is expected' % (v.ty, ty[0]))

    def state_tuple(self, keys, types, node):
        return tuple_term([self.to_term(self.env[k], t, node) for k, t in zip(keys, types)])

    def enter_state(self, keys, types, st):
        for i, (k, t) in enumerate(zip(keys, types)):
            self.env[k] = self.from_term(t, proj(st, i, len(keys)))
            self.lower.pop(k, None)
        self.refine = {}

    def leave_state(self, keys, types, res, node, fams=()):
        for i, (k, t) in enumerate(zip(keys, types)):
            term = proj(res, i, len(keys))
            if t[0] == 'members':
                self.splice(k, term, [('family', f) for f in fams], node)
            else:
                v = self.from_term(t, term)
                self.set_var(k, v)

    def dict_set(self, dk, d, keynode, v, node):
        if getattr(d, 'in_loop', False):
            # D[lit + str(i)] = v   with i the loop variable
            ok = (isinstance(keynode, ast.BinOp) and isinstance(keynode.op, ast.Add) and isinstance(keynode.left, ast.Constant)
                  and isinstance(keynode.left.value, str) and keynode.left.value != ''
                  and isinstance(keynode.right, ast.Call) and self.is_global(keynode.right.func, ('builtins', 'str'))
                  and len(keynode.right.args) == 1 and not keynode.right.keywords and isinstance(keynode.right.args[0], ast.Name)
                  and keynode.right.args[0].id == self.loop_var and self.env.get(self.loop_var) is not None
                  and self.env[self.loop_var].ty == 'int' and getattr(self.env[self.loop_var], 'is_loop_var', False))
            if not ok:
                raise U(node, 'a member set in a loop must have the key <literal> + str(<loop variable>)')
            fam = keynode.left.value
            _, fams, _ = item_keys(d.items)
            if any(f.startswith(fam) or fam.startswith(f) for f in fams):
                raise U(node, 'computed keys may collide')
            kt = self.eval(keynode)
            nd = mk_dict(d.items + [('splice', '[(%s, %s)]' % (kt.term, jval(v, node)), [('family', fam)])])
            nd.in_loop = True
            nd.vals = {}
            self.env[dk] = nd
            return
        return self._dict_set_plain(dk, d, keynode, v, node)

    # ---- for
    def exec_for(self, st):
        if st.orelse or not isinstance(st.target, ast.Name):
            raise U(st, 'for loop')
        var = st.target.id
        body = pytrans.strip_docstring(st.body)
        it = st.iter
        if isinstance(it, ast.Call) and self.is_global(it.func, ('builtins', 'range')):
            self.plain_call(it)
            if len(it.args) not in (1, 2):
                raise U(st, 'range arguments')
            # the getInts idiom of trans_sections
            if len(it.args) == 1 and len(body) == 1 and isinstance(body[0], ast.Expr) and isinstance(body[0].value, ast.Call) \
                    and isinstance(body[0].value.func, ast.Attribute) and body[0].value.func.attr == 'append' \
                    and len(body[0].value.args) == 1 and self.read_call(body[0].value.args[0]):
                k = self.key_of(body[0].value.func.value)
                old = self.env.get(k)
                ts.Exec.exec_for(self, st)
                cnt = it.args[0]
                if old is not None and old.ty == 'list' and old.base == '[]' and isinstance(cnt, ast.Constant) and isinstance(cnt.value, int):
                    self.env[k].length = cnt.value
                return None
            n0 = len(self.binds)
            args = [self.eval(a) for a in it.args]
            if any(a.ty != 'int' for a in args) or len(self.binds) != n0:
                raise U(st, 'range bounds')
            if len(args) == 1 and var not in names_in(ast.Module(body=body, type_ignores=[])) and self.repeat_idiom(st, var, body, args[0]):
                return None
            lo = '0' if len(args) == 1 else args[0].term
            return self.for_range(st, var, body, lo, args[-1].term)
        src = self.eval(it)
        if src.ty != 'list':
            raise U(st, 'loop over a %s' % src.ty)
        if self.fold_idiom(st, var, body, src) or self.map_idiom(st, var, body, src):
            return None
        raise U(st, 'for loop shape')

    def repeat_idiom(self, st, var, body, n):
        """for _ in range(n): [x = …]*; L.append(e)"""
        last = body[-1]
        if not (isinstance(last, ast.Expr) and isinstance(last.value, ast.Call) and isinstance(last.value.func, ast.Attribute)
                and last.value.func.attr == 'append' and len(last.value.args) == 1 and not last.value.keywords):
            return False
        lk = self.key_of(last.value.func.value)
        lst = self.env.get(lk)
        if lst is None or lst.ty != 'list' or self.mode != 'rd':
            return False
        ak = self.assigned_keys(body)
        if [k for k in ak if k in self.env] != [lk] or not all(isinstance(s, (ast.Assign, ast.AnnAssign)) for s in body[:-1]):
            return False
        if lst.shared or (lst.var is not None and lst.elem.term != lst.var):
            raise U(st, 'append to a mapped or shared list')
        sub = self.fork()
        del sub.env[lk]
        for s in body[:-1]:
            sub.exec_stmt(s)
        e = sub.eval(last.value.args[0])
        if e.ty not in ('int', 'text', 'obj') or not sub.binds:
            return False
        xs = self.bind('rdRepeat %s %s' % (prog(sub.binds, e.term), n.term), 'list')
        x = self.fresh('x')
        base = xs.term if lst.base == '[]' else '(%s ++ %s)' % (lst.base, xs.term)
        if lst.var is not None and (lst.elem.ty != e.ty or getattr(lst.elem, 'cls', None) != getattr(e, 'cls', None)):
            raise U(st, 'append of another element type')
        self.set_var(lk, mk_list(base, x, ident_elem(e.ty, x, getattr(e, 'cls', None))))
        for k in ak:
            if k != lk:
                self.env[k] = V('undef')
        self.env[var] = V('undef')
        return True

    def for_range(self, st, var, body, lo, hi):
        ak = self.assigned_keys(body)
        keys = [k for k in self.env if k in ak and k != var]
        if not keys:
            raise U(st, 'loop without effect')
        i = self.fresh('i')
        c0 = self.counter[0]

        def run(types, stv):
            ex = self.fork()
            ex.loop_var = var
            iv = V('int', i)
            iv.is_loop_var = True
            if types is None:
                for k in keys:
                    if ex.env[k].ty == 'dict':
                        ex.env[k] = ex.from_term(('members',), '[]')
            else:
                ex.enter_state(keys, types, stv)
            ex.env[var] = iv
            if ex.exec_block(body) is not None:
                raise U(st, 'return inside a loop')
            return ex
        t = run(None, None)
        types = [self.merge_ty(self.ty_of(self.env[k]), self.ty_of(t.env[k])) for k in keys]
        self.counter[0] = c0
        i = self.fresh('i')
        stv = self.fresh('st')
        ex = run(types, stv)
        fams = []
        for k, ty in zip(keys, types):
            if ty[0] == 'members':
                fams += item_keys(ex.env[k].items[1:])[1]
        bodyprog = prog(ex.binds, ex.state_tuple(keys, types, st)) if ex.binds else 'pure %s' % ex.state_tuple(keys, types, st)
        init = tuple_term(['[]' if ty[0] == 'members' else self.to_term(self.env[k], ty, st) for k, ty in zip(keys, types)])
        wrap = 'forRangeRd %s %s (fun %s %s => %s) %s' % (lo, hi, i, stv, bodyprog, init)
        if self.mode != 'rd':
            raise U(st, 'counted loop outside a reader')
        res = self.bind(wrap, 'tuple')
        self.leave_state(keys, types, res.term, st, fams)
        for k in ak:
            if k not in keys:
                self.env[k] = V('undef')
        self.env[var] = V('undef')
        return None

    def fold_idiom(self, st, var, body, src):
        """for x in L: acc += e(x)   (acc a str)"""
        if not (len(body) == 1 and isinstance(body[0], ast.AugAssign) and isinstance(body[0].op, ast.Add)):
            return False
        k = self.key_of(body[0].target)
        acc = self.env.get(k)
        if acc is None or acc.ty != 'text' or src.var is None:
            return False
        a, x = self.fresh('a'), src.var
        sub = self.fork()
        sub.env[var] = src.elem
        sub.env[k] = V('text', a)
        sub.exec_stmt(body[0])
        if sub.binds:
            raise U(st, 'failing step inside a concatenation loop')
        self.set_var(k, V('text', '(%s.foldl (fun %s %s => %s) %s)' % (src.base, a, x, sub.env[k].term, acc.term)))
        self.env[var] = V('undef')
        return True

    item_fn = None             # (parameter, program, class) of the last per-item dictionary loop
    abstract_item = None       # Lean function that stands for the loop body (the model's function, generated and tied separately)

    def map_idiom(self, st, var, body, src):
        """for x in L: D = OrderedDict(); …; M.append(D)"""
        last = body[-1]
        if not (isinstance(last, ast.Expr) and isinstance(last.value, ast.Call) and isinstance(last.value.func, ast.Attribute)
                and last.value.func.attr == 'append' and len(last.value.args) == 1 and not last.value.keywords):
            return False
        mk = self.key_of(last.value.func.value)
        m = self.env.get(mk)
        if m is None or m.ty != 'list' or m.base != '[]' or m.shared or src.var is None or src.elem.ty != 'obj' or src.elem.term != src.var:
            return False
        ak = self.assigned_keys(body)
        if [k for k in ak if k in self.env and k != var] != [mk]:
            raise U(st, 'the loop changes variables of the enclosing function')
        c = self.fresh('c')
        sub = self.fork()
        sub.mode = 'opt'
        sub.named_methods = getattr(self, 'named_methods', ())
        sub.env[var] = ident_elem('obj', c, src.elem.cls)
        del sub.env[mk]
        if sub.exec_block(body[:-1]) is not None:
            raise U(st, 'return inside a loop')
        d = sub.eval(last.value.args[0])
        if d.ty != 'dict':
            raise U(st, 'the loop must append the dictionary it built')
        self.item_fn = (c, prog(sub.binds, dict_j(d)) if sub.binds else 'pure %s' % dict_j(d), src.elem.cls)
        fn = self.abstract_item or '(fun %s => %s)' % (c, self.item_fn[1])
        if self.mode != 'rd':
            raise U(st, 'loop that may fail outside a reader')
        js = self.bind('rdOfOption (optAllJ (%s.map %s))' % (src.base, fn), 'list')
        x = self.fresh('x')
        self.set_var(mk, mk_list(js.term, x, ident_elem('j', x)))
        for k in ak:
            if k != mk:
                self.env[k] = V('undef')
        self.env[var] = V('undef')
        return True

    # ---- while
    def pad_idiom(self, st):
        """while len(L) < n: L.append(e)"""
        t = st.test
        body = pytrans.strip_docstring(st.body)
        if not (isinstance(t, ast.Compare) and len(t.ops) == 1 and isinstance(t.ops[0], ast.Lt) and isinstance(t.left, ast.Call)
                and self.is_global(t.left.func, ('builtins', 'len')) and len(t.left.args) == 1 and not t.left.keywords
                and len(body) == 1 and isinstance(body[0], ast.Expr) and isinstance(body[0].value, ast.Call)
                and isinstance(body[0].value.func, ast.Attribute) and body[0].value.func.attr == 'append'
                and len(body[0].value.args) == 1 and not body[0].value.keywords
                and ast.dump(body[0].value.func.value) == ast.dump(t.left.args[0])):
            return False
        k = self.key_of(t.left.args[0])
        lst = self.env.get(k)
        if lst is None or lst.ty != 'list' or lst.shared:
            return False
        n0 = len(self.binds)
        n = self.eval(t.comparators[0])
        e = self.eval(body[0].value.args[0])
        if n.ty != 'int' or e.ty not in ('int', 'text') or len(self.binds) != n0 or k in [self.key_of(x) for x in ast.walk(body[0].value.args[0])
                                                                                   if isinstance(x, (ast.Name, ast.Attribute))]:
            raise U(st, 'padding loop')
        if lst.var is not None and (lst.elem.ty != e.ty or lst.elem.term != lst.var):
            raise U(st, 'padding a mapped list or with another element type')
        x = self.fresh('x')
        base = '([] : List %s)' % {'int': 'Nat', 'text': 'Text'}[e.ty] if lst.var is None else lst.base
        self.set_var(k, mk_list('(padTo %s %s %s)' % (n.term, e.term, base), x, ident_elem(e.ty, x)))
        return True

    def loop_body(self, stmts, finish):
        """program of a while-loop body: statements, the last of which may be an if-chain with `break`s -> Rd (state × continue?)"""
        stmts = pytrans.strip_docstring(stmts)

        def seq(tail):
            if not self.binds:
                return tail
            return '(do ' + '; '.join('let %s ← %s' % (v, r) for v, r, _ in self.binds) + '; %s)' % tail
        for idx, st in enumerate(stmts):
            has_break = any(isinstance(n, (ast.Break, ast.Continue)) for n in ast.walk(st))
            if not has_break:
                if self.exec_stmt(st) is not None:
                    raise U(st, 'return inside a loop')
                continue
            if idx != len(stmts) - 1:
                raise U(st, 'break before the end of the loop body')
            if isinstance(st, ast.Break):
                return seq(finish(self, False, st))
            if isinstance(st, ast.If):
                c = self.cond(st.test, 'prop')
                a, b = self.fork(), self.fork()
                a.learn_bounds(st.test)
                for f in (a, b):
                    f.base_consumed = self.base_consumed + self.consumed
                    f.named_methods = getattr(self, 'named_methods', ())
                pa = a.loop_body(st.body, finish)
                pb = b.loop_body(st.orelse, finish)
                return seq('if %s then %s else %s' % (c, pa, pb))
            raise U(st, 'break or continue in a %s' % type(st).__name__)
        return seq(finish(self, True, stmts[-1] if stmts else None))

    def exec_while(self, st):
        if st.orelse:
            raise U(st, 'while … else')
        if self.pad_idiom(st):
            return None
        if self.mode != 'rd':
            raise U(st, 'while loop outside a reader')
        body = pytrans.strip_docstring(st.body)
        ak = self.assigned_keys(body)
        keys = [k for k in self.env if k in ak]
        if not keys:
            raise U(st, 'loop without state')
        c0 = self.counter[0]
        leaves = []

        def trial_finish(ex, cont, node):
            leaves.append(ex)
            return 'pure ()'
        t = self.fork()
        for k in keys:
            if t.env[k].ty == 'dict':
                raise U(st, 'dictionary changed in a while loop')
        t.loop_body(body, trial_finish)
        types = [self.ty_of(self.env[k]) for k in keys]
        for ex in leaves:
            types = [self.merge_ty(ty, self.ty_of(ex.env[k])) for ty, k in zip(types, keys)]
        # layout of the state tuple (any order is sound; a canonical one keeps harmless reorderings provable):
        # objects in the order of the class table, then the other variables in the order of their first binding
        cls_order = list(CLASSES)
        rank = {k: ((0, cls_order.index(ty[1])) if ty[0] in ('opt', 'obj') and ty[1] in cls_order else (1, keys.index(k))) for k, ty in zip(keys, types)}
        order = sorted(range(len(keys)), key=lambda i: rank[keys[i]])
        keys, types = [keys[i] for i in order], [types[i] for i in order]
        self.counter[0] = c0
        rem = self.bind('remaining', 'int')
        stv = self.fresh('st')

        def finish(ex, cont, node):
            if cont and ex.base_consumed + ex.consumed < 1:
                raise U(node or st, 'a path through the loop continues without reading: termination is not evident')
            return 'pure (%s, %s)' % (ex.state_tuple(keys, types, node or st), 'true' if cont else 'false')
        cx = self.fork()
        cx.enter_state(keys, types, stv)
        ctest = cx.cond(st.test, 'prop')
        if cx.binds:
            raise U(st, 'read in a loop condition')
        bx = self.fork()
        bx.named_methods = getattr(self, 'named_methods', ())
        bx.enter_state(keys, types, stv)
        bodyprog = bx.loop_body(body, finish)
        init = tuple_term([self.to_term(self.env[k], ty, st) for k, ty in zip(keys, types)])
        res = self.bind('rdWhile (fun %s => %s) (fun %s => %s) (%s + 1) %s' % (stv, ctest, stv, bodyprog, rem.term, init), 'tuple')
        self.leave_state(keys, types, res.term, st)
        for k in ak:
            if k not in keys:
                self.env[k] = V('undef')
        return None


def check_get_value(mod):
    fn = pytrans.find_def(mod.tree, 'get_value')
    a = fn.args
    if a.vararg or a.kwarg or a.kwonlyargs or a.posonlyargs or a.defaults or fn.decorator_list or len(a.args) != 3:
        raise U(fn, 'signature of get_value')
    p = [x.arg for x in a.args]
    body = pytrans.strip_docstring(fn.body)
    want = ast.parse('return int.from_bytes(%s[%s: %s + %s], byteorder="big")' % (p[0], p[1], p[1], p[2])).body[0]
    if len(body) != 1 or ast.dump(body[0]) != ast.dump(want) or 'int' in mod.names:
        raise U(fn, 'get_value is not `int.from_bytes(data[start: start + end], byteorder="big")`')


def class_init(mod, cls):
    want = ['__init__'] + [m for (c, m) in METHODS if c == cls]
    cnode, methods = plain_class(mod, cls, want)
    init = methods.get('__init__')
    if init is None:
        raise U(cnode, 'class %s has no __init__' % cls)
    if CLASSES[cls][1] is not None:
        check_plain_args(init, ['self', init.args.args[1].arg if len(init.args.args) == 2 else 'stream'])
    else:
        a = init.args
        if a.vararg or a.kwarg or a.kwonlyargs or a.posonlyargs or a.defaults or a.kw_defaults or init.decorator_list:
            raise U(init, 'argument list of %s.__init__' % cls)
    return init


# ---------------------------------------------------------------------------------------------------------------------
# the targets

def do_block(binds, tail, indent='  '):
    lines = ['do']
    for v, r, _ in binds:
        lines.append('%slet %s ← %s' % (indent, v, r))
    lines.append(indent + tail)
    return '\n'.join(lines)


def finish_object(ex, cls, node):
    lean, _, fields = CLASSES[cls]
    parts = []
    for py, lf, kind in fields:
        v = ex.env.get(('self', py))
        if v is not None and v.ty == 'undef':
            raise U(node, 'attribute %s may be unset' % py)
        if kind == 'opttext':
            if v is None:
                parts.append('%s := none' % lf)
            elif v.ty == 'text':
                parts.append('%s := some %s' % (lf, v.term))
            else:
                raise U(node, 'attribute %s has type %s' % (py, v.ty))
            continue
        if v is None:
            raise U(node, 'attribute %s is not set' % py)
        if kind in ('int', 'text'):
            if v.ty != kind:
                raise U(node, 'attribute %s has type %s' % (py, v.ty))
            parts.append('%s := %s' % (lf, v.term))
        elif kind.startswith('opt:'):
            if v.ty == 'obj' and v.cls == kind[4:]:
                parts.append('%s := some %s' % (lf, v.term))
            elif v.ty == 'opt' and v.cls in (None, kind[4:]):
                parts.append('%s := %s' % (lf, v.term))
            else:
                raise U(node, 'attribute %s has type %s' % (py, v.ty))
        elif kind.startswith('list:'):
            if v.ty != 'list' or (v.var is not None and (v.elem.ty != 'obj' or v.elem.cls != kind[5:])):
                raise U(node, 'attribute %s has type %s' % (py, v.ty))
            parts.append('%s := %s' % (lf, list_term(v)))
    return '({ %s } : %s)' % (', '.join(parts), lean)


def run_init(ex, stmts, cls, depth=1):
    """statements of a reader `__init__` -> program; `if c: print(…, file=sys.stderr); return` ends the object early"""
    ind = '  ' * depth
    for i, st in enumerate(stmts):
        if isinstance(st, ast.If) and not st.orelse:
            body = pytrans.strip_docstring(st.body)
            if body and isinstance(body[-1], ast.Return):
                if body[-1].value is not None:
                    raise U(st, '__init__ returns a value')
                c = ex.cond(st.test, 'prop')
                a = ex.fork()
                if a.exec_block(body[:-1]) is not None or a.binds:
                    raise U(st, 'read before an early return')
                b = ex.fork()
                tail = run_init(b, stmts[i + 1:], cls, depth + 1)
                return do_block(ex.binds, 'if %s then pure %s\n%selse %s' % (c, finish_object(a, cls, st), ind, tail), ind)
        if isinstance(st, ast.Return):
            if st.value is not None or i != len(stmts) - 1:
                raise U(st, 'return in __init__')
            break
        if any(isinstance(n, ast.Return) for n in ast.walk(st)):
            raise U(st, 'return inside a compound statement of __init__')
        if ex.exec_stmt(st) is not None:
            raise U(st, 'return in __init__')
    return do_block(ex.binds, 'pure %s' % finish_object(ex, cls, stmts[-1] if stmts else None), ind)


def translate_reader(repo, cls):
    mod = module(repo, SRC_PY)
    init = class_init(mod, cls)
    ex = SX(mod, fn_locals=assigned_names(init.body))
    ex.env['self'] = V('self')
    ex.env[init.args.args[1].arg] = V('stream')
    return run_init(ex, pytrans.strip_docstring(init.body), cls)


def translate_flattened_size(repo):
    mod = module(repo, SRC_PY)
    _, methods = plain_class(mod, 'Callout', ['__init__', 'flattenedSize'])
    fn = methods.get('flattenedSize')
    if fn is None:
        raise Untranslatable('no method Callout.flattenedSize')
    a = fn.args
    if a.vararg or a.kwarg or a.kwonlyargs or a.posonlyargs or a.defaults or len(a.args) != 1:
        raise U(fn, 'argument list of flattenedSize')
    ex = SX(mod, fn_locals=assigned_names(fn.body), mode='opt')
    me = ident_elem('obj', 'c', 'Callout')
    ex.env[a.args[0].arg] = me
    r = ex.exec_block(fn.body)
    if r is None or r[1].ty != 'int' or ex.binds:
        raise U(fn, 'flattenedSize must return a number')
    return 'fun c =>\n  %s' % r[1].term


SRC_PARAMS = [('int', 'h.id'), ('int', 'h.len'), ('int', 'h.ver'), ('int', 'h.sub'), ('int', 'h.comp'), ('text', 'creator')]


class SrcX(SX):
    """executor inside the methods of class SRC"""
    named_methods = ('getErrorDetails', 'getCallouts', 'getProcedureDesc')
    methods = None
    repo = None

    def fork(self):
        e = SrcX(self.mod, self.counter, self.fn_locals, self.mode)
        e.env = dict(self.env)
        e.refine = dict(self.refine)
        e.lower = dict(self.lower)
        e.methods, e.repo, e.loop_var, e.abstract_item = self.methods, self.repo, self.loop_var, self.abstract_item
        e.fn_node = getattr(self, 'fn_node', None)
        return e

    def callee(self, name, nparams, node):
        fn = self.methods.get(name)
        if fn is None:
            raise U(node, 'no method %s' % name)
        a = fn.args
        if a.vararg or a.kwarg or a.kwonlyargs or a.posonlyargs or a.defaults or a.kw_defaults or fn.decorator_list or len(a.args) != nparams + 1:
            raise U(fn, 'argument list of %s' % name)
        return fn, [x.arg for x in a.args]

    def self_reads(self, names, node):
        """terms of the attributes of `self` that the named methods read (methods they call on self included, once)"""
        attrs, seen, todo = [], set(), list(names)
        while todo:
            nm = todo.pop(0)
            if nm in seen:
                continue
            seen.add(nm)
            fn = self.methods.get(nm)
            if fn is None:
                raise U(node, 'no method %s' % nm)
            me = fn.args.args[0].arg
            for n in ast.walk(fn):
                if isinstance(n, ast.Attribute) and isinstance(n.value, ast.Name) and n.value.id == me:
                    if not isinstance(n.ctx, ast.Load):
                        raise U(n, '%s stores an attribute' % nm)
                    if n.attr in self.methods:
                        todo.append(n.attr)
                    elif n.attr not in attrs:
                        attrs.append(n.attr)
        out = []
        for a in attrs:
            v = self.env.get(('self', a))
            if v is None or v.ty == 'undef':
                raise U(node, 'attribute %s, read by %s, is not set' % (a, names[0]))
            out.append(v)
        return out

    def dict_param_key(self, fn, param, node):
        """the literal key of the only statement of `fn` that touches its dictionary parameter: `param[KEY] = …`"""
        uses = [n for n in ast.walk(fn) if isinstance(n, ast.Name) and n.id == param]
        stores = [n for n in ast.walk(fn) if isinstance(n, ast.Assign) and len(n.targets) == 1 and isinstance(n.targets[0], ast.Subscript)
                  and isinstance(n.targets[0].value, ast.Name) and n.targets[0].value.id == param]
        if len(uses) != 1 or len(stores) != 1:
            raise U(node, '%s must use its dictionary parameter in exactly one statement `%s[KEY] = …`' % (fn.name, param))
        return pytrans.const_str(stores[0].targets[0].slice), stores[0]

    def dict_arg(self, argnode, node):
        k = self.key_of(argnode) if isinstance(argnode, (ast.Name, ast.Attribute)) else None
        if k is None or k not in self.env or self.env[k].ty != 'dict':
            raise U(node, 'a dictionary variable is expected as argument')
        return k

    def call_getErrorDetails(self, st, call):
        self.plain_call(call, 3)
        fn, params = self.callee('getErrorDetails', 3, st)
        key, _ = self.dict_param_key(fn, params[1], st)
        dk = self.dict_arg(call.args[0], st)
        a, b = self.eval(call.args[1]), self.eval(call.args[2])
        reads = self.self_reads(['getErrorDetails'], st)
        if a.ty != 'text' or b.ty != 'text' or len(reads) != 1 or reads[0].ty != 'list' or reads[0].var is None \
                or reads[0].elem.ty != 'int' or reads[0].elem.term != reads[0].var or self.mode != 'rd':
            raise U(st, 'getErrorDetails: arguments, or the attributes it reads')
        v = self.bind('(errDetailsCall env.registry %s %s %s).rd %s' % (a.term, b.term, reads[0].base, text_lit(key)), 'members')
        self.splice(dk, v.term, [key], st)

    def call_getProcedureDesc(self, st, call):
        self.plain_call(call, 2)
        fn, params = self.callee('getProcedureDesc', 2, st)
        dk = self.dict_arg(call.args[1], st)
        p = self.eval(call.args[0])
        reads = self.self_reads(['getProcedureDesc'], st)
        if p.ty != 'text' or len(reads) != 1 or reads[0].ty != 'text' or reads[0].term != 'creator':
            raise U(st, 'getProcedureDesc: arguments, or the attributes it reads')
        self.splice(dk, '(procDescCall env creator %s)' % p.term, None, st)

    def call_getCallouts(self, st, call):
        self.plain_call(call, 2)
        key, _ = callouts_parts(self.repo)[0:2]
        dk = self.dict_arg(call.args[0], st)
        cfg = self.eval(call.args[1])
        if cfg.ty != 'config' or self.mode != 'rd':
            raise U(st, 'getCallouts arguments')
        v = self.bind('decodeCallouts T env creator allow', 'j')
        self._dict_set_plain(dk, self.env[dk], ast.copy_location(ast.Constant(key), st), v, st)

    def parse_idiom(self, stmts, i):
        """V = self.parse(L); if V != '' and V != 'null': D[K] = json.loads(V)"""
        st = stmts[i]
        if not (isinstance(st, ast.Assign) and len(st.targets) == 1 and isinstance(st.targets[0], ast.Name) and isinstance(st.value, ast.Call)
                and isinstance(st.value.func, ast.Attribute) and st.value.func.attr == 'parse' and isinstance(st.value.func.value, ast.Name)
                and st.value.func.value.id == 'self' and self.env.get('self') is not None and self.env['self'].ty == 'self'):
            return 0
        v = st.targets[0].id
        want = ast.parse("if %s != '' and %s != 'null':\n    D[K] = json.loads(%s)" % (v, v, v)).body[0]
        nxt = stmts[i + 1] if i + 1 < len(stmts) else None
        ok = isinstance(nxt, ast.If) and not nxt.orelse and ast.dump(nxt.test) == ast.dump(want.test) and len(nxt.body) == 1 \
            and isinstance(nxt.body[0], ast.Assign) and len(nxt.body[0].targets) == 1 and isinstance(nxt.body[0].targets[0], ast.Subscript) \
            and ast.dump(nxt.body[0].value) == ast.dump(want.body[0].value) and self.is_global(nxt.body[0].value.func.value, ('module', 'json'))
        uses = sum(1 for n in ast.walk(self.fn_node) if isinstance(n, ast.Name) and n.id == v)
        if not ok or uses != 4:
            raise U(st, 'the result of parse() must be used as `if V != \'\' and V != \'null\': D[K] = json.loads(V)` and nowhere else')
        self.plain_call(st.value, 1)
        self.callee('parse', 1, st)
        tgt = nxt.body[0].targets[0]
        dk = self.dict_arg(tgt.value, st)
        key = pytrans.const_str(tgt.slice)
        lst = self.eval(st.value.args[0])
        reads = self.self_reads(['parse'], st)
        if lst.ty != 'list' or (lst.var is not None and lst.elem.ty != 'text') or self.mode != 'rd' or len(reads) != 2 \
                or sorted(r.ty for r in reads) != ['text', 'text'] or [r.term for r in reads].count('creator') != 1:
            raise U(st, 'parse: argument, or the attributes it reads')
        ascii_ = [r for r in reads if r.term != 'creator'][0]
        d = self.bind('(srcDetails env creator %s %s).rd %s' % (ascii_.term, list_term(lst), text_lit(key)), 'members')
        self.splice(dk, d.term, [key], st)
        self.env[v] = V('undef')
        return 2


def src_class(repo):
    mod = module(repo, SRC_PY)
    _, methods = plain_class(mod, 'SRC')
    init = methods.get('__init__')
    if init is None:
        raise Untranslatable('SRC has no __init__')
    a = init.args
    if a.vararg or a.kwarg or a.kwonlyargs or a.posonlyargs or a.defaults or a.kw_defaults or len(a.args) != 8:
        raise U(init, 'argument list of SRC.__init__')
    ex = SrcX(mod, fn_locals=assigned_names(init.body))
    ex.methods, ex.repo = methods, repo
    ex.env[a.args[0].arg] = V('self')
    if a.args[0].arg != 'self':
        raise U(init, 'first parameter must be called self')
    ex.env[a.args[1].arg] = V('stream')
    for p, (ty, term) in zip(a.args[2:], SRC_PARAMS):
        ex.env[p.arg] = V(ty, term)
    if ex.exec_block(init.body) is not None or ex.binds:
        raise U(init, 'SRC.__init__ must only store its arguments and constants')
    ex.env = {k: v for k, v in ex.env.items() if isinstance(k, tuple) or k == 'self'}
    return ex, methods


_callouts = {}


def callouts_parts(repo):
    """(key under which getCallouts stores its result, J term of that result, binds, per-item function) — cached per repo text"""
    if repo in _callouts:
        r = _callouts[repo]
        if isinstance(r, Exception):
            raise r
        return r
    try:
        ex, methods = src_class(repo)
        fn = methods.get('getCallouts')
        if fn is None:
            raise Untranslatable('no method getCallouts')
        a = fn.args
        if a.vararg or a.kwarg or a.kwonlyargs or a.posonlyargs or a.defaults or a.kw_defaults or fn.decorator_list or len(a.args) != 3 \
                or a.args[0].arg != 'self':
            raise U(fn, 'argument list of getCallouts')
        key, store = ex.dict_param_key(fn, a.args[1].arg, fn)
        body = pytrans.strip_docstring(fn.body)
        if body[-1] is not store:
            raise U(fn, 'getCallouts must end in storing its result in the dictionary it was given')
        ex.fn_locals = assigned_names(fn.body)
        ex.fn_node = fn
        ex.env[a.args[2].arg] = V('config')
        ex.abstract_item = '(calloutJson T env creator allow)'
        if ex.exec_block(body[:-1]) is not None:
            raise U(fn, 'return in getCallouts')
        od = ex.eval(store.value)
        if od.ty != 'dict' or ex.item_fn is None or ex.item_fn[2] != 'Callout':
            raise U(fn, 'getCallouts must store the dictionary it built from a loop over the callouts')
        r = (key, dict_j(od), ex.binds, ex.item_fn)
    except Exception as e:
        _callouts[repo] = e
        raise
    _callouts[repo] = r
    return r


def translate_decodeCallouts(repo):
    key, od, binds, item = callouts_parts(repo)
    return ts.render_do(['T', 'env', 'creator', 'allow'], binds, od)


def translate_calloutJson(repo):
    key, od, binds, item = callouts_parts(repo)
    return 'fun T env creator allow %s =>\n  %s' % (item[0], item[1])


def translate_decodeSRC(repo):
    ex, methods = src_class(repo)
    fn = methods.get('toJSON')
    if fn is None:
        raise Untranslatable('no method toJSON')
    a = fn.args
    if a.vararg or a.kwarg or a.kwonlyargs or a.posonlyargs or a.defaults or a.kw_defaults or fn.decorator_list or len(a.args) != 2 \
            or a.args[0].arg != 'self':
        raise U(fn, 'argument list of toJSON')
    ex.fn_locals = assigned_names(fn.body)
    ex.fn_node = fn
    ex.env[a.args[1].arg] = V('config')
    r = ex.exec_block(fn.body)
    if r is None or r[1].ty != 'dict':
        raise U(fn, 'toJSON must end in returning the dictionary it built')
    rc = getattr(r[1], 'vals', {}).get(REFCODE_KEY)
    if rc is None or rc.ty != 'text':
        raise U(fn, 'the member %r (read by peltool.py) must be set unconditionally to a string' % REFCODE_KEY)
    return ts.render_do(['T', 'env', 'h', 'creator', 'allow'], ex.binds, '(%s,\n    %s)' % (dict_j(r[1]), rc.term))


TARGETS = [
    ('readFru', 'Rd Fru', lambda repo: translate_reader(repo, 'FRUIdentity')),
    ('readPce', 'Rd Pce', lambda repo: translate_reader(repo, 'PCEIdentity')),
    ('readMru', 'Rd Mru', lambda repo: translate_reader(repo, 'MRU')),
    ('readCallout', 'Rd Callout', lambda repo: translate_reader(repo, 'Callout')),
    ('calloutFlattenedSize', 'Callout → Nat', translate_flattened_size),
    ('calloutJson', 'Tables → SrcEnv → Text → Bool → Callout → Option J', translate_calloutJson),
    ('decodeCallouts', 'Tables → SrcEnv → Text → Bool → Rd J', translate_decodeCallouts),
    ('decodeSRC', 'Tables → SrcEnv → SecHdr → Text → Bool → Rd (J × Text)', translate_decodeSRC),
]


def generate(repo, verif):
    _modules.clear()
    _callouts.clear()
    gen = pytrans.GenFile(verif, 'GenSrc', ['PelModel.Src', 'PelModel.TransSrc'], 'modules/pel/peltool/src.py, pel_types.py')
    for name, ty, fn in TARGETS:
        gen.emit(name, ty, (lambda fn=fn: fn(repo)))
    return gen


if __name__ == '__main__':
    import sys
    g = generate(os.environ.get('VERIF_REPO', '/repo'), os.path.dirname(os.path.dirname(os.path.abspath(__file__))))
    sys.stdout.write(g.render())
