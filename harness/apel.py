"""
Abstract PELs: generator, wire encoding for the Lean driver, an independent Python byte encoder (cross-checked
against the Lean `enc`), the plugin-environment fixtures and the adapter that runs the REAL decoder in-process.
"""
import importlib
import io
import json
import os
import shutil
import struct
import sys
import tempfile
from contextlib import redirect_stderr, redirect_stdout

import common
import jsonio
from common import tb, tt, tlist

PRINTABLE = bytes(range(0x20, 0x7f))
KNOWN_IDS = ['DH', 'SW', 'LR', 'HM', 'EP', 'IE', 'MI', 'CH', 'EI']
SPECIAL = {'PH', 'UH', 'PS', 'SS', 'EH', 'MT', 'LP', 'UD', 'ED'}


# ------------------------------------------------------------------ generation

def bcd(n):
    return ((n // 10) << 4) | (n % 10)


def gen_ts(rng):
    if rng.random() < 0.2:
        return bytes(rng.randrange(256) for _ in range(8))
    y = rng.randrange(1990, 2100)
    return bytes([bcd(y // 100), bcd(y % 100), bcd(rng.randrange(1, 13)), bcd(rng.randrange(1, 29)), bcd(rng.randrange(24)),
                  bcd(rng.randrange(60)), bcd(rng.randrange(60)), bcd(rng.randrange(100))])


def gen_text(rng, n, printable=True):
    """fixed-width text field: printable ASCII with NUL padding (sometimes leading NULs / all NUL / full)"""
    k = rng.choice([0, 1, n // 2, n - 1, n, rng.randrange(0, n + 1)]) if n else 0
    body = bytes(rng.choice(PRINTABLE) for _ in range(k))
    if rng.random() < 0.1 and k + 1 < n:
        return b'\0' + body + b'\0' * (n - k - 1)
    return body + b'\0' * (n - k)


def bnum(rng, bits):
    m = 1 << bits
    return rng.choice([0, 1, m - 1, m // 2, m // 2 - 1, rng.randrange(m), rng.randrange(m)])


def gen_hdr(rng):
    return {'ver': bnum(rng, 8), 'sub': bnum(rng, 8), 'comp': rng.choice([0x2000, 0xE500, 0x2C00, 0x4142, 0x4100, 0x0042, 0, 0xFFFF, rng.randrange(65536)])}


def gen_callout(rng):
    flags = rng.choice([0x08, 0x02, 0x0C, 0x0D, 0x0F, 0x01, 0x04, 0x00, 0x0A, 0x09, 0x03, 0x05, 0x06, 0x07, 0x0B, 0x0E]) | (rng.choice([0x10, 0x20, 0x30, 0x40, 0x90, 0xA0, 0xB0, 0xC0, 0xE0, 0x00, 0x50]) )
    has_pn = bool(flags & 0x0A)
    pn = gen_text(rng, 8) if has_pn else b''
    if flags & 0x02 and rng.random() < 0.6:
        pn = rng.choice([b'BMC0001\0', b'BMC0002\0', b'BMC0008\0', b'BMC0009\0', b'bmc0001\0'])
    c = {'flags': bnum(rng, 8), 'priority': rng.choice([0x48, 0x4D, 0x41, 0x42, 0x43, 0x4C, 0, 0xFF, rng.randrange(256)]),
         'loc': gen_text(rng, rng.choice([0, 4, 8, 12, 16, 40, 80]))[:80],
         'fru': {'flags': flags, 'pn': pn, 'ccin': gen_text(rng, 4) if flags & 0x04 else b'', 'sn': gen_text(rng, 12) if flags & 0x01 else b''},
         'pce': None, 'mru': None}
    if rng.random() < 0.3:
        c['pce'] = {'flags': bnum(rng, 8), 'mtm': gen_text(rng, 8), 'sn': gen_text(rng, 12), 'name': gen_text(rng, rng.choice([1, 4, 8, 16]))}
    if rng.random() < 0.3:
        c['mru'] = {'flagsHi': rng.randrange(16), 'resv': bnum(rng, 32), 'items': [(bnum(rng, 32), bnum(rng, 32)) for _ in range(rng.choice([0, 1, 2, 3, 15]))]}
    return c


def callout_size(c):
    n = 4 + len(c['loc']) + 4 + len(c['fru']['pn']) + len(c['fru']['ccin']) + len(c['fru']['sn'])
    if c['pce']:
        n += 24 + len(c['pce']['name'])
    if c['mru']:
        n += 8 + 8 * len(c['mru']['items'])
    return n


def gen_src(rng, avoid_real_plugins=True):
    ty = rng.choice([b'BD', b'11', b'BC', b'B7', b'  ', b'bd'])
    code = bytes(rng.choice(b'0123456789ABCDEF') for _ in range(6))
    if avoid_real_plugins and code[2:4].upper() == b'E5':
        code = code[:2] + b'8D' + code[4:]
    asc = (ty + code + rng.choice([b'', b' ', b'  EXTRA', b'\0\0']))
    asc = rng.choice([asc.ljust(32, b' '), asc.ljust(32, b'\0'), (b' ' + asc).ljust(32, b' ')])[:32]
    if avoid_real_plugins and asc[4:6].upper() == b'E5':
        # the component is read from characters 4..5 of the final string (which may have been shifted by a leading blank)
        asc = asc[:4] + b'8D' + asc[6:]
    callouts = None
    if rng.random() < 0.5:
        cs = [gen_callout(rng) for _ in range(rng.choice([0, 1, 1, 2, 3, 6]))]
        cs = [c for c in cs if callout_size(c) < 256]
        # the decoder tolerates no padding: make the sizes add up to a multiple of four by trimming location codes
        for c in cs:
            r = callout_size(c) % 4
            if r:
                if len(c['loc']) + (4 - r) <= 80 and callout_size(c) + (4 - r) < 256:
                    c['loc'] = c['loc'] + b'A' * (4 - r)
                elif len(c['loc']) >= r:
                    c['loc'] = c['loc'][:len(c['loc']) - r]
        cs = [c for c in cs if callout_size(c) % 4 == 0 and callout_size(c) < 256]
        if cs and rng.random() < 0.25:
            # a callout whose first two bytes (size, flags) read as a substructure type: 0x50 0x45 = "PE", 0x4C.. etc.
            c = gen_callout(rng)
            c['pce'] = None
            c['mru'] = None
            c['flags'] = 0x45
            base = callout_size(c) - len(c['loc'])
            if base <= 80:
                c['loc'] = (c['loc'] + b'L' * 80)[:80 - base]
                if callout_size(c) == 80:
                    cs.insert(rng.randrange(1, len(cs) + 1), c)
        callouts = {'subId': rng.choice([0xC0, bnum(rng, 8)]), 'subFlags': bnum(rng, 8), 'callouts': cs}
    return {'version': bnum(rng, 8), 'flagsHi': bnum(rng, 8) & 0xFE, 'resv1': bnum(rng, 8), 'wordCount': rng.choice([0, 1, 2, 3, 8, 9, 9, 9]),
            'resv2': bnum(rng, 16), 'size': bnum(rng, 16), 'words': [bnum(rng, 32) for _ in range(8)], 'ascii': asc, 'callouts': callouts}


PY_LITERALS = [b"{'fans': {0: 'ok'}}", b"{1: 'x', '1': 'y'}", b'[1, 2,]', b"{'a': None}", b'{"a": True}', b'(1, 2)', b"{'k': 'v'}"]


def gen_payload(rng, kind='any'):
    n = rng.choice([1, 2, 3, 4, 15, 16, 17, 33, 255, 256, rng.randrange(1, 600)])
    if rng.random() < 0.02:
        n = rng.choice([4000, 65527 - 4])
    k = rng.random()
    if kind == 'json':
        k = 0.4
    elif kind == 'text':
        k = 0.6
    if k < 0.3:
        return bytes(rng.randrange(256) for _ in range(n))
    if k < 0.5:
        doc = rng.choice([{"a": 1}, {"Section Version": 9, "Data": "x"}, {"n": -5, "big": 2 ** 70, "t": True, "l": [[], {}, [[]]]}, "x" * rng.randrange(0, 50),
                          {"k%d" % i: [i, str(i)] for i in range(rng.randrange(0, 12))}, [1, 2, "three"], "just a string", 17, None, {"k\":": "v\"x\": y", "nest": {"x": [1, {"y": None}]}},
                          {"é": "ü😀"}, {}, [], {"a": 1, "a": 2}])
        t = json.dumps(doc, ensure_ascii=rng.random() < 0.5).encode()
        if rng.random() < 0.08:
            return rng.choice(PY_LITERALS)      # what Python's repr() of a dict looks like: not JSON
        return rng.choice([t, t + b'\0' * rng.randrange(1, 5), b'  ' + t + b' \n', t + b' \0\0', t[:-1], b'{' + t])
    if k < 0.8:
        if rng.random() < 0.5:
            lines = [bytes(rng.choice(PRINTABLE + b'\t\x01\x7f') for _ in range(rng.randrange(0, 30))) for _ in range(rng.randrange(1, 6))]
            t = b'\n'.join(lines)
        else:
            # every character that some Python API treats as a line boundary or as white space (str.splitlines, str.strip),
            # other control characters, and non-ASCII text: only '\n' ends a line, everything non-printable becomes '.'
            specials = '\r\x0b\x0c\x1c\x1d\x1e\x1f\x85\u2028\u2029\xa0\u3000\t\x00\x01\x7f\x80é€😀'
            chars = [rng.choice(specials) if rng.random() < 0.25 else chr(rng.choice(PRINTABLE)) for _ in range(rng.randrange(1, 60))]
            for _ in range(rng.randrange(0, 4)):
                chars.insert(rng.randrange(len(chars) + 1), rng.choice(['\n', '\r\n', '\n\n', '\n\r']))
            t = ''.join(chars).encode()
        return rng.choice([t, t + b'\0' * rng.randrange(1, 5), b'\n' + t + b'\n', 'wörld "x": y\nzwei'.encode(), t + b'\n\n'])[:65000] or b'x'
    return bytes([rng.choice([0, 0x20, 0x41, 0xff])] * n)


def forge_crc32(prefix, target):
    """4 bytes to append to `prefix` so that zlib.crc32(prefix + them) == target (the CRC register is run backwards from the target)"""
    import zlib
    table = []
    for i in range(256):
        c = i
        for _ in range(8):
            c = (c >> 1) ^ 0xEDB88320 if c & 1 else c >> 1
        table.append(c)
    top = {table[i] >> 24: i for i in range(256)}
    want = target ^ 0xFFFFFFFF
    have = zlib.crc32(prefix) ^ 0xFFFFFFFF
    idx = []
    for _ in range(4):                     # table indices used by the last four steps, last first
        i = top[want >> 24]
        idx.append(i)
        want = ((want ^ table[i]) << 8) & 0xFFFFFFFF
    out = bytearray()
    for i in reversed(idx):
        b = (have ^ i) & 0xFF
        out.append(b)
        have = (have >> 8) ^ table[i]
    res = bytes(out)
    assert zlib.crc32(prefix + res) == target
    return res


# the classic pair of 128-byte messages with the same MD5 digest (Wang et al. 2004): what a cache keyed by a digest cannot tell apart
MD5_TWINS = (bytes.fromhex('d131dd02c5e6eec4693d9a0698aff95c2fcab58712467eab4004583eb8fb7f89'
                           '55ad340609f4b30283e488832571415a085125e8f7cdc99fd91dbdf280373c5b'
                           'd8823e3156348f5bae6dacd436c919c6dd53e2b487da03fd02396306d248cda0'
                           'e99f33420f577ee8ce54b67080a80d1ec69821bcb6a8839396f9652b6ff72a70'),
             bytes.fromhex('d131dd02c5e6eec4693d9a0698aff95c2fcab50712467eab4004583eb8fb7f89'
                           '55ad340609f4b30283e4888325f1415a085125e8f7cdc99fd91dbd7280373c5b'
                           'd8823e3156348f5bae6dacd436c919c6dd53e23487da03fd02396306d248cda0'
                           'e99f33420f577ee8ce54b67080280d1ec69821bcb6a8839396f965ab6ff72a70'))


def md5_twins(suffix=b''):
    """two different byte strings of equal length with the same MD5 (the collision survives any common suffix); None if that does not hold here"""
    import hashlib
    a, b = MD5_TWINS[0] + suffix, MD5_TWINS[1] + suffix
    try:
        same = hashlib.md5(a, usedforsecurity=False).digest() == hashlib.md5(b, usedforsecurity=False).digest()
    except Exception:
        return None
    return (a, b) if same and a != b else None


def crc_twins(rng, n):
    """two different byte strings of length n (>= 8) with the same CRC-32 (what a cache keyed by length + checksum cannot tell apart)"""
    import zlib
    a = bytes(rng.randrange(256) for _ in range(n))
    pre = bytes(rng.randrange(256) for _ in range(n - 4))
    b = pre + forge_crc32(pre, zlib.crc32(a))
    return a, b


def gen_section(rng, avoid_real_plugins=True):
    kind = rng.choice(['src', 'src', 'eh', 'mt', 'lp', 'ud', 'ud', 'ud', 'ed', 'ed', 'other', 'other', 'named'])
    hdr = gen_hdr(rng)
    if kind == 'src':
        return {'kind': 'src', 'hdr': hdr, 'primary': rng.random() < 0.5, 'src': gen_src(rng, avoid_real_plugins)}
    if kind == 'eh':
        sym = gen_text(rng, rng.choice([0, 4, 8, 20, 80, 252]))
        return {'kind': 'eh', 'hdr': hdr, 'mtm': gen_text(rng, 8), 'sn': gen_text(rng, 12), 'fw': gen_text(rng, 16), 'subfw': gen_text(rng, 16),
                'resv': bnum(rng, 32), 'refTime': gen_ts(rng), 'resv3': bytes(rng.randrange(256) for _ in range(3)), 'sym': sym}
    if kind == 'mt':
        return {'kind': 'mt', 'hdr': hdr, 'mtm': gen_text(rng, 8), 'sn': gen_text(rng, 12)}
    if kind == 'lp':
        return {'kind': 'lp', 'hdr': hdr, 'primary': bnum(rng, 16), 'logId': bnum(rng, 32), 'name': gen_text(rng, rng.choice([0, 4, 8, 20, 255])),
                'targets': [bnum(rng, 16) for _ in range(rng.choice([0, 1, 2, 3, 4, 7, 255]))], 'pad': bnum(rng, 16)}
    if kind in ('ud', 'ed'):
        if rng.random() < 0.6:
            hdr['comp'] = 0x2000
            hdr['sub'] = rng.choice([1, 1, 3, 3, 2, 4, 0, 5])
        sec = {'kind': kind, 'hdr': hdr, 'payload': gen_payload(rng)}
        if kind == 'ed':
            sec.update(creator=rng.choice([ord('O'), ord('O'), ord('B'), ord('H'), ord('Z'), 0, 0x80, 0xFF]), resv1=bnum(rng, 8), resv2=bnum(rng, 16))
            if sec['creator'] in (ord('M'),) and hdr['comp'] == 0x2C00:
                hdr['comp'] = 0x2C01
        return sec
    if kind == 'named':
        # besides the hexdump-only names: ids that read as callout substructure types ("PE", "MR", "ID")
        sid = rng.choice(KNOWN_IDS + ['PE', 'MR', 'ID'])
    else:
        while True:
            sid = bytes(rng.randrange(256) for _ in range(2)).decode('latin1')
            if sid not in SPECIAL:
                break
    return {'kind': 'other', 'hdr': hdr, 'id': (ord(sid[0]) << 8) | ord(sid[1]), 'payload': gen_payload(rng)}


def fix_real_plugins(p):
    """steer clear of the two shipped user-data plugins and of the shipped SRC component parser (they are C18/C20's subject)"""
    cr = chr(p['ph']['creator']).lower()
    for sec in p['sections']:
        if sec['kind'] == 'ud' and (cr, sec['hdr']['comp']) in (('m', 0x2C00), ('o', 0xE500)):
            sec['hdr']['comp'] ^= 1
        if sec['kind'] == 'ed' and (chr(sec['creator']).lower(), sec['hdr']['comp']) in (('m', 0x2C00), ('o', 0xE500)):
            sec['hdr']['comp'] ^= 1


def gen_pel(rng, max_sections=12, sev=None, af=None):
    n = rng.choice([0, 1, 2, 3, 5, max_sections])
    ph = {'hdr': gen_hdr(rng), 'create': gen_ts(rng), 'commit': gen_ts(rng),
          'creator': rng.choice([ord('O')] * 4 + [ord(c) for c in 'BCHKLMPST'] + [ord('Z'), ord('o'), 0, 0x7f, ord('x')]),
          'resv0': bnum(rng, 8), 'resv1': bnum(rng, 8), 'obmc': bnum(rng, 32), 'cver': bnum(rng, 64),
          'plid': rng.choice([0x50000001, 0x00001234, 0, 0xF, 0x10, 0x0FFFFFFF, 0x10000000, 0xFFFFFFFF, rng.randrange(2 ** 32)]),
          'eid': rng.choice([0x50000001, 0x00001234, 0, 0xFFFFFFFF, rng.randrange(2 ** 32)])}
    uh = {'hdr': gen_hdr(rng), 'subsys': bnum(rng, 8), 'scope': rng.choice([1, 2, 3, 4, 0, 255]), 'sev': bnum(rng, 8) if sev is None else sev,
          'etype': rng.choice([0, 1, 2, 4, 8, 16, 3]), 'resv': bnum(rng, 32), 'pd': bnum(rng, 8), 'pv': bnum(rng, 8),
          'af': bnum(rng, 16) if af is None else af, 'states': rng.choice([0, 1, 2, 3, 0x0100, 0x0302, 0xFFFFFFFF, 4, rng.randrange(2 ** 32)])}
    p = {'ph': ph, 'uh': uh, 'sections': [gen_section(rng) for _ in range(n)]}
    fix_real_plugins(p)
    return p


# ------------------------------------------------------------------ wire encoding

def tok_hdr(h):
    return '%d %d %d' % (h['ver'], h['sub'], h['comp'])


def tok_callout(c):
    t = '%d %d %s %d %s %s %s' % (c['flags'], c['priority'], tb(c['loc']), c['fru']['flags'], tb(c['fru']['pn']), tb(c['fru']['ccin']), tb(c['fru']['sn']))
    if c['pce']:
        t += ' 1 %d %s %s %s' % (c['pce']['flags'], tb(c['pce']['mtm']), tb(c['pce']['sn']), tb(c['pce']['name']))
    else:
        t += ' 0'
    if c['mru']:
        t += ' 1 %d %d %s' % (c['mru']['flagsHi'], c['mru']['resv'], tlist(c['mru']['items'], lambda x: '%d %d' % x))
    else:
        t += ' 0'
    return t


def tok_section(sec):
    k = sec['kind']
    h = tok_hdr(sec['hdr'])
    if k == 'src':
        x = sec['src']
        t = 'src %s %d %d %d %d %d %d %d %s %s' % (h, int(sec['primary']), x['version'], x['flagsHi'], x['resv1'], x['wordCount'], x['resv2'], x['size'],
                                                tlist(x['words']), tb(x['ascii']))
        if x['callouts'] is not None:
            cs = x['callouts']
            t += ' 1 %d %d %s' % (cs['subId'], cs['subFlags'], tlist(cs['callouts'], tok_callout))
        else:
            t += ' 0'
        return t
    if k == 'eh':
        return 'eh %s %s %s %s %s %d %s %s %s' % (h, tb(sec['mtm']), tb(sec['sn']), tb(sec['fw']), tb(sec['subfw']), sec['resv'], tb(sec['refTime']), tb(sec['resv3']), tb(sec['sym']))
    if k == 'mt':
        return 'mt %s %s %s' % (h, tb(sec['mtm']), tb(sec['sn']))
    if k == 'lp':
        return 'lp %s %d %d %s %s %d' % (h, sec['primary'], sec['logId'], tb(sec['name']), tlist(sec['targets']), sec['pad'])
    if k == 'ud':
        return 'ud %s %s' % (h, tb(sec['payload']))
    if k == 'ed':
        return 'ed %s %d %d %d %s' % (h, sec['creator'], sec['resv1'], sec['resv2'], tb(sec['payload']))
    return 'other %s %d %s' % (h, sec['id'], tb(sec['payload']))


def tok_pel(p):
    ph, uh = p['ph'], p['uh']
    return '%s %s %s %d %d %d %d %d %d %d  %s %d %d %d %d %d %d %d %d %d  %s' % (
        tok_hdr(ph['hdr']), tb(ph['create']), tb(ph['commit']), ph['creator'], ph['resv0'], ph['resv1'], ph['obmc'], ph['cver'], ph['plid'], ph['eid'],
        tok_hdr(uh['hdr']), uh['subsys'], uh['scope'], uh['sev'], uh['etype'], uh['resv'], uh['pd'], uh['pv'], uh['af'], uh['states'],
        tlist(p['sections'], tok_section))


def tok_cfg(c=None):
    c = c or {}
    return '%d %d %d %d %d %d %d %s' % (c.get('every', 1), c.get('term', 0), c.get('s', 0), c.get('N', 0), c.get('H', 0), c.get('only', 0),
                                        c.get('lookup', 0), tlist(c.get('sevs', [])))


# ------------------------------------------------------------------ independent byte encoder

def enc_hdr(sid, body_len, h):
    return struct.pack('>HHBBH', sid, 8 + body_len, h['ver'], h['sub'], h['comp'])


def enc_callout(c):
    f = c['fru']
    fb = f['pn'] + f['ccin'] + f['sn']
    b = b'ID' + bytes([4 + len(fb), f['flags']]) + fb
    if c['pce']:
        p = c['pce']
        b += b'PE' + bytes([24 + len(p['name']), p['flags']]) + p['mtm'] + p['sn'] + p['name']
    if c['mru']:
        m = c['mru']
        b += b'MR' + bytes([8 + 8 * len(m['items']), m['flagsHi'] * 16 + len(m['items'])]) + struct.pack('>I', m['resv']) + b''.join(struct.pack('>II', a, i) for a, i in m['items'])
    return bytes([4 + len(c['loc']) + len(b), c['flags'], c['priority'], len(c['loc'])]) + c['loc'] + b


def enc_body(sec):
    k = sec['kind']
    if k == 'src':
        x = sec['src']
        has = x['callouts'] is not None
        b = bytes([x['version'], x['flagsHi'] + (1 if has else 0), x['resv1'], x['wordCount']]) + struct.pack('>HH', x['resv2'], x['size']) + \
            b''.join(struct.pack('>I', w) for w in x['words']) + x['ascii']
        if has:
            cb = b''.join(enc_callout(c) for c in x['callouts']['callouts'])
            b += bytes([x['callouts']['subId'], x['callouts']['subFlags']]) + struct.pack('>H', (4 + len(cb)) // 4) + cb
        return (0x5053 if sec['primary'] else 0x5353), b
    if k == 'eh':
        return 0x4548, sec['mtm'] + sec['sn'] + sec['fw'] + sec['subfw'] + struct.pack('>I', sec['resv']) + sec['refTime'] + sec['resv3'] + bytes([len(sec['sym'])]) + sec['sym']
    if k == 'mt':
        return 0x4D54, sec['mtm'] + sec['sn']
    if k == 'lp':
        b = struct.pack('>HBBI', sec['primary'], len(sec['name']), len(sec['targets']), sec['logId']) + sec['name'] + b''.join(struct.pack('>H', t) for t in sec['targets'])
        if len(sec['targets']) % 2:
            b += struct.pack('>H', sec['pad'])
        return 0x4C50, b
    if k == 'ud':
        return 0x5544, sec['payload']
    if k == 'ed':
        return 0x4544, bytes([sec['creator'], sec['resv1']]) + struct.pack('>H', sec['resv2']) + sec['payload']
    return sec['id'], sec['payload']


def enc_pel(p):
    ph, uh = p['ph'], p['uh']
    out = enc_hdr(0x5048, 40, ph['hdr']) + ph['create'] + ph['commit'] + bytes([ph['creator'], ph['resv0'], ph['resv1'], (len(p['sections']) + 2) % 256]) + \
        struct.pack('>IQII', ph['obmc'], ph['cver'], ph['plid'], ph['eid'])
    out += enc_hdr(0x5548, 16, uh['hdr']) + struct.pack('>BBBBIBBHI', uh['subsys'], uh['scope'], uh['sev'], uh['etype'], uh['resv'], uh['pd'], uh['pv'], uh['af'], uh['states'])
    for sec in p['sections']:
        sid, b = enc_body(sec)
        out += enc_hdr(sid, len(b), sec['hdr']) + b
    return out


def describe(p):
    return {'creator': chr(p['ph']['creator']), 'sections': [sec['kind'] + (':' + hex(sec['id']) if sec['kind'] == 'other' else '') for sec in p['sections']]}


# ------------------------------------------------------------------ plugin environment (fixtures + model description)

class PluginEnv:
    """
    ud:  {module name (e.g. 'x1234'): ('echo',) | ('raises', msg) | ('none',) | ('text', t) | ('import_raises', msg) |
          ('raises_import', msg) (= the CALL raises ImportError(msg))}
    src: {module name (e.g. 'xsrc' or 'o8d00'): ('echo',) | ('raises',) | ('text', t)}
    callout: {creator lower (e.g. 'x'): ('table', {proc: [lines]}) | ('raises',)}
    registry: the message registry, a list of entries in the real registry's JSON shape
        {"SRC": {"ReasonCode": "0x2600", "Type": "BD", "Words6To9": {"6": {"Description": ..., "AdditionalDataPropSource": ...}}},
         "Documentation": {"Message": ..., "MessageArgSources": ["SRCWord6", ...]}}
        (installed as `pel.peltool.src.registry.pels`; optional members may be missing)
    The shipped `ocallouts` table is always part of the environment (read from the live module).
    Modules that exist but cannot be imported (any package): ('import_raises', msg) = executing the module raises RuntimeError(msg),
    ('import_error', msg) = it raises ImportError(msg) (not a ModuleNotFoundError), ('import_mnf',) = it imports a module that is not
    installed (ModuleNotFoundError).  For the stateless model all of them are `absent` except a user-data `import_raises`
    (error note + dump); the module-table model of C19 tells them apart (`IMPORT_FAULT`).
    """

    def __init__(self, allow=True, ud=None, src=None, callout=None, comp_ids=None, registry=None):
        self.allow = allow
        self.registry = list(registry or [])
        self.ud = ud or {}
        self.src = src or {}
        self.callout = dict(callout or {})
        self.comp_ids = comp_ids or {}
        self.dir = None

    def tokens(self):
        callout = dict(self.callout)
        try:
            oc = importlib.import_module('calloutparsers.ocallouts.ocallouts')
            callout.setdefault('o', ('table', dict(oc.procedures)))
        except Exception:
            pass

        def udb(b):
            if b[0] in ('import_error', 'import_mnf'):
                return 'absent'      # the import raises an ImportError: "module not found" for parseCustom
            return {'echo': 'echo', 'none': 'none', 'release_none': 'none'}.get(b[0]) or ('raises ' + tt(b[1]) if b[0] in ('raises', 'raises_import', 'release_raises') else
                                                                  'importraises ' + tt(b[1]) if b[0] == 'import_raises' else 'text ' + tt(b[1]))

        def srcb(b):
            # ('raises_import',): the CALL raises ImportError - for the model simply a parser that raises
            if b[0] in IMPORT_FAULT:
                return 'absent'      # the import does not yield a module: no details
            return b[0] if b[0] in ('echo', 'raises') else 'raises' if b[0] == 'raises_import' else 'text ' + tt(b[1])

        def cob(b):
            # ('table_raise', procs, bad): raises for the procedure `bad`, which the model sees as "no description"
            if b[0] in IMPORT_FAULT or b[0] == 'object':
                return 'absent'      # the import does not yield a module: no description ('object': used outside the model only)
            return 'raises' if b[0] == 'raises' else 'table ' + tlist(b[1].items(), lambda kv: tt(kv[0]) + ' ' + tlist(kv[1], tt))
        def topt(v, f=tt):
            return '0' if v is None else '1 ' + f(v)

        def regb(e):
            src, doc = e['SRC'], e['Documentation']
            w69 = src.get('Words6To9') or {}
            return ' '.join([topt(src.get('ReasonCode')), topt(src.get('Type')), tt(doc['Message']),
                             topt(doc.get('MessageArgSources'), lambda l: tlist(l, tt)),
                             tlist(w69.items(), lambda kv: tt(kv[0]) + ' ' + topt(kv[1].get('Description')) + ' ' + topt(kv[1].get('AdditionalDataPropSource')))])
        return 'setenv %d %s %s %s %s %s' % (
            int(self.allow),
            tlist(self.comp_ids.items(), lambda kv: tt(kv[0]) + ' ' + tlist(kv[1].items(), lambda x: tt(x[0]) + ' ' + tt(x[1]))),
            tlist(self.ud.items(), lambda kv: tt(kv[0]) + ' ' + udb(kv[1])),
            tlist(self.src.items(), lambda kv: tt(kv[0]) + ' ' + srcb(kv[1])),
            tlist(callout.items(), lambda kv: tt(kv[0]) + ' ' + cob(kv[1])),
            tlist(self.registry, regb))

    # ---- real side
    def install(self):
        """write fixture modules, hook them into the three plugin packages, reset the repo's module caches"""
        self.uninstall()
        watch_shipped()     # (imports the three shipped parser modules once, before any import log is looked at)
        self.dir = tempfile.mkdtemp(prefix='pelfix_')
        import udparsers, srcparsers, calloutparsers  # noqa
        for pkg, mods in (('udparsers', self.ud), ('srcparsers', self.src), ('calloutparsers', {k + 'callouts': v for k, v in self.callout.items()})):
            base = os.path.join(self.dir, pkg)
            os.makedirs(base)
            for name, beh in mods.items():
                d = os.path.join(base, name)
                os.makedirs(d)
                open(os.path.join(d, '__init__.py'), 'w').close()
                with open(os.path.join(d, name + '.py'), 'w') as f:
                    f.write(fixture_source(pkg, beh))
            sys.modules[pkg].__path__.append(base)
        reset_caches()
        # component-id names go through the repository's own loader: <creator>_component_ids.json files in a configuration
        # directory (plus a file the loader must ignore); the module is re-executed so that it starts from its initial state
        from pel.peltool import comp_id
        cfg = os.path.join(self.dir, 'pelcfg')
        os.makedirs(cfg)
        for creator, table in self.comp_ids.items():
            with open(os.path.join(cfg, creator + '_component_ids.json'), 'w') as f:
                json.dump(table, f)
        with open(os.path.join(cfg, 'message_registry.json'), 'w') as f:
            f.write('{"PELs": []}')
        importlib.reload(comp_id)
        comp_id.pelConfigRootPath = cfg
        from pel.peltool import src as _src
        _src.registry.pels = self.registry
        return self

    def uninstall(self):
        _src = sys.modules.get('pel.peltool.src')
        if _src is not None:
            _src.registry.pels = []
        if self.dir:
            for pkg in ('udparsers', 'srcparsers', 'calloutparsers'):
                m = sys.modules.get(pkg)
                if m:
                    m.__path__[:] = [p for p in m.__path__ if not p.startswith(self.dir)]
            for k in [k for k, m in sys.modules.items() if getattr(m, '__file__', None) and str(m.__file__).startswith(self.dir)]:
                del sys.modules[k]
            shutil.rmtree(self.dir, ignore_errors=True)
            self.dir = None
            reset_caches()
            cid = sys.modules.get('pel.peltool.comp_id')
            if cid is not None:
                importlib.reload(cid)


def reset_comp_ids():
    """put pel.peltool.comp_id back into its initial state (as in a fresh interpreter) while keeping the configured directory"""
    from pel.peltool import comp_id
    root = comp_id.pelConfigRootPath
    importlib.reload(comp_id)
    comp_id.pelConfigRootPath = root


def reset_caches():
    importlib.invalidate_caches()
    from pel.peltool import parse_user_data, src
    parse_user_data.userDataParsers.clear()
    src.calloutParsers.clear()
    src.srcParsers.clear()
    try:
        osrc = importlib.import_module('srcparsers.osrc.osrc')
        osrc.osrcParsers.clear()
    except Exception:
        pass


# fixture behaviours that make the IMPORT of the module fail, and what the module-table model calls the failure
IMPORT_FAULT = {'import_raises': 'other', 'import_error': 'importerror', 'import_mnf': 'notfound'}


def fixture_source(pkg, beh):
    if beh[0] == 'import_raises' and pkg != 'udparsers':
        # the module exists, but executing it raises something that is not an ImportError
        return 'raise RuntimeError(%r)\n' % (beh[1] if len(beh) > 1 else 'load failure')
    if beh[0] == 'import_error':
        # ... raises an ImportError that is not a ModuleNotFoundError
        return 'raise ImportError(%r)\n' % (beh[1] if len(beh) > 1 else 'cannot import name frobnicate')
    if beh[0] == 'import_mnf':
        # ... imports something that is not installed: ModuleNotFoundError out of an existing module
        return 'import frobnicate_module_that_is_not_installed\n'
    if pkg == 'udparsers':
        if beh[0] == 'import_raises':
            # the module exists, but executing it fails with something that is not an ImportError (e.g. a missing data file)
            return 'raise RuntimeError(%r)\n' % beh[1]
        if beh[0] == 'echo':
            body = 'return json.dumps({"subType": sub, "version": ver, "data": bytes(data).hex()})'
        elif beh[0] == 'raises':
            # an empty message = an exception raised WITHOUT arguments (bare assert, `raise NotImplementedError`): str(e) == '' and e.args == ()
            body = ('raise Exception(%r)' % beh[1]) if beh[1] else 'raise NotImplementedError()'
        elif beh[0] == 'raises_import':
            body = 'raise ImportError(%r)' % beh[1]
        elif beh[0] == 'release_raises':
            # a parser that is done with its view of the payload (`with data:` / data.release()) before it fails
            body = 'data.release()\n    raise Exception(%r)' % beh[1]
        elif beh[0] == 'release_none':
            body = 'data.release()\n    return None'
        elif beh[0] == 'none':
            body = 'return None'
        else:
            body = 'return %r' % beh[1]
        return 'import json\ndef parseUDToJson(sub, ver, data):\n    %s\n' % body
    if pkg == 'srcparsers':
        if beh[0] == 'echo':
            body = 'return json.dumps({"refcode": refcode, "words": [w2, w3, w4, w5, w6, w7, w8, w9]})'
        elif beh[0] == 'raises':
            body = 'raise Exception("src plugin failure")'
        elif beh[0] == 'raises_import':
            body = 'raise ImportError("No module named frobnicate (raised while the parser runs)")'
        else:
            body = 'return %r' % beh[1]
        return 'import json\ndef parseSRCToJson(refcode, w2, w3, w4, w5, w6, w7, w8, w9):\n    %s\n' % body
    if beh[0] == 'raises':
        return 'def getMaintProcDesc(p):\n    raise Exception("callout plugin failure")\n'
    if beh[0] == 'object':
        # answers every procedure with one JSON OBJECT (real-code oracle only: the model's callout parsers answer with lists of lines)
        return 'import json\nOBJ = %r\ndef getMaintProcDesc(p):\n    return json.dumps(OBJ)\n' % (beh[1],)
    if beh[0] == 'table_raise':
        return 'import json\nPROCS = %r\ndef getMaintProcDesc(p):\n    if p == %r:\n        raise KeyError(p)\n    return json.dumps(PROCS[p]) if p in PROCS else ""\n' % (beh[1], beh[2])
    return 'import json\nPROCS = %r\ndef getMaintProcDesc(p):\n    return json.dumps(PROCS[p]) if p in PROCS else ""\n' % (beh[1],)


# ------------------------------------------------------------------ real decoder adapter

SHIPPED = (('udparsers.oe500.oe500', 'parseUDToJson'), ('udparsers.m2c00.m2c00', 'parseUDToJson'), ('srcparsers.oe500.oe500', 'parseSRCToJson'))
TOUCHED_SHIPPED = [False]


def watch_shipped():
    """wrap the entry points of the three shipped parser modules so that a decode which reaches one of them is noticed.  The PEL
    checks C01-C05, C08-C12 use environments without those modules (they are C18's and C20's subject, with their own models), so a
    generated or corrupted input that happens to name one of them is skipped there instead of being compared with the wrong model."""
    for mod, fn in SHIPPED:
        try:
            m = importlib.import_module(mod)
        except Exception:
            continue
        f = getattr(m, fn, None)
        if f is None or getattr(f, '_verif_watch', False):
            continue

        def wrapper(*a, _f=f, **k):
            TOUCHED_SHIPPED[0] = True
            return _f(*a, **k)
        wrapper._verif_watch = True
        setattr(m, fn, wrapper)


def real_decode(data, cfg=None, allow_plugins=True):
    """('doc', eid, canonical document) | ('nodoc', stderr) | ('error', class name, message)"""
    from pel.peltool import peltool
    from pel.peltool.config import Config
    from pel.datastream import DataStream
    c = Config()
    cfg = cfg or {}
    c.every_pel = bool(cfg.get('every', 1))
    c.critSysTerm = bool(cfg.get('term', 0))
    c.serviceable = bool(cfg.get('s', 0))
    c.non_serviceable = bool(cfg.get('N', 0))
    c.hidden = bool(cfg.get('H', 0))
    c.only = bool(cfg.get('only', 0))
    c.severities = list(cfg.get('sevs', []))
    if cfg.get('lookup'):
        c.plid = '00000000'
    c.allow_plugins = allow_plugins
    err, out = io.StringIO(), io.StringIO()
    watch_shipped()
    TOUCHED_SHIPPED[0] = False
    try:
        with redirect_stderr(err), redirect_stdout(out), common.deadline(common.call_limit()):
            eid, text = peltool.parsePEL(DataStream(data, byte_order='big', is_signed=False), c, False)
    except common.Hang as e:
        return ('error', 'Hang', str(e), out.getvalue())
    except SystemExit as e:
        # the decoder must fail with an ordinary error: an exit from inside parsePEL(exit_on_error=False) is an outcome of its own
        return ('error', 'SystemExit', 'exit(%r) from inside the decoder' % (e.code,), out.getvalue())
    except Exception as e:  # noqa
        return ('error', type(e).__name__, str(e)[:100], out.getvalue())
    if not text:
        return ('nodoc', err.getvalue(), out.getvalue())
    try:
        parsed = json.loads(text, object_pairs_hook=jsonio.pairs_hook)
    except ValueError as e:
        # the decoder returned text that is not JSON at all: an outcome (a violation wherever a document is due), not a harness error
        return ('invalid-json', eid, str(e)[:200], out.getvalue(), text)
    return ('doc', eid, jsonio.canon(parsed), out.getvalue(), text)


def dec_outcome(r):
    """model outcome from a reply: ('doc', eid, doc) | ('nodoc',) | ('error', class) | ('unsupported',)"""
    w = r.word()
    if w == 'D':
        eid = r.text()
        return ('doc', eid, jsonio.canon(jsonio.dec_j(r, pairs=True)))
    if w in ('F', 'B'):
        return ('nodoc', w)
    if w == 'U':
        return ('unsupported',)
    return ('error', r.word())


def dec_spec(r):
    w = r.word()
    if w == 'D':
        return ('doc', jsonio.canon(jsonio.dec_j(r, pairs=True)))
    if w == 'U':
        return ('unsupported',)
    return ('error', r.word())


def fresh_cli(env_kwargs, argv, optimise=False, env_extra=None, timeout=120, on_pty=False):
    """`peltool.py <argv>` in a SEPARATE interpreter that has the fixture parser modules of PluginEnv(**env_kwargs) installed
    (harness/freshrun.py): (stdout, stderr, exit status).  `optimise` = python -O; `env_extra` e.g. {'PYTHONIOENCODING': 'ascii'}."""
    import subprocess
    def plain(d):
        return {k: list(v) for k, v in (d or {}).items()}
    kw = dict(env_kwargs)
    for k in ('ud', 'src', 'callout'):
        if k in kw:
            kw[k] = plain(kw[k])
    cmd = [common.PY] + (['-O'] if optimise else []) + ['-W', 'ignore', '-B', os.path.join(os.path.dirname(os.path.abspath(__file__)), 'freshrun.py'), json.dumps(kw)] + list(argv)
    if on_pty:
        so, rc = common.run_on_pty(cmd, env=dict(common.child_env(), **(env_extra or {})), timeout=timeout)
        return so, '', rc
    try:
        p = subprocess.run(cmd, stdout=subprocess.PIPE, stderr=subprocess.PIPE, env=dict(common.child_env(), **(env_extra or {})), timeout=timeout)
    except subprocess.TimeoutExpired as e:
        return (e.stdout or b'').decode(errors='replace'), 'HANG\n' + (e.stderr or b'').decode(errors='replace'), -999
    return p.stdout.decode(errors='replace'), p.stderr.decode(errors='replace'), p.returncode
