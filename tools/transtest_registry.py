#!/venv/bin/python
"""
Self-test of the source-to-Lean tie of stream `registry` (harness/trans_registry.py, last theorem of lean/PelProps/TieC03.lean).

Applies source MUTANTS of Registry.getErrorMessage one at a time to the worktree named by VERIF_REPO (never /repo), runs
harness/extract.py and `lake build PelProps.TieC03`, and prints   mutant | kind | verdict
   PROVED / UNAVAILABLE (`none`) / BROKEN (the tie module does not build).
Expected: a behaviour-CHANGING mutant is never PROVED; a behaviour-PRESERVING rewrite is PROVED or, acceptably, UNAVAILABLE.
usage: VERIF_REPO=/tmp/work/seedbox5/repo /tmp/work/seedbox5/verif/tools/transtest_registry.py
"""
import os
import subprocess
import sys

VERIF = os.path.dirname(os.path.dirname(os.path.abspath(__file__)))
REPO = os.environ.get('VERIF_REPO')
if not REPO or os.path.realpath(REPO) == '/repo':
    sys.exit('set VERIF_REPO to a scratch worktree (never /repo)')
PATH = os.path.join(REPO, 'modules/pel/peltool/registry.py')
C, P = 'changing', 'preserving'
M = [
    ('identity', P, []),
    ('operands of != swapped', P, [('if srcType != entryType:', 'if entryType != srcType:')]),
    ('== with not', P, [('if srcType != entryType:', 'if not (srcType == entryType):')]),
    ('one combined test', P, [('            if "ReasonCode" not in pel["SRC"]:\n                continue\n', ''),
                              ('            if code not in pel["SRC"]["ReasonCode"]:', '            if "ReasonCode" not in pel["SRC"] or code not in pel["SRC"]["ReasonCode"]:')]),
    ('local names for the members', P, [('        for pel in self.pels:\n', '        for pel in self.pels:\n            src = pel["SRC"]\n'),
                                        ('if "ReasonCode" not in pel["SRC"]:', 'if "ReasonCode" not in src:'), ('if code not in pel["SRC"]["ReasonCode"]:', 'if code not in src["ReasonCode"]:')]),
    ('type test after the code test', P, [('            entryType = pel["SRC"].get("Type", "BD")\n            if srcType != entryType:\n                continue\n\n', ''),
                                          ("            output['Message'] =", '            if srcType != pel["SRC"].get("Type", "BD"):\n                continue\n\n            output[\'Message\'] =')]),
    ('renamed variables', P, [('for pel in', 'for ent in'), ('pel[', 'ent[', 'all'), ('output', 'res', 'all'), ('code', 'c_', 'all')]),
    ('code == reason code', C, [('if code not in pel["SRC"]["ReasonCode"]:', 'if code != pel["SRC"]["ReasonCode"]:')]),
    ('reason code in code', C, [('if code not in pel["SRC"]["ReasonCode"]:', 'if pel["SRC"]["ReasonCode"] not in code:')]),
    ('default type BC', C, [('.get("Type", "BD")', '.get("Type", "BC")')]),
    ('type test dropped', C, [('            if srcType != entryType:\n                continue\n', '')]),
    ('type test inverted', C, [('if srcType != entryType:', 'if srcType == entryType:')]),
    ('type compared with the code', C, [('if srcType != entryType:', 'if code != entryType:')]),
    ('code test inverted', C, [('if code not in pel["SRC"]["ReasonCode"]:', 'if code in pel["SRC"]["ReasonCode"]:')]),
    ('reason-code presence test dropped', C, [('            if "ReasonCode" not in pel["SRC"]:\n                continue\n', '')]),
    ('arg sources always copied', C, [("            if ('MessageArgSources' in pel['Documentation']):\n                output['MessageArgSources'] = \\\n", "            if True:\n                output['MessageArgSources'] = \\\n")]),
    ('arg sources never copied', C, [("            if ('MessageArgSources' in pel['Documentation']):\n                output['MessageArgSources'] = \\\n                    pel['Documentation']['MessageArgSources']\n", '')]),
    ('words never copied', C, [("            if 'Words6To9' in pel['SRC'] and pel['SRC']['Words6To9']:\n                output['Words6To9'] = pel['SRC']['Words6To9']\n", '')]),
    ('message from the description', C, [("pel['Documentation']['Message']", "pel['Documentation']['Description']")]),
    ('last match instead of first', C, [('            return output\n\n        return output', '        return output')]),
    ('search goes on after a hit', C, [('            return output\n\n        return output', '            continue\n\n        return output')]),
    ('break instead of continue', C, [('            if srcType != entryType:\n                continue', '            if srcType != entryType:\n                break')]),
    ('loop over the reversed list', C, [('for pel in self.pels:', 'for pel in reversed(self.pels):')]),
    ('loop over a slice', C, [('for pel in self.pels:', 'for pel in self.pels[1:]:')]),
]


def sh(cmd, **kw):
    return subprocess.run(cmd, shell=True, capture_output=True, text=True, **kw)


def main():
    orig = open(PATH).read()
    env = dict(os.environ, VERIF_REPO=REPO)
    bad = 0
    try:
        for name, kind, subs in M:
            t = orig
            ok = True
            for a, b, *rest in subs:
                if a not in t:
                    ok = False
                t = t.replace(a, b) if rest else t.replace(a, b, 1)
            if not ok:
                print('%-40s | %-10s | DOES-NOT-APPLY' % (name, kind))
                bad += 1
                continue
            open(PATH, 'w').write(t)
            if sh('/venv/bin/python -c "import ast,sys;ast.parse(open(sys.argv[1]).read())" ' + PATH).returncode != 0:
                print('%-40s | %-10s | SYNTAX' % (name, kind))
                bad += 1
                continue
            r = sh('/venv/bin/python harness/extract.py', cwd=VERIF, env=env)
            none = 'TRANSLATION-UNAVAILABLE registryGetErrorMessage' in r.stdout
            b = sh('lake build PelProps.TieC03', cwd=os.path.join(VERIF, 'lean'))
            verdict = 'BROKEN' if b.returncode != 0 else 'UNAVAILABLE' if none else 'PROVED'
            flag = ''
            if kind == C and verdict == 'PROVED':
                flag, bad = '   <-- UNSOUND', bad + 1
            if kind == P and verdict == 'BROKEN':
                flag = '   <-- false alarm'
                bad += 1
            print('%-40s | %-10s | %s%s' % (name, kind, verdict, flag), flush=True)
    finally:
        open(PATH, 'w').write(orig)
        sh('/venv/bin/python harness/extract.py', cwd=VERIF, env=env)
        sh('lake build PelGen PelProps.TieC03', cwd=os.path.join(VERIF, 'lean'))
    print('problems: %d' % bad)
    return 1 if bad else 0


if __name__ == '__main__':
    sys.exit(main())
