#!/usr/bin/env python3
"""
tools/seedrerun.py [--boxes /tmp/work/seedbox,/tmp/work/seedbox2] [--ids C01-A,...] [--out /tmp/seedrerun] [--record]

Re-run every seeded change under /verif/seeded/<id>/patch.diff against the CURRENT harness, in isolated copies:
each box is a directory with `repo` (a scratch worktree of /repo at HEAD) and `verif` (a copy of /verif with its own
lean/.lake); /repo itself is never touched.  Boxes are created when missing.  With --record the result is appended to
seeded/<id>/meta.json (`caught_by`, `own_property_check_catches`, `history`).
"""
import argparse, json, os, re, subprocess, sys, threading, queue

V = os.path.dirname(os.path.dirname(os.path.abspath(__file__)))


def sh(cmd, **kw):
    return subprocess.run(cmd, shell=True, capture_output=True, text=True, **kw)


def prepare(box):
    os.makedirs(box, exist_ok=True)
    repo = os.path.join(box, 'repo')
    if not os.path.isdir(repo):
        r = sh('git -C /repo worktree add --detach %s HEAD' % repo)
        assert r.returncode == 0, r.stderr
    else:
        sh('git -C %s checkout -q --detach %s && git -C %s checkout -- . && git -C %s clean -fdq' % (
            repo, sh('git -C /repo rev-parse HEAD').stdout.strip(), repo, repo))
    sh('rsync -a --delete --exclude .git --exclude replays --exclude .lake --exclude evidence %s/ %s/verif/' % (V, box))
    os.makedirs(os.path.join(box, 'verif', 'evidence'), exist_ok=True)
    env = dict(os.environ, VERIF_REPO=repo)
    r = sh(json.load(open(os.path.join(V, 'MANIFEST.json')))['setup_cmd'], cwd=os.path.join(box, 'verif'), env=env)
    assert r.returncode == 0, r.stdout[-2000:] + r.stderr[-2000:]


def main():
    ap = argparse.ArgumentParser()
    ap.add_argument('--boxes', default='/tmp/work/seedbox,/tmp/work/seedbox2')
    ap.add_argument('--ids', default='all')
    ap.add_argument('--out', default='/tmp/seedrerun')
    ap.add_argument('--props', default='all')
    ap.add_argument('--seed', default='1')
    ap.add_argument('--record', action='store_true')
    ap.add_argument('--dir', default='seeded', help="'seeded' (changes that break a property) or 'harmless' (behaviour-preserving refactorings: every non-zero exit is an alarm)")
    a = ap.parse_args()
    boxes = a.boxes.split(',')
    ids = sorted(os.listdir(os.path.join(V, a.dir))) if a.ids == 'all' else a.ids.split(',')
    os.makedirs(a.out, exist_ok=True)
    for b in boxes:
        prepare(b)
    q = queue.Queue()
    for i in ids:
        q.put(i)
    commit = sh('git -C %s rev-parse --short HEAD' % V).stdout.strip()
    dirty = bool(sh('git -C %s status --porcelain -- harness lean tools check' % V).stdout.strip())
    lock = threading.Lock()

    def worker(box):
        while True:
            try:
                sid = q.get_nowait()
            except queue.Empty:
                return
            patch = os.path.join(V, a.dir, sid, 'patch.diff')
            env = dict(os.environ, VERIF_REPO=os.path.join(box, 'repo'))
            r = subprocess.run([os.path.join(box, 'verif', 'tools', 'seedrun.py'), patch, '--props', a.props, '--seed', a.seed,
                                '--out', os.path.join(a.out, sid), '--jobs', '7'], capture_output=True, text=True, env=env)
            run = r.stdout
            open(os.path.join(a.out, sid + '.run.txt'), 'w').write(run + r.stderr)
            m = re.search(r'CAUGHT-BY (\S+)', run)
            caught = [] if not m or m.group(1) == '-' else m.group(1).split(',')
            lines = [l for l in run.split('\n') if re.match(r'C\d\d rc=', l)]
            infra = [l.split()[0] for l in lines if ' rc=2 ' in l]
            with lock:
                print(sid, 'caught by', ','.join(caught) or '-', ('INFRA ' + ','.join(infra)) if infra else '', flush=True)
                if a.record and m and a.props == 'all' and a.dir == 'harmless':
                    mp = os.path.join(V, a.dir, sid, 'meta.json')
                    meta = json.load(open(mp))
                    meta['alarms'] = caught + infra
                    meta['checks_run'] = 'tools/seedrerun.py --dir harmless: patch applied in an isolated worktree (VERIF_REPO), all twenty ./check Cxx --tier quick at verif commit %s' % (commit + ('+' if dirty else ''))
                    json.dump(meta, open(mp, 'w'), indent=1)
                elif a.record and m and a.props == 'all':
                    mp = os.path.join(V, a.dir, sid, 'meta.json')
                    meta = json.load(open(mp))
                    hist = meta.get('history', [])
                    entry = {'verif_commit': commit + ('+' if dirty else ''), 'caught_by': caught, 'nonzero': [l for l in lines if ' rc=0 ' not in l]}
                    hist.append(entry)
                    meta['history'] = hist
                    meta['caught_by'] = caught
                    meta['own_property_check_catches'] = meta['property'] in caught
                    json.dump(meta, open(mp, 'w'), indent=1)
    ts = [threading.Thread(target=worker, args=(b,)) for b in boxes]
    for t in ts:
        t.start()
    for t in ts:
        t.join()


if __name__ == '__main__':
    main()
